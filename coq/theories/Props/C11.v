(* C11 -- Minimal m-separator search is sound, complete and minimal. Statements: C11/Spec.v; model: C11/Model.v *)
From Coq Require Import List Arith.
From PG Require Import Base.ListSet Graph.MGraph Graph.MSep Graph.Walks C01.Model C12.Model C12.Enum C12.Spec C11.Model C11.Spec
  C11.Proofs C11.Anterior C11.Sound C11.Complete C11.Minimal C11.Exact C11.Full C11.Bounded_3 C11.Bounded_4 C11.Refuted.
From PG Require Base.Sx C11.Run.
Import ListNotations.

(* the extracted run_case (Cxx/Run.v) is the model's run_case on the model's modes; its extra modes expose helper functions *)
Theorem extracted_run_case_is_model : forall s, Base.Sx.sx_nat (Base.Sx.sx_nth s 0) <> 3 -> Base.Sx.sx_nat (Base.Sx.sx_nth s 0) <> 4 -> C11.Run.run_case s = C11.Model.run_case s.
Proof. exact C11.Run.run_case_model. Qed.
Print Assumptions extracted_run_case_is_model.

(* FULL soundness, all graphs of the domain of C01, all sizes: what the search returns lies between I and R and m-separates
   x and y in g (m-connecting paths of Graph/MSep.v).  Uses C01.Proofs.msep_correct and the anterior-restriction lemma. *)
Theorem minsep_sound : forall g x y I R Z,
  (U g = [] \/ ancestral_und g) -> In x (V g) -> In y (V g) -> x <> y ->
  incl I R -> incl R (V g) -> ~ In x R -> ~ In y R ->
  minsep_model g x y I R = Some Z ->
  incl I Z /\ incl Z R /\ msep g [x] [y] Z.
Proof. exact C11.Sound.minsep_sound. Qed.
Print Assumptions minsep_sound.

(* FULL soundness of the test: an accepted Z lies between I and R and m-separates x and y in g *)
Theorem is_minsep_sound : forall g x y Z I R,
  (U g = [] \/ ancestral_und g) -> In x (V g) -> x <> y -> incl R (V g) -> ~ In x R ->
  is_minsep_model g x y Z I R = 1 ->
  incl I Z /\ incl Z R /\ msep g [x] [y] Z.
Proof. exact C11.Sound.is_minsep_sound. Qed.
Print Assumptions is_minsep_sound.

(* COMPLETENESS, all sizes: None exactly when no set between I and R m-separates x and y *)
Theorem minsep_none_iff : forall g x y I R,
  acyclicb g = true -> ancestral_und g -> In x (V g) -> In y (V g) -> x <> y ->
  incl I R -> incl R (V g) -> ~ In x R -> ~ In y R ->
  (minsep_model g x y I R = None <-> ~ exists Z, incl I Z /\ incl Z R /\ msep g [x] [y] Z).
Proof. exact C11.Complete.minsep_none_iff. Qed.
Print Assumptions minsep_none_iff.

(* MINIMALITY, all sizes: no proper subset of the returned set that still contains I separates *)
Theorem minsep_minimal : forall g x y I R Z,
  acyclicb g = true -> ancestral_und g -> In x (V g) -> In y (V g) -> x <> y ->
  incl I R -> incl R (V g) -> ~ In x R -> ~ In y R ->
  minsep_model g x y I R = Some Z ->
  forall Z'', incl I Z'' -> incl Z'' Z -> ~ incl Z Z'' -> ~ msep g [x] [y] Z''.
Proof. exact C11.Minimal.minsep_minimal. Qed.
Print Assumptions minsep_minimal.

(* EXACTNESS of the test, all sizes: 1 exactly for the minimal separators between I and R *)
Theorem is_minsep_exact : forall g x y Z I R,
  acyclicb g = true -> ancestral_und g -> In x (V g) -> In y (V g) -> x <> y ->
  incl I R -> incl R (V g) -> ~ In x R -> ~ In y R ->
  (is_minsep_model g x y Z I R = 1 <->
   incl I Z /\ incl Z R /\ msep g [x] [y] Z /\
   forall Z'', incl I Z'' -> incl Z'' Z -> ~ incl Z Z'' -> ~ msep g [x] [y] Z'').
Proof. exact C11.Exact.is_minsep_exact. Qed.
Print Assumptions is_minsep_exact.

(* the four statements of C11/Spec.v verbatim (domain of C01 by the boolean class tests) *)
Theorem c11_full : minsep_sound_stmt /\ minsep_complete_stmt /\ minsep_minimal_stmt /\ is_minsep_exact_stmt.
Proof. exact (conj C11.Full.minsep_sound_full (conj C11.Full.minsep_complete_full
               (conj C11.Full.minsep_minimal_full C11.Full.is_minsep_exact_full))). Qed.
Print Assumptions c11_full.

(* the anterior-restriction lemma: separation in the subgraph induced by a set S closed under parents and undirected
   neighbours that contains x, y and Z implies separation in g (no arrowhead at an endpoint of an undirected edge) *)
Theorem anterior_restrict : forall g S x y Z,
  ancestral_und g -> ant_closed g S -> In x (V g) -> In x S -> In y S -> incl Z S ->
  msep (restrict g S) [x] [y] Z -> msep g [x] [y] Z.
Proof. exact C11.Sound.anterior_restrict. Qed.
Print Assumptions anterior_restrict.

(* unbounded (all graphs): the returned set contains I, lies inside R, avoids x and y, and passed the model of m_separated
   (C01) on the anterior graph of {x,y} ∪ I with the whole returned set as conditioning set *)
Theorem minsep_sound_partial : forall g x y I R Z, incl I R -> ~ In x R -> ~ In y R ->
  minsep_model g x y I R = Some Z ->
  incl I Z /\ incl Z R /\ ~ In x Z /\ ~ In y Z /\
  msep_model (ant_graph g (x :: y :: I)) [x] [y] Z = Some true.
Proof. exact C11.Proofs.minsep_sound_partial. Qed.
Print Assumptions minsep_sound_partial.

Theorem is_minsep_sound_partial : forall g x y Z I R,
  is_minsep_model g x y Z I R = 1 -> incl I Z /\ incl Z R /\ msep_model g [x] [y] Z = Some true.
Proof. exact C11.Proofs.is_minsep_sound_partial. Qed.
Print Assumptions is_minsep_sound_partial.

(* every graph of the domain of C01 on at most 3 nodes, every pair x <> y, every I inside R inside V - {x,y}, every Z:
   None <-> no separator between I and R; Some Z -> Z is a separator between I and R none of whose proper subsets
   containing I separates; is_minsep_model = 1 exactly for those sets.  Separation is msep (m-connecting paths). *)
Theorem minsep_bounded_3 : forall n ks, n <= 3 -> in_admg n ks \/ in_anc n ks ->
  minsep_correct_on n ks /\ is_minsep_exact_on n ks.
Proof. exact C11.Bounded_3.minsep_bounded_3. Qed.
Print Assumptions minsep_bounded_3.

(* the same for minsep_model on every DAG with 4 nodes *)
Theorem minsep_bounded_dag_4 : forall ks, in_dag 4 ks -> minsep_correct_on 4 ks.
Proof. exact C11.Bounded_4.minsep_bounded_dag_4. Qed.
Print Assumptions minsep_bounded_dag_4.

(* the code as it stood (before fix proposals C11-02, C11-03) violates the property *)
Theorem minsep_asis_unsound_refuted :
  exists g x y I R Z, minsep_asis false g x y I R = Some Z /\ msep_dec g [x] [y] Z = false.
Proof. exact C11.Refuted.minsep_asis_unsound_refuted. Qed.
Print Assumptions minsep_asis_unsound_refuted.

Theorem minsep_asis_incomplete_refuted :
  exists g x y I R Z, minsep_asis true g x y I R = None /\ subsetb I Z = true /\ subsetb Z R = true /\
                      msep_dec g [x] [y] Z = true.
Proof. exact C11.Refuted.minsep_asis_incomplete_refuted. Qed.
Print Assumptions minsep_asis_incomplete_refuted.
