(* C12 -- Moral graph adjacency is collider-connectedness and decides separation. Statements: C12/Spec.v *)
From Coq Require Import List Arith.
From PG Require Import Base.ListSet Graph.MGraph Graph.MSep Graph.Walks C12.Model C12.Enum C12.Spec C12.Proofs C12.CriterionFwd
  C12.CriterionBwd C12.Bounded_3 C12.Bounded_4.
From PG Require Base.Sx C12.Run.
Import ListNotations.

(* the extracted run_case (Cxx/Run.v) is the model's run_case on the model's modes; its extra modes expose helper functions *)
Theorem extracted_run_case_is_model : forall s, Base.Sx.sx_nat (Base.Sx.sx_nth s 0) <> 3 -> C12.Run.run_case s = C12.Model.run_case s.
Proof. exact C12.Run.run_case_model. Qed.
Print Assumptions extracted_run_case_is_model.

(* clause 1 (all graphs): adjacent in the moral graph <-> joined by an edge or by a path whose inner nodes are all colliders *)
Theorem moral_adjacency : forall g a b, wf g -> a <> b -> In a (V g) -> In b (V g) ->
  (moral_adj g a b = true <-> skel_adj g a b = true \/ collider_connected g a b).
Proof. exact C12.Proofs.moral_adjacency. Qed.
Print Assumptions moral_adjacency.

(* the result has exactly G's nodes; its edge list is the relation moral_adj; read as a formal graph its adjacency is moral_adj *)
Theorem moral_nodes : forall g, V (moral_graph g) = V g.
Proof. exact C12.Proofs.moral_nodes. Qed.
Print Assumptions moral_nodes.

Theorem moral_edges_spec : forall g a b,
  In (a, b) (moral_edges g) <-> In a (V g) /\ In b (V g) /\ a < b /\ moral_adj g a b = true.
Proof. exact C12.Proofs.moral_edges_spec. Qed.
Print Assumptions moral_edges_spec.

Theorem moral_graph_adjacent : forall g a b, In a (V g) -> In b (V g) ->
  adjacent (moral_graph g) a b = moral_adj g a b.
Proof. exact C12.Proofs.moral_graph_adjacent. Qed.
Print Assumptions moral_graph_adjacent.

(* plain DAGs (more generally: no bidirected edge): skeleton + married co-parents = networkx.moral_graph *)
Theorem moral_dag_is_nx : forall g a b, B g = [] -> In a (V g) -> In b (V g) ->
  (moral_adj g a b = true <->
   a <> b /\ (has_d g a b = true \/ has_d g b a = true \/ has_u g a b = true \/
              exists c, In c (V g) /\ has_d g a c = true /\ has_d g b c = true)).
Proof. exact C12.Proofs.moral_dag_is_nx. Qed.
Print Assumptions moral_dag_is_nx.

(* clause 2, one direction for ALL graphs and sizes (no arrowhead at an endpoint of an undirected edge; acyclicity not needed):
   a vertex cut Z in the moral graph of the anterior subgraph m-separates X and Y
   (equivalently: an m-connecting path yields a Z-avoiding connection in that moral graph) *)
Theorem moral_criterion_fwd : forall g X Y Z,
  ancestral_und g -> incl X (V g) -> incl Y (V g) -> incl Z (V g) ->
  disjointb X Z = true -> disjointb Y Z = true ->
  moral_sep g X Y Z = true -> msep g X Y Z.
Proof. exact C12.CriterionFwd.moral_criterion_fwd. Qed.
Print Assumptions moral_criterion_fwd.

(* clause 2, the converse, for ALL graphs of the domain of C01 and all sizes: m-separated => vertex cut *)
Theorem moral_criterion_bwd : forall g X Y Z,
  acyclicb g = true -> ancestral_und g -> incl X (V g) -> incl Y (V g) -> incl Z (V g) ->
  disjointb X Y = true -> disjointb X Z = true ->
  msep g X Y Z -> moral_sep g X Y Z = true.
Proof. exact C12.CriterionBwd.moral_criterion_bwd. Qed.
Print Assumptions moral_criterion_bwd.

(* clause 2 IN FULL, all sizes: X and Y are m-separated by Z in g (m-connecting paths) iff Z separates them, as an ordinary
   vertex cut, in the moral graph of the subgraph induced by the anterior closure of X, Y and Z *)
Theorem moral_criterion : forall g X Y Z,
  acyclicb g = true -> ancestral_und g -> incl X (V g) -> incl Y (V g) -> incl Z (V g) ->
  disjointb X Y = true -> disjointb X Z = true -> disjointb Y Z = true ->
  (msep g X Y Z <-> moral_sep g X Y Z = true).
Proof. exact C12.CriterionBwd.moral_criterion. Qed.
Print Assumptions moral_criterion.

(* the same with the domain of C01 given by the boolean class tests (statement C12.Spec.moral_criterion_stmt) *)
Theorem moral_criterion_full : forall g X Y Z,
  (wf g /\ C g = [] /\ acyclicb g = true /\ (U g = [] \/ anc_ok g = true)) ->
  incl X (V g) -> incl Y (V g) -> incl Z (V g) ->
  disjointb X Y = true -> disjointb X Z = true -> disjointb Y Z = true ->
  (msep g X Y Z <-> moral_sep g X Y Z = true).
Proof. exact C12.CriterionBwd.moral_criterion_full. Qed.
Print Assumptions moral_criterion_full.

(* clause 2 again, independently, by kernel computation: every graph of the domain of C01 on at most 3 nodes and all pairwise disjoint X, Y, Z:
   m-separated (by paths, Graph/MSep.v) <-> Z is a vertex cut in the moral graph of the anterior subgraph *)
Theorem moral_criterion_bounded_3 : forall n ks, n <= 3 -> in_admg n ks \/ in_anc n ks ->
  forall X Y Z, In X (sublists (seq 0 n)) -> In Y (sublists (seq 0 n)) -> In Z (sublists (seq 0 n)) ->
    disjointb X Y = true -> disjointb X Z = true -> disjointb Y Z = true ->
    (msep (graph_of n ks) X Y Z <-> moral_sep (graph_of n ks) X Y Z = true).
Proof. exact C12.Bounded_3.moral_criterion_bounded_3. Qed.
Print Assumptions moral_criterion_bounded_3.

(* clause 2 on 4 nodes: every acyclic graph with at most one edge per node pair (none, ->, <-, <->, --) and no arrowhead at
   an endpoint of an undirected edge -- in particular every DAG on 4 nodes *)
Theorem moral_criterion_bounded_anc_4 : forall ks, in_anc 4 ks ->
  forall X Y Z, In X (sublists (seq 0 4)) -> In Y (sublists (seq 0 4)) -> In Z (sublists (seq 0 4)) ->
    disjointb X Y = true -> disjointb X Z = true -> disjointb Y Z = true ->
    (msep (graph_of 4 ks) X Y Z <-> moral_sep (graph_of 4 ks) X Y Z = true).
Proof. exact C12.Bounded_4.moral_criterion_bounded_anc_4. Qed.
Print Assumptions moral_criterion_bounded_anc_4.

Theorem moral_criterion_bounded_dag_4 : forall ks, in_dag 4 ks -> moral_criterion_on 4 ks.
Proof. exact C12.Bounded_4.moral_criterion_bounded_dag_4. Qed.
Print Assumptions moral_criterion_bounded_dag_4.
