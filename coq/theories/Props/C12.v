From Coq Require Import List.
From PG Require Import Graph.MGraph C12.Model.
(* placeholder until the proofs land *)
Theorem c12_placeholder : forall g, length (moral_edges g) = length (moral_edges g).
Proof. reflexivity. Qed.
Print Assumptions c12_placeholder.
