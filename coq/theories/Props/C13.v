(* C13 — stationary time-series graphs stay complete, ordered and shift-invariant (model: C13/Model.v, spec: C13/Spec.v) *)
From Coq Require Import List Arith.
From PG Require Import C13.Model C13.Spec C13.Proofs C13.Refine C13.Refuted.
Import ListNotations.

(* after ANY history of operations (unbounded), from the empty graph of any of the five class shapes:
   nodes = variables x {0..max_lag}; every layer carries max_lag, its edge set is exactly the set of in-window shifts of
   its templates, no stored edge runs from later to earlier, edge endpoints are nodes *)
Theorem ts_reachable_inv : forall c L0 ops, 1 <= L0 -> ts_inv (run (init c L0) ops).
Proof. exact ts_reachable_inv_proof. Qed.
Print Assumptions ts_reachable_inv.

(* an operation that raises leaves the whole state (every edge set, max_lag, nodes) unchanged ... *)
Theorem ts_raise_atomic : forall s o s', step s o = (s', true) -> s' = s.
Proof. exact ts_raise_atomic_proof. Qed.
Print Assumptions ts_raise_atomic.

(* ... and the graph still satisfies the invariant *)
Theorem ts_raise_keeps_inv : forall c L0 ops o s',
  1 <= L0 -> step (run (init c L0) ops) o = (s', true) -> s' = run (init c L0) ops /\ ts_inv s'.
Proof. exact ts_raise_keeps_inv_proof. Qed.
Print Assumptions ts_raise_keeps_inv.

(* copy: the copy is an equal state (same class, max_lag, nodes, layers) and never raises; the original is unaffected by
   whatever happens to the copy afterwards *)
Theorem ts_copy : forall w ops,
  step (cur w) Copy = (cur w, false) /\ cur (wstep w Copy) = cur w /\
  In (cur w) (originals (wrun (wstep w Copy) ops)).
Proof. intros w ops. split; [apply ts_copy_equal_proof | apply ts_copy_proof]. Qed.
Print Assumptions ts_copy.

(* the class shape never changes along a history (so a copy has the class of its original) *)
Theorem ts_class_stable : forall c L0 ops, cls (run (init c L0) ops) = c.
Proof. intros c L0 ops. exact (cls_run (init c L0) ops). Qed.
Print Assumptions ts_class_stable.

(* refinement to the abstract template machine: one successful single operation acts on the templates of every layer
   exactly as the abstract operation does (add / remove one template, drop the templates of a variable, drop the
   templates longer than the new window); lifted to histories by ts_reachable_inv *)
Theorem ts_refines : forall s o s', Inv s -> step s o = (s', false) -> single o -> refines_op s o s'.
Proof. exact ts_refines_proof. Qed.
Print Assumptions ts_refines.

(* the hypotheses are satisfiable on a non-trivial history: PAG shape, lagged directed + contemporaneous bidirected
   edge, grow the window, shrink it, remove a lagged edge through one of its shifts *)
Example ts_example :
  let s := run (init 4 1) [AddEdge 0 (0, 1) (1, 0); AddEdge 3 (1, 0) (0, 0); SetMaxLag 3; SetMaxLag 2;
                           RemoveEdge 0 (0, 2) (1, 1); AddVar 2] in
  maxlag s = 2 /\ length (nodes s) = 9 /\
  map (fun ly => length (ledges ly)) (layers s) = [0; 0; 0; 3] /\
  snd (step s (SetMaxLag 0)) = true.
Proof. vm_compute. repeat split. Qed.
Print Assumptions ts_example.

(* ---- documentation of the repaired defects: statements about the as-is transcription of the OLD code (C13/Refuted.v) ---- *)
Theorem old_set_max_lag_growth_nodes_refuted :
  exists c L0 ops n, 1 <= L0 /\
    snd (old_set_max_lag_single (run (init c L0) ops) n) = false /\
    ~ window_nodes (fst (old_set_max_lag_single (run (init c L0) ops) n)).
Proof. exact old_growth_nodes_refuted. Qed.
Print Assumptions old_set_max_lag_growth_nodes_refuted.

Theorem old_set_max_lag_growth_edges_refuted :
  exists c L0 ops n, 1 <= L0 /\
    let s' := fst (old_set_max_lag_single (run (init c L0) ops) n) in
    window_nodes s' /\ exists ly, In ly (layers s') /\ ~ shift_complete (maxlag s') ly.
Proof. exact old_growth_edges_refuted. Qed.
Print Assumptions old_set_max_lag_growth_edges_refuted.

Theorem old_set_max_lag_shrink_refuted :
  exists c L0 ops n, 1 <= L0 /\
    let s := run (init c L0) ops in
    snd (old_set_max_lag_single s n) = true /\ maxlag (fst (old_set_max_lag_single s n)) <> maxlag s /\
    ~ window_nodes (fst (old_set_max_lag_single s n)).
Proof. exact old_shrink_refuted. Qed.
Print Assumptions old_set_max_lag_shrink_refuted.

Theorem old_set_max_lag_mixed_refuted :
  exists ops n,
    let s' := fst (old_set_max_lag_mixed (run (init 4 1) ops) n) in
    snd (old_set_max_lag_mixed (run (init 4 1) ops) n) = false /\
    (exists ly, In ly (layers s') /\ llag ly <> maxlag s') /\
    (exists ly, In ly (layers (run (init 4 1) ops)) /\ ledges ly = []) /\
    forall ly, In ly (layers s') -> ledges ly <> [].
Proof. exact old_mixed_growth_refuted. Qed.
Print Assumptions old_set_max_lag_mixed_refuted.

Theorem old_set_max_lag_cpdag_refuted :
  let s := run (init 3 1) [AddEdge 0 (0, 1) (1, 0)] in
  snd (old_set_max_lag_mixed s 2) = true /\ fst (old_set_max_lag_mixed s 2) <> s.
Proof. exact old_cpdag_growth_refuted. Qed.
Print Assumptions old_set_max_lag_cpdag_refuted.

Theorem old_add_edges_from_refuted :
  exists c L0 i es, 1 <= L0 /\
    snd (old_add_edges (init c L0) i es) = true /\ fst (old_add_edges (init c L0) i es) <> init c L0 /\
    apply_op (init c L0) (AddEdges i es) = Raise.
Proof. exact old_add_edges_refuted. Qed.
Print Assumptions old_add_edges_from_refuted.
