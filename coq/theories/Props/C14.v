(* C14 — Export followed by import reproduces the graph in every format.
   Part A (C14/Model.v, Proofs.v, Lift.v): the codecs the property demands, with the documented endpoint codes.
   Part B (C14/GenProofs.v over Gen/Gen_Codecs.v, Gen/Gen_Enums.v): the per-pair chains of /repo as translated on
   this run realise those codecs on every expressible pair state (kernel computation over the generated text). *)
From Coq Require Import List ZArith.
From PG Require Import Base.ListSet Graph.MGraph C14.Defs C14.Model C14.Proofs C14.Lift C14.Lift2 C14.GenProofs Gen.Gen_Enums.
Import ListNotations.
Local Open Scope nat_scope.

(* ---- A. demanded codecs *)
Theorem pair_roundtrip_f_c : forall f c s, adm f c s = true -> dec f c (enc f c s) = Some s.
Proof. exact pair_roundtrip. Qed.
Print Assumptions pair_roundtrip_f_c.

Theorem pair_roundtrip_inv_f_c : forall f c xy, wellformed_pair f c xy ->
  exists s, dec f c xy = Some s /\ adm f c s = true /\ enc f c s = xy.
Proof. exact pair_roundtrip_inv. Qed.
Print Assumptions pair_roundtrip_inv_f_c.

Theorem enc_injective_on_expressible : forall f c s t, adm f c s = true -> adm f c t = true -> enc f c s = enc f c t -> s = t.
Proof. exact enc_injective. Qed.
Print Assumptions enc_injective_on_expressible.

Theorem documented_codes_hold :
  enc FPcalg PAG st_dir = (2, 3)%Z /\ enc FPcalg PAG st_rev = (3, 2)%Z /\ enc FPcalg PAG st_bid = (2, 2)%Z /\
  enc FPcalg PAG st_tcir = (1, 3)%Z /\ enc FPcalg PAG st_und = (3, 3)%Z /\ enc FPcalg PAG st_coo = (1, 1)%Z /\
  enc FPcalg PAG st_cdir = (2, 1)%Z /\
  enc FPcalg CPDAG st_dir = (0, 1)%Z /\ enc FPcalg CPDAG st_rev = (1, 0)%Z /\ enc FPcalg CPDAG st_und = (1, 1)%Z /\
  (forall c, enc FClearn c st_dir = (-1, 1)%Z /\ enc FClearn c st_bid = (1, 1)%Z /\ enc FClearn c st_und = (-1, -1)%Z /\
             enc FClearn c st_coo = (2, 2)%Z /\ enc FClearn c st_cdir = (2, 1)%Z /\ enc FClearn c st_tcir = (-1, 2)%Z /\
             enc FClearn c st_dir_bid = (4, 5)%Z /\ enc FClearn c st_dir_und = (6, 4)%Z /\ enc FClearn c st_bid_und = (4, 4)%Z) /\
  (forall c, enc FNumpy c st_dir = (1, 0)%Z /\ enc FNumpy c st_tcir = (2, 0)%Z /\ enc FNumpy c st_und = (10, 10)%Z /\
             enc FNumpy c st_bid = (20, 20)%Z /\ enc FNumpy c st_dir_bid = (21, 20)%Z /\ enc FNumpy c st_cdir = (1, 2)%Z /\
             enc FNumpy c st_coo = (2, 2)%Z /\ enc FNumpy c st_dir_und = (11, 10)%Z /\ enc FNumpy c st_bid_und = (30, 30)%Z) /\
  (forall f c, enc f c (PS false false false false false false) = (0, 0)%Z).
Proof. exact documented_codes. Qed.
Print Assumptions documented_codes_hold.

Theorem tetrad_strings_and_roundtrip : forall c,
  (tet_string c st_dir = [45; 45; 62] /\ tet_string c st_rev = [60; 45; 45] /\ tet_string c st_bid = [60; 45; 62] /\
   tet_string c st_und = [45; 45; 45] /\ tet_string c st_coo = [111; 45; 111] /\ tet_string c st_cdir = [111; 45; 62] /\
   tet_string c st_tcir = [45; 45; 111]) /\
  (forall s, adm FTetrad c s = true -> adjacent_s s = true ->
     dec FTetrad c (tet_right_inv (nth 2 (tet_string c s) O), tet_left_inv (nth 0 (tet_string c s) O)) = Some s).
Proof. exact (fun c => conj (documented_tetrad_strings c) (tetrad_string_roundtrip c)). Qed.
Print Assumptions tetrad_strings_and_roundtrip.

(* lifted over the node-pair loop, any number of nodes, any node order *)
Theorem export_import_f_c : forall f c g order, NoDup order -> all_adm f c g order = true ->
  exists g', import_m f c (export_m f c g order) order = Some g' /\ V g' = order /\
             forall a b, In a order -> In b order -> a <> b -> pstate_of g' a b = pstate_of g a b.
Proof. exact export_import. Qed.
Print Assumptions export_import_f_c.

Theorem export_entries_are_documented_codes : forall f c g order a b, In a order -> In b order -> a <> b ->
  (mat_at (export_m f c g order) order a b, mat_at (export_m f c g order) order b a) = enc f c (pstate_of g a b).
Proof. exact export_entries. Qed.
Print Assumptions export_entries_are_documented_codes.

(* importing a well-formed matrix and exporting it again returns the same matrix (shape, diagonal, every entry);
   wf_matrix: square over the order, zero diagonal, distinct nodes, every off-diagonal pair of entries in the image
   of the pair encoder of the class *)
Theorem import_export_f_c : forall f c m order, wf_matrix f c m order ->
  exists g, import_m f c m order = Some g /\ V g = order /\ export_m f c g order = m.
Proof. exact import_export. Qed.
Print Assumptions import_export_f_c.

Theorem import_export_of_accepted_matrix : forall f c m order g, import_m f c m order = Some g -> export_m f c g order = m.
Proof. exact import_export_accepted. Qed.
Print Assumptions import_export_of_accepted_matrix.

Theorem exported_matrix_is_wellformed : forall f c g order, NoDup order -> all_adm f c g order = true ->
  wf_matrix f c (export_m f c g order) order.
Proof. exact export_wf. Qed.
Print Assumptions exported_matrix_is_wellformed.

Theorem ts_array_roundtrip_thm : forall d nv ml st x y lag,
  In (x, y, lag) (ts_import nv ml (ts_export d nv ml st)) <->
  x < nv /\ y < nv /\ lag <= ml /\ ts_has d st x y lag = true.
Proof. exact ts_array_roundtrip. Qed.
Print Assumptions ts_array_roundtrip_thm.

Theorem ts_array_roundtrip_inv_thm : forall d nv ml arr x y lag, x < nv -> y < nv -> lag <= ml ->
  (d = true \/ ts_get arr x y 0 = ts_get arr y x 0) ->
  ts_get (ts_export d nv ml (ts_import nv ml arr)) x y lag = ts_get arr x y lag.
Proof. exact ts_array_roundtrip_inv. Qed.
Print Assumptions ts_array_roundtrip_inv_thm.

(* ---- B. the code of /repo as translated on this run *)
Theorem repo_pair_roundtrip_numpy_clearn_pcalg : forall f c s, In f [FNumpy; FClearn; FPcalg] -> adm f c s = true ->
  exists xy, g_enc f c s = Some xy /\ g_dec f c xy = Some s /\ xy = enc f c s.
Proof. exact gen_pair_roundtrip. Qed.
Print Assumptions repo_pair_roundtrip_numpy_clearn_pcalg.

Theorem repo_pair_roundtrip_inv_numpy_clearn_pcalg : forall f c xy, In f [FNumpy; FClearn; FPcalg] -> wellformed_pair f c xy ->
  exists s, g_dec f c xy = Some s /\ g_enc f c s = Some xy.
Proof. exact gen_pair_roundtrip_inv. Qed.
Print Assumptions repo_pair_roundtrip_inv_numpy_clearn_pcalg.

Theorem repo_numpy_decoder_inverts_documented_enumeration : forall c s, adm FNumpy c s = true ->
  g_dec FNumpy c (enc FNumpy c s) = Some s.
Proof. exact gen_numpy_decodes_documented. Qed.
Print Assumptions repo_numpy_decoder_inverts_documented_enumeration.

Theorem repo_tetrad_roundtrip : forall c s, adm FTetrad c s = true -> adjacent_s s = true ->
  ochs_eqb (g_enc_tetrad c s) (tet_string c s) = true /\ g_dec_tetrad c (tet_string c s) = Some s.
Proof. exact gen_tetrad_roundtrip. Qed.
Print Assumptions repo_tetrad_roundtrip.

Theorem repo_enums_are_documented :
  e2v_directed = 1%Z /\ e2v_circle = 2%Z /\ e2v_undirected = 10%Z /\ e2v_bidirected = 20%Z /\
  PCAlgPAGEndpoint_NULL = 0%Z /\ PCAlgPAGEndpoint_CIRCLE = 1%Z /\ PCAlgPAGEndpoint_ARROW = 2%Z /\ PCAlgPAGEndpoint_TAIL = 3%Z /\
  PCAlgCPDAGEndpoint_NULL = 0%Z /\ PCAlgCPDAGEndpoint_ARROW = 1%Z /\
  CLearnEndpoint_TAIL = (-1)%Z /\ CLearnEndpoint_NULL = 0%Z /\ CLearnEndpoint_ARROW = 1%Z /\ CLearnEndpoint_CIRCLE = 2%Z /\
  CLearnEndpoint_TAIL_AND_ARROW = 4%Z /\ CLearnEndpoint_ARROW_AND_ARROW = 5%Z /\ CLearnEndpoint_TAIL_AND_TAIL = 6%Z /\
  TetradEndpoint_TAIL = [45] /\ TetradEndpoint_ARROW = [62] /\ TetradEndpoint_CIRCLE = [111].
Proof. exact gen_enums_documented. Qed.
Print Assumptions repo_enums_are_documented.
