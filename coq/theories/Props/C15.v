From Coq Require Import List.
From PG Require Import Graph.MGraph Graph.MSep Graph.Rename C15.Proofs.

(* the separation spec commutes with every one-to-one renaming of the nodes *)
Theorem spec_equivariant_msep : forall f g X Y Z, injective f ->
  (msep (rmap f g) (map f X) (map f Y) (map f Z) <-> msep g X Y Z).
Proof. intros f g X Y Z Hf. exact (msep_rmap f Hf g X Y Z). Qed.
Print Assumptions spec_equivariant_msep.

(* ... and ignores the order / multiplicity in which nodes and edges are listed (insertion order) *)
Theorem spec_order_free_msep : forall g g' X X' Y Y' Z Z', gequiv g g' ->
  (forall a, In a X <-> In a X') -> (forall a, In a Y <-> In a Y') -> (forall a, In a Z <-> In a Z') ->
  (msep g X Y Z <-> msep g' X' Y' Z').
Proof. exact msep_order_free. Qed.
Print Assumptions spec_order_free_msep.

Theorem oracle_equivariant_msep : forall f g X Y Z, injective f -> incl Z (V g) ->
  msep_dec (rmap f g) (map f X) (map f Y) (map f Z) = msep_dec g X Y Z.
Proof. exact msep_dec_rmap. Qed.
Print Assumptions oracle_equivariant_msep.

Theorem oracle_order_free_msep : forall g g' X X' Y Y' Z Z', gequiv g g' ->
  (forall a, In a X <-> In a X') -> (forall a, In a Y <-> In a Y') -> (forall a, In a Z <-> In a Z') ->
  incl Z (V g) -> msep_dec g X Y Z = msep_dec g' X' Y' Z'.
Proof. exact msep_dec_order_free. Qed.
Print Assumptions oracle_order_free_msep.
