From Coq Require Import List.
From PG Require Import Graph.MGraph Graph.MSep Graph.Rename C15.Proofs.

(* the separation spec commutes with every one-to-one renaming of the nodes *)
Theorem spec_equivariant_msep : forall f g X Y Z, injective f ->
  (msep (rmap f g) (map f X) (map f Y) (map f Z) <-> msep g X Y Z).
Proof. intros f g X Y Z Hf. exact (msep_rmap f Hf g X Y Z). Qed.
Print Assumptions spec_equivariant_msep.

(* ... and ignores the order / multiplicity in which nodes and edges are listed (insertion order) *)
Theorem spec_order_free_msep : forall g g' X X' Y Y' Z Z', gequiv g g' ->
  (forall a, In a X <-> In a X') -> (forall a, In a Y <-> In a Y') -> (forall a, In a Z <-> In a Z') ->
  (msep g X Y Z <-> msep g' X' Y' Z').
Proof. exact msep_order_free. Qed.
Print Assumptions spec_order_free_msep.

Theorem oracle_equivariant_msep : forall f g X Y Z, injective f -> incl Z (V g) ->
  msep_dec (rmap f g) (map f X) (map f Y) (map f Z) = msep_dec g X Y Z.
Proof. exact msep_dec_rmap. Qed.
Print Assumptions oracle_equivariant_msep.

Theorem oracle_order_free_msep : forall g g' X X' Y Y' Z Z', gequiv g g' ->
  (forall a, In a X <-> In a X') -> (forall a, In a Y <-> In a Y') -> (forall a, In a Z <-> In a Z') ->
  incl Z (V g) -> msep_dec g X Y Z = msep_dec g' X' Y' Z'.
Proof. exact msep_dec_order_free. Qed.
Print Assumptions oracle_order_free_msep.

(* model level: the executable model of m_separated (C01) commutes with every one-to-one renaming on C01's whole domain
   (corollary of C01's unbounded correctness theorem msep_model_dec and of oracle_equivariant_msep) *)
From PG Require Import Graph.Walks C01.Model C01.Spec C15.ModelEquiv.
Theorem model_equivariant_msep : forall f g X Y Z, injective f ->
  acyclicb g = true -> (U g = nil \/ ancestral_und g) ->
  incl X (V g) -> incl Z (V g) -> disjoint X Y -> disjoint X Z ->
  msep_model (rmap f g) (map f X) (map f Y) (map f Z) = msep_model g X Y Z.
Proof. intros f g X Y Z Hf. exact (msep_model_rmap f Hf g X Y Z). Qed.
Print Assumptions model_equivariant_msep.

(* ====================================================================================================================
   spec_equivariant_A / spec_order_free_A for every algorithm A (DESIGN section 5, C15): each property's Prop-level spec
   (its Spec.v) commutes with every one-to-one renaming of the nodes [rmap f] and depends on the node / edge lists only
   as sets [gequiv]; plus model-level corollaries where the property has an unbounded model = spec theorem.
   Proofs: Graph/RenameMore.v, C15/Equiv_*.v.
   ==================================================================================================================== *)
From PG Require Import Base.ListSet Base.Closure Graph.RenameMore.
From PG Require Import C12.Model C12.Spec C10.Model C10.Spec C04.Dag C05.Model C06.Model C06.Spec C07.Model C07.Spec
  C19.Model C19.Spec C11.Spec C08.Model C08.Spec C09.Model C09.Spec C16.Model C16.Paths C16.Spec C17.Model C17.Spec C18.Model C18.Spec.
From PG Require C15.Equiv_C12 C15.Equiv_C10 C15.Equiv_C10s C15.Equiv_C0405 C15.Equiv_C06 C15.Equiv_C07 C15.Equiv_C19 C15.Equiv_C11
  C15.Equiv_C0809 C15.Equiv_C16 C15.Equiv_C17 C15.Equiv_C18.

(* ---- C12: collider-connectedness (spec), moral_adj / moral graph / criterion (model) ---- *)
Theorem spec_equivariant_c12_collider_path :
  forall f : nat -> nat,
  injective f ->
  forall (g : mgraph) (a : nat) (p : spath) (b : nat),
  collider_path (rmap f g) (f a) (mp f p) (f b) <-> collider_path g a p b.
Proof. exact Equiv_C12.collider_path_rmap. Qed.
Print Assumptions spec_equivariant_c12_collider_path.

Theorem spec_equivariant_c12_collider_connected :
  forall f : nat -> nat,
  injective f ->
  forall (g : mgraph) (a b : nat), collider_connected (rmap f g) (f a) (f b) <-> collider_connected g a b.
Proof. exact Equiv_C12.collider_connected_rmap. Qed.
Print Assumptions spec_equivariant_c12_collider_connected.

Theorem spec_order_free_c12_collider_path :
  forall (g g' : mgraph) (a : nat) (p : spath) (b : nat),
  gequiv g g' -> collider_path g a p b <-> collider_path g' a p b.
Proof. exact Equiv_C12.collider_path_gequiv. Qed.
Print Assumptions spec_order_free_c12_collider_path.

Theorem spec_order_free_c12_collider_connected :
  forall (g g' : mgraph) (a b : nat), gequiv g g' -> collider_connected g a b <-> collider_connected g' a b.
Proof. exact Equiv_C12.collider_connected_gequiv. Qed.
Print Assumptions spec_order_free_c12_collider_connected.

Theorem model_equivariant_c12_moral_adj :
  forall f : nat -> nat,
  injective f -> forall (g : mgraph) (a b : nat), moral_adj (rmap f g) (f a) (f b) = moral_adj g a b.
Proof. exact Equiv_C12.moral_adj_rmap. Qed.
Print Assumptions model_equivariant_c12_moral_adj.

Theorem model_order_free_c12_moral_adj :
  forall (g g' : mgraph) (a b : nat), gequiv g g' -> moral_adj g a b = moral_adj g' a b.
Proof. exact Equiv_C12.moral_adj_gequiv. Qed.
Print Assumptions model_order_free_c12_moral_adj.

Theorem model_equivariant_c12_moral_graph :
  forall f : nat -> nat,
  injective f -> forall g : mgraph, gequiv (moral_graph (rmap f g)) (rmap f (moral_graph g)).
Proof. exact Equiv_C12.moral_graph_rmap. Qed.
Print Assumptions model_equivariant_c12_moral_graph.

Theorem model_order_free_c12_moral_graph :
  forall g g' : mgraph, gequiv g g' -> gequiv (moral_graph g) (moral_graph g').
Proof. exact Equiv_C12.moral_graph_gequiv. Qed.
Print Assumptions model_order_free_c12_moral_graph.

Theorem model_equivariant_c12_moral_sep :
  forall f : nat -> nat,
  injective f ->
  forall (g : mgraph) (X Y Z : list nat), moral_sep (rmap f g) (map f X) (map f Y) (map f Z) = moral_sep g X Y Z.
Proof. exact Equiv_C12.moral_sep_rmap. Qed.
Print Assumptions model_equivariant_c12_moral_sep.

Theorem model_order_free_c12_moral_sep :
  forall (g g' : mgraph) (X X' Y Y' Z Z' : list nat),
  gequiv g g' ->
  (forall a : nat, In a X <-> In a X') ->
  (forall a : nat, In a Y <-> In a Y') ->
  (forall a : nat, In a Z <-> In a Z') ->
  incl X (V g) -> incl Y (V g) -> incl Z (V g) -> moral_sep g X Y Z = moral_sep g' X' Y' Z'.
Proof. exact Equiv_C12.moral_sep_gequiv. Qed.
Print Assumptions model_order_free_c12_moral_sep.

Theorem spec_equivariant_c12_in_domain :
  forall f : nat -> nat, injective f -> forall g : mgraph, in_domain (rmap f g) <-> in_domain g.
Proof. exact Equiv_C12.in_domain_rmap. Qed.
Print Assumptions spec_equivariant_c12_in_domain.

Theorem spec_equivariant_c12_criterion :
  forall f : nat -> nat,
  injective f ->
  forall (g : mgraph) (X Y Z : list nat),
  Equiv_C12.criterion_holds (rmap f g) (map f X) (map f Y) (map f Z) <-> Equiv_C12.criterion_holds g X Y Z.
Proof. exact Equiv_C12.criterion_rmap. Qed.
Print Assumptions spec_equivariant_c12_criterion.

Theorem model_equivariant_c12_moral_adjacency :
  forall f : nat -> nat,
  injective f ->
  forall (g : mgraph) (a b : nat),
  wf g ->
  a <> b ->
  In a (V g) ->
  In b (V g) -> moral_adj (rmap f g) (f a) (f b) = true <-> skel_adj g a b = true \/ collider_connected g a b.
Proof. exact Equiv_C12.moral_adjacency_renamed. Qed.
Print Assumptions model_equivariant_c12_moral_adjacency.


(* ---- C10: canonical DAG ---- *)
Theorem spec_equivariant_c10_is_admg :
  forall f : nat -> nat, injective f -> forall g : mgraph, C10.Spec.is_admg (rmap f g) <-> C10.Spec.is_admg g.
Proof. exact Equiv_C10.is_admg_rmap. Qed.
Print Assumptions spec_equivariant_c10_is_admg.

Theorem spec_order_free_c10_is_admg :
  forall g g' : mgraph, gequiv g g' -> C10.Spec.is_admg g <-> C10.Spec.is_admg g'.
Proof. exact Equiv_C10.is_admg_gequiv. Qed.
Print Assumptions spec_order_free_c10_is_admg.

Theorem model_equivariant_c10_canon_sep :
  forall f : nat -> nat,
  injective f ->
  forall (g : mgraph) (fresh fresh' : nat -> nat) (X Y Z : list nat),
  wf g ->
  U g = nil ->
  fresh_ok g fresh ->
  fresh_ok (rmap f g) fresh' ->
  incl X (V g) ->
  incl Y (V g) ->
  incl Z (V g) ->
  msep (canon_model (rmap f g) fresh') (map f X) (map f Y) (map f Z) <-> msep (canon_model g fresh) X Y Z.
Proof. exact Equiv_C10.canon_sep_rmap. Qed.
Print Assumptions model_equivariant_c10_canon_sep.

Theorem model_order_free_c10_canon_sep :
  forall (g g' : mgraph) (fresh fresh' : nat -> nat) (X X' Y Y' Z Z' : list nat),
  gequiv g g' ->
  wf g ->
  U g = nil ->
  fresh_ok g fresh ->
  fresh_ok g' fresh' ->
  incl X (V g) ->
  incl Y (V g) ->
  incl Z (V g) ->
  (forall a : nat, In a X <-> In a X') ->
  (forall a : nat, In a Y <-> In a Y') ->
  (forall a : nat, In a Z <-> In a Z') ->
  msep (canon_model g fresh) X Y Z <-> msep (canon_model g' fresh') X' Y' Z'.
Proof. exact Equiv_C10.canon_sep_gequiv. Qed.
Print Assumptions model_order_free_c10_canon_sep.

Theorem model_equivariant_c10_canon_model :
  forall (F : nat -> nat) (g : mgraph) (fresh : nat -> nat),
  injective F ->
  fresh_ok g fresh ->
  exists fresh2 : nat -> nat,
    fresh_ok (rmap F g) fresh2 /\ gequiv (canon_model (rmap F g) fresh2) (rmap F (canon_model g fresh)).
Proof. exact Equiv_C10s.canon_model_rmap. Qed.
Print Assumptions model_equivariant_c10_canon_model.

Theorem spec_equivariant_c10_canon_structure :
  forall (F : nat -> nat) (g : mgraph) (fresh : nat -> nat),
  injective F ->
  wf g ->
  fresh_ok g fresh ->
  exists fresh2 : nat -> nat,
    fresh_ok (rmap F g) fresh2 /\ canon_structure_of (rmap F g) fresh2 (rmap F (canon_model g fresh)).
Proof. exact Equiv_C10s.canon_structure_rmap. Qed.
Print Assumptions spec_equivariant_c10_canon_structure.

Theorem spec_order_free_c10_canon_structure :
  forall (g : mgraph) (fresh : nat -> nat) (c c' : mgraph),
  gequiv c c' -> canon_structure_of g fresh c -> canon_structure_of g fresh c'.
Proof. exact Equiv_C10s.canon_structure_of_gequiv. Qed.
Print Assumptions spec_order_free_c10_canon_structure.


(* ---- C04 / C05 (vocabulary of C04/Dag.v, shared with C08 / C09) ---- *)
Theorem spec_equivariant_c04_Padj :
  forall f : nat -> nat,
  injective f -> forall (g : mgraph) (a b : nat), Padj (rmap f g) (f a) (f b) <-> Padj g a b.
Proof. exact Equiv_C0405.Padj_rmap. Qed.
Print Assumptions spec_equivariant_c04_Padj.

Theorem spec_equivariant_c04_Vstr :
  forall f : nat -> nat,
  injective f -> forall (g : mgraph) (a c b : nat), Vstr (rmap f g) (f a) (f c) (f b) <-> Vstr g a c b.
Proof. exact Equiv_C0405.Vstr_rmap. Qed.
Print Assumptions spec_equivariant_c04_Vstr.

Theorem spec_equivariant_c04_acyclic :
  forall f : nat -> nat, injective f -> forall g : mgraph, Dag.acyclic (rmap f g) <-> Dag.acyclic g.
Proof. exact Equiv_C0405.dag_acyclic_rmap. Qed.
Print Assumptions spec_equivariant_c04_acyclic.

Theorem spec_equivariant_c04_is_dag :
  forall f : nat -> nat, injective f -> forall g : mgraph, Dag.is_dag (rmap f g) <-> Dag.is_dag g.
Proof. exact Equiv_C0405.is_dag_rmap. Qed.
Print Assumptions spec_equivariant_c04_is_dag.

Theorem spec_equivariant_c04_meq :
  forall f : nat -> nat, injective f -> forall d1 d2 : mgraph, meq (rmap f d1) (rmap f d2) <-> meq d1 d2.
Proof. exact Equiv_C0405.meq_rmap. Qed.
Print Assumptions spec_equivariant_c04_meq.

Theorem spec_equivariant_c04_essential :
  forall f : nat -> nat,
  injective f -> forall (d : mgraph) (a b : nat), essential (rmap f d) (f a) (f b) <-> essential d a b.
Proof. exact Equiv_C0405.essential_rmap. Qed.
Print Assumptions spec_equivariant_c04_essential.

Theorem spec_equivariant_c05_wf_pdag :
  forall f : nat -> nat, injective f -> forall p : mgraph, wf_pdag (rmap f p) <-> wf_pdag p.
Proof. exact Equiv_C0405.wf_pdag_rmap. Qed.
Print Assumptions spec_equivariant_c05_wf_pdag.

Theorem spec_equivariant_c05_consistent_ext :
  forall f : nat -> nat,
  injective f -> forall p d : mgraph, Dag.consistent_ext (rmap f p) (rmap f d) <-> Dag.consistent_ext p d.
Proof. exact Equiv_C0405.consistent_ext_rmap. Qed.
Print Assumptions spec_equivariant_c05_consistent_ext.

Theorem spec_equivariant_c05_extendable :
  forall f : nat -> nat,
  injective f ->
  forall p : mgraph,
  (exists d' : mgraph, Dag.consistent_ext (rmap f p) d') <-> (exists d : mgraph, Dag.consistent_ext p d).
Proof. exact Equiv_C0405.extendable_rmap. Qed.
Print Assumptions spec_equivariant_c05_extendable.

Theorem spec_order_free_c04_Padj :
  forall (g g' : mgraph) (a b : nat), gequiv g g' -> Padj g a b <-> Padj g' a b.
Proof. exact Equiv_C0405.Padj_gequiv. Qed.
Print Assumptions spec_order_free_c04_Padj.

Theorem spec_order_free_c04_Vstr :
  forall (g g' : mgraph) (a c b : nat), gequiv g g' -> Vstr g a c b <-> Vstr g' a c b.
Proof. exact Equiv_C0405.Vstr_gequiv. Qed.
Print Assumptions spec_order_free_c04_Vstr.

Theorem spec_order_free_c04_acyclic :
  forall g g' : mgraph, gequiv g g' -> Dag.acyclic g <-> Dag.acyclic g'.
Proof. exact Equiv_C0405.dag_acyclic_gequiv. Qed.
Print Assumptions spec_order_free_c04_acyclic.

Theorem spec_order_free_c04_is_dag :
  forall g g' : mgraph, gequiv g g' -> Dag.is_dag g <-> Dag.is_dag g'.
Proof. exact Equiv_C0405.is_dag_gequiv. Qed.
Print Assumptions spec_order_free_c04_is_dag.

Theorem spec_order_free_c04_meq :
  forall d1 d1' d2 d2' : mgraph, gequiv d1 d1' -> gequiv d2 d2' -> meq d1 d2 <-> meq d1' d2'.
Proof. exact Equiv_C0405.meq_gequiv. Qed.
Print Assumptions spec_order_free_c04_meq.

Theorem spec_order_free_c04_essential :
  forall (d d' : mgraph) (a b : nat), gequiv d d' -> essential d a b <-> essential d' a b.
Proof. exact Equiv_C0405.essential_gequiv. Qed.
Print Assumptions spec_order_free_c04_essential.

Theorem spec_order_free_c05_wf_pdag :
  forall p p' : mgraph, gequiv p p' -> wf_pdag p <-> wf_pdag p'.
Proof. exact Equiv_C0405.wf_pdag_gequiv. Qed.
Print Assumptions spec_order_free_c05_wf_pdag.

Theorem spec_order_free_c05_consistent_ext :
  forall p p' d d' : mgraph, gequiv p p' -> gequiv d d' -> Dag.consistent_ext p d <-> Dag.consistent_ext p' d'.
Proof. exact Equiv_C0405.consistent_ext_gequiv. Qed.
Print Assumptions spec_order_free_c05_consistent_ext.

Theorem spec_order_free_c05_extendable :
  forall p p' : mgraph,
  gequiv p p' -> (exists d : mgraph, Dag.consistent_ext p d) <-> (exists d : mgraph, Dag.consistent_ext p' d).
Proof. exact Equiv_C0405.extendable_gequiv. Qed.
Print Assumptions spec_order_free_c05_extendable.

Theorem model_equivariant_c05_pdag_none :
  forall f : nat -> nat,
  injective f -> forall p : mgraph, wf_pdag p -> pdag_model (rmap f p) = None <-> pdag_model p = None.
Proof. exact Equiv_C0405.pdag_model_rmap_none. Qed.
Print Assumptions model_equivariant_c05_pdag_none.

Theorem model_equivariant_c05_pdag_some :
  forall f : nat -> nat,
  injective f ->
  forall p d' : mgraph,
  wf_pdag p ->
  pdag_model (rmap f p) = Some d' ->
  exists d0 d : mgraph,
    d' = rmap f d0 /\ Dag.consistent_ext p d0 /\ pdag_model p = Some d /\ Dag.consistent_ext p d.
Proof. exact Equiv_C0405.pdag_model_rmap_some. Qed.
Print Assumptions model_equivariant_c05_pdag_some.

Theorem model_order_free_c05_pdag_none :
  forall p p' : mgraph, gequiv p p' -> wf_pdag p -> pdag_model p = None <-> pdag_model p' = None.
Proof. exact Equiv_C0405.pdag_model_gequiv_none. Qed.
Print Assumptions model_order_free_c05_pdag_none.


(* ---- C06: inducing paths, dag_to_mag ---- *)
Theorem spec_equivariant_c06_inducing_path :
  forall f : nat -> nat,
  injective f ->
  forall (g : mgraph) (L S : list nat) (x : nat) (p : spath) (y : nat),
  inducing_path_def (rmap f g) (map f L) (map f S) (f x) (mp f p) (f y) <-> inducing_path_def g L S x p y.
Proof. exact Equiv_C06.inducing_path_def_rmap. Qed.
Print Assumptions spec_equivariant_c06_inducing_path.

Theorem spec_equivariant_c06_inducing_path_ex :
  forall f : nat -> nat,
  injective f ->
  forall (g : mgraph) (L S : list nat) (x y : nat),
  (exists p' : spath, inducing_path_def (rmap f g) (map f L) (map f S) (f x) p' (f y)) <->
  (exists p : spath, inducing_path_def g L S x p y).
Proof. exact Equiv_C06.inducing_path_ex_rmap. Qed.
Print Assumptions spec_equivariant_c06_inducing_path_ex.

Theorem spec_order_free_c06_inducing_path :
  forall (g g' : mgraph) (L L' S S' : list nat) (x : nat) (p : spath) (y : nat),
  gequiv g g' ->
  (forall a : nat, In a L <-> In a L') ->
  (forall a : nat, In a S <-> In a S') -> inducing_path_def g L S x p y <-> inducing_path_def g' L' S' x p y.
Proof. exact Equiv_C06.inducing_path_def_order_free. Qed.
Print Assumptions spec_order_free_c06_inducing_path.

Theorem spec_order_free_c06_inducing_path_ex :
  forall (g g' : mgraph) (L L' S S' : list nat) (x y : nat),
  gequiv g g' ->
  (forall a : nat, In a L <-> In a L') ->
  (forall a : nat, In a S <-> In a S') ->
  (exists p : spath, inducing_path_def g L S x p y) <-> (exists p : spath, inducing_path_def g' L' S' x p y).
Proof. exact Equiv_C06.inducing_path_ex_order_free. Qed.
Print Assumptions spec_order_free_c06_inducing_path_ex.

Theorem spec_equivariant_c06_is_dag :
  forall f : nat -> nat, injective f -> forall d : mgraph, is_dag (rmap f d) <-> is_dag d.
Proof. exact Equiv_C06.c06_is_dag_rmap. Qed.
Print Assumptions spec_equivariant_c06_is_dag.

Theorem spec_order_free_c06_is_dag :
  forall d d' : mgraph, gequiv d d' -> is_dag d <-> is_dag d'.
Proof. exact Equiv_C06.c06_is_dag_order_free. Qed.
Print Assumptions spec_order_free_c06_is_dag.

Theorem spec_equivariant_c06_dsep :
  forall f : nat -> nat,
  injective f ->
  forall (d : mgraph) (X Y Z : list nat), dsep (rmap f d) (map f X) (map f Y) (map f Z) <-> dsep d X Y Z.
Proof. exact Equiv_C06.dsep_rmap. Qed.
Print Assumptions spec_equivariant_c06_dsep.

Theorem spec_order_free_c06_dsep :
  forall (d d' : mgraph) (X X' Y Y' Z Z' : list nat),
  gequiv d d' ->
  (forall a : nat, In a X <-> In a X') ->
  (forall a : nat, In a Y <-> In a Y') ->
  (forall a : nat, In a Z <-> In a Z') -> dsep d X Y Z <-> dsep d' X' Y' Z'.
Proof. exact Equiv_C06.dsep_order_free. Qed.
Print Assumptions spec_order_free_c06_dsep.

Theorem spec_equivariant_c06_adj_sep_free :
  forall f : nat -> nat,
  injective f ->
  forall (d : mgraph) (L S : list nat) (x y : nat),
  Equiv_C06.adj_sep_free (rmap f d) (map f L) (map f S) (f x) (f y) <-> Equiv_C06.adj_sep_free d L S x y.
Proof. exact Equiv_C06.adj_sep_free_rmap. Qed.
Print Assumptions spec_equivariant_c06_adj_sep_free.

Theorem spec_order_free_c06_adj_sep_free :
  forall (d d' : mgraph) (L L' S S' : list nat) (x y : nat),
  gequiv d d' ->
  (forall a : nat, In a L <-> In a L') ->
  (forall a : nat, In a S <-> In a S') ->
  Equiv_C06.adj_sep_free d L S x y <-> Equiv_C06.adj_sep_free d' L' S' x y.
Proof. exact Equiv_C06.adj_sep_free_order_free. Qed.
Print Assumptions spec_order_free_c06_adj_sep_free.

Theorem spec_equivariant_c06_dsep_given :
  forall f : nat -> nat,
  injective f ->
  forall (d : mgraph) (S : list nat) (x y : nat) (Z : list nat),
  Equiv_C06.dsep_given (rmap f d) (map f S) (f x) (f y) (map f Z) <-> Equiv_C06.dsep_given d S x y Z.
Proof. exact Equiv_C06.dsep_given_rmap. Qed.
Print Assumptions spec_equivariant_c06_dsep_given.

Theorem spec_order_free_c06_dsep_given :
  forall (d d' : mgraph) (S S' : list nat) (x y : nat) (Z Z' : list nat),
  gequiv d d' ->
  (forall a : nat, In a S <-> In a S') ->
  (forall a : nat, In a Z <-> In a Z') -> Equiv_C06.dsep_given d S x y Z <-> Equiv_C06.dsep_given d' S' x y Z'.
Proof. exact Equiv_C06.dsep_given_order_free. Qed.
Print Assumptions spec_order_free_c06_dsep_given.

Theorem spec_equivariant_c06_mag_adjacency_stmt :
  forall f : nat -> nat,
  injective f ->
  forall (d : mgraph) (L S : list nat),
  mag_adjacency_stmt (rmap f d) (map f L) (map f S) <-> mag_adjacency_stmt d L S.
Proof. exact Equiv_C06.mag_adjacency_stmt_rmap. Qed.
Print Assumptions spec_equivariant_c06_mag_adjacency_stmt.

Theorem spec_equivariant_c06_mag_independence_stmt :
  forall f : nat -> nat,
  injective f ->
  forall (d : mgraph) (L S : list nat),
  mag_independence_stmt (rmap f d) (map f L) (map f S) <-> mag_independence_stmt d L S.
Proof. exact Equiv_C06.mag_independence_stmt_rmap. Qed.
Print Assumptions spec_equivariant_c06_mag_independence_stmt.

Theorem model_equivariant_c06_inducing_fst :
  forall (f : nat -> nat) (g : mgraph) (x y : nat) (L S : list nat),
  injective f ->
  incl (x :: y :: S) (V g) ->
  fst (inducing_model (rmap f g) (f x) (f y) (map f L) (map f S)) = fst (inducing_model g x y L S).
Proof. exact Equiv_C06.inducing_model_fst_rmap. Qed.
Print Assumptions model_equivariant_c06_inducing_fst.

Theorem model_order_free_c06_inducing_fst :
  forall (g g' : mgraph) (x y : nat) (L L' S S' : list nat),
  gequiv g g' ->
  (forall a : nat, In a L <-> In a L') ->
  (forall a : nat, In a S <-> In a S') ->
  incl (x :: y :: S) (V g) -> fst (inducing_model g x y L S) = fst (inducing_model g' x y L' S').
Proof. exact Equiv_C06.inducing_model_fst_order_free. Qed.
Print Assumptions model_order_free_c06_inducing_fst.

Theorem model_equivariant_c06_inducing_model :
  forall f : nat -> nat,
  injective f ->
  forall (g : mgraph) (x y : nat) (L S : list nat),
  inducing_model (rmap f g) (f x) (f y) (map f L) (map f S) =
  (fst (inducing_model g x y L S), map f (snd (inducing_model g x y L S))).
Proof. exact Equiv_C06.inducing_model_rmap. Qed.
Print Assumptions model_equivariant_c06_inducing_model.

Theorem model_equivariant_c06_dag_to_mag :
  forall f : nat -> nat,
  injective f ->
  forall (d : mgraph) (L S : list nat),
  dag_to_mag_model (rmap f d) (map f L) (map f S) = rmap f (dag_to_mag_model d L S).
Proof. exact Equiv_C06.dag_to_mag_model_rmap. Qed.
Print Assumptions model_equivariant_c06_dag_to_mag.


(* ---- C07: MAG definition clauses ---- *)
Theorem spec_equivariant_c07_dpath_plus :
  forall f : nat -> nat,
  injective f -> forall (g : mgraph) (a b : nat), dpath_plus (rmap f g) (f a) (f b) <-> dpath_plus g a b.
Proof. exact Equiv_C07.dpath_plus_rmap. Qed.
Print Assumptions spec_equivariant_c07_dpath_plus.

Theorem spec_equivariant_c07_no_bow :
  forall f : nat -> nat, injective f -> forall g : mgraph, no_bow_p (rmap f g) <-> no_bow_p g.
Proof. exact Equiv_C07.no_bow_p_rmap. Qed.
Print Assumptions spec_equivariant_c07_no_bow.

Theorem spec_equivariant_c07_acyclic :
  forall f : nat -> nat, injective f -> forall g : mgraph, acyclic_p (rmap f g) <-> acyclic_p g.
Proof. exact Equiv_C07.acyclic_p_rmap. Qed.
Print Assumptions spec_equivariant_c07_acyclic.

Theorem spec_equivariant_c07_ancestral_bi :
  forall f : nat -> nat, injective f -> forall g : mgraph, ancestral_bi_p (rmap f g) <-> ancestral_bi_p g.
Proof. exact Equiv_C07.ancestral_bi_p_rmap. Qed.
Print Assumptions spec_equivariant_c07_ancestral_bi.

Theorem spec_equivariant_c07_maximal :
  forall f : nat -> nat, injective f -> forall g : mgraph, maximal_p (rmap f g) <-> maximal_p g.
Proof. exact Equiv_C07.maximal_p_rmap. Qed.
Print Assumptions spec_equivariant_c07_maximal.

Theorem spec_equivariant_c07_is_admg :
  forall f : nat -> nat, injective f -> forall g : mgraph, is_admg (rmap f g) <-> is_admg g.
Proof. exact Equiv_C07.c07_is_admg_rmap. Qed.
Print Assumptions spec_equivariant_c07_is_admg.

Theorem spec_order_free_c07_dpath_plus :
  forall (g g' : mgraph) (a b : nat), gequiv g g' -> dpath_plus g a b <-> dpath_plus g' a b.
Proof. exact Equiv_C07.dpath_plus_order_free. Qed.
Print Assumptions spec_order_free_c07_dpath_plus.

Theorem spec_order_free_c07_no_bow :
  forall g g' : mgraph, gequiv g g' -> no_bow_p g <-> no_bow_p g'.
Proof. exact Equiv_C07.no_bow_p_order_free. Qed.
Print Assumptions spec_order_free_c07_no_bow.

Theorem spec_order_free_c07_acyclic :
  forall g g' : mgraph, gequiv g g' -> acyclic_p g <-> acyclic_p g'.
Proof. exact Equiv_C07.acyclic_p_order_free. Qed.
Print Assumptions spec_order_free_c07_acyclic.

Theorem spec_order_free_c07_ancestral_bi :
  forall g g' : mgraph, gequiv g g' -> ancestral_bi_p g <-> ancestral_bi_p g'.
Proof. exact Equiv_C07.ancestral_bi_p_order_free. Qed.
Print Assumptions spec_order_free_c07_ancestral_bi.

Theorem spec_order_free_c07_maximal :
  forall g g' : mgraph, gequiv g g' -> maximal_p g <-> maximal_p g'.
Proof. exact Equiv_C07.maximal_p_order_free. Qed.
Print Assumptions spec_order_free_c07_maximal.

Theorem spec_order_free_c07_is_admg :
  forall g g' : mgraph, gequiv g g' -> NoDup (V g) <-> NoDup (V g') -> is_admg g <-> is_admg g'.
Proof. exact Equiv_C07.c07_is_admg_order_free. Qed.
Print Assumptions spec_order_free_c07_is_admg.

Theorem model_equivariant_c07_is_maximal :
  forall f : nat -> nat, injective f -> forall g : mgraph, is_maximal_model (rmap f g) = is_maximal_model g.
Proof. exact Equiv_C07.is_maximal_model_rmap. Qed.
Print Assumptions model_equivariant_c07_is_maximal.

Theorem model_equivariant_c07_has_adc :
  forall f : nat -> nat, injective f -> forall g : mgraph, has_adc_model (rmap f g) = has_adc_model g.
Proof. exact Equiv_C07.has_adc_model_rmap. Qed.
Print Assumptions model_equivariant_c07_has_adc.

Theorem model_equivariant_c07_valid_mag :
  forall f : nat -> nat, injective f -> forall g : mgraph, valid_mag_model (rmap f g) = valid_mag_model g.
Proof. exact Equiv_C07.valid_mag_model_rmap. Qed.
Print Assumptions model_equivariant_c07_valid_mag.

Theorem model_order_free_c07_is_maximal :
  forall g g' : mgraph, gequiv g g' -> is_maximal_model g = is_maximal_model g'.
Proof. exact Equiv_C07.is_maximal_model_order_free. Qed.
Print Assumptions model_order_free_c07_is_maximal.

Theorem model_order_free_c07_valid_mag :
  forall g g' : mgraph, gequiv g g' -> wf g -> valid_mag_model g = valid_mag_model g'.
Proof. exact Equiv_C07.valid_mag_model_order_free. Qed.
Print Assumptions model_order_free_c07_valid_mag.


(* ---- C16: semi-directed paths, possible descendants / ancestors ---- *)
Theorem spec_equivariant_c16_semi_edge :
  forall f : nat -> nat,
  injective f -> forall (g : mgraph) (u v : nat), semi_edge (rmap f g) (f u) (f v) <-> semi_edge g u v.
Proof. exact Equiv_C16.semi_edge_rmap. Qed.
Print Assumptions spec_equivariant_c16_semi_edge.

Theorem spec_equivariant_c16_semi_path :
  forall f : nat -> nat,
  injective f -> forall (g : mgraph) (p : list nat), semi_path (rmap f g) (map f p) <-> semi_path g p.
Proof. exact Equiv_C16.semi_path_rmap. Qed.
Print Assumptions spec_equivariant_c16_semi_path.

Theorem spec_equivariant_c16_semi_target_path :
  forall f : nat -> nat,
  injective f ->
  forall (g : mgraph) (s : nat) (T : list nat) (k : nat) (p : list nat),
  semi_target_path (rmap f g) (f s) (map f T) k (map f p) <-> semi_target_path g s T k p.
Proof. exact Equiv_C16.semi_target_path_rmap. Qed.
Print Assumptions spec_equivariant_c16_semi_target_path.

Theorem spec_equivariant_c16_no_lone_circle :
  forall f : nat -> nat, injective f -> forall g : mgraph, no_lone_circle (rmap f g) <-> no_lone_circle g.
Proof. exact Equiv_C16.no_lone_circle_rmap. Qed.
Print Assumptions spec_equivariant_c16_no_lone_circle.

Theorem spec_equivariant_c16_semi_reach :
  forall f : nat -> nat,
  injective f ->
  forall (g : mgraph) (s v : nat),
  (exists p' : list nat, semi_path (rmap f g) p' /\ hd_error p' = Some (f s) /\ last p' (f s) = f v) <->
  (exists p : list nat, semi_path g p /\ hd_error p = Some s /\ last p s = v).
Proof. exact Equiv_C16.semi_reach_rmap. Qed.
Print Assumptions spec_equivariant_c16_semi_reach.

Theorem spec_order_free_c16_semi_edge :
  forall (g g' : mgraph) (u v : nat), gequiv g g' -> semi_edge g u v <-> semi_edge g' u v.
Proof. exact Equiv_C16.semi_edge_gequiv. Qed.
Print Assumptions spec_order_free_c16_semi_edge.

Theorem spec_order_free_c16_semi_path :
  forall (g g' : mgraph) (p : list nat), gequiv g g' -> semi_path g p <-> semi_path g' p.
Proof. exact Equiv_C16.semi_path_gequiv. Qed.
Print Assumptions spec_order_free_c16_semi_path.

Theorem spec_order_free_c16_semi_target_path :
  forall (g g' : mgraph) (s : nat) (T T' : list nat) (k : nat) (p : list nat),
  gequiv g g' ->
  (forall a : nat, In a T <-> In a T') -> semi_target_path g s T k p <-> semi_target_path g' s T' k p.
Proof. exact Equiv_C16.semi_target_path_gequiv. Qed.
Print Assumptions spec_order_free_c16_semi_target_path.

Theorem spec_order_free_c16_no_lone_circle :
  forall g g' : mgraph, gequiv g g' -> no_lone_circle g <-> no_lone_circle g'.
Proof. exact Equiv_C16.no_lone_circle_gequiv. Qed.
Print Assumptions spec_order_free_c16_no_lone_circle.

Theorem spec_order_free_c16_semi_reach :
  forall (g g' : mgraph) (s v : nat),
  gequiv g g' ->
  (exists p : list nat, semi_path g p /\ hd_error p = Some s /\ last p s = v) <->
  (exists p : list nat, semi_path g' p /\ hd_error p = Some s /\ last p s = v).
Proof. exact Equiv_C16.semi_reach_gequiv. Qed.
Print Assumptions spec_order_free_c16_semi_reach.

Theorem model_equivariant_c16_is_semi :
  forall f : nat -> nat,
  injective f -> forall (g : mgraph) (p : list nat), is_semi_model (rmap f g) (map f p) = is_semi_model g p.
Proof. exact Equiv_C16.is_semi_model_rmap. Qed.
Print Assumptions model_equivariant_c16_is_semi.

Theorem model_equivariant_c16_semi_enum :
  forall f : nat -> nat,
  injective f ->
  forall (g : mgraph) (s : nat) (T : list nat) (k : nat) (p : list nat),
  In s (V g) -> In (map f p) (semi_enum (rmap f g) (f s) (map f T) k) <-> In p (semi_enum g s T k).
Proof. exact Equiv_C16.semi_enum_rmap. Qed.
Print Assumptions model_equivariant_c16_semi_enum.

Theorem model_equivariant_c16_semi_enum_ex :
  forall f : nat -> nat,
  injective f ->
  forall (g : mgraph) (s : nat) (T : list nat) (k : nat) (p' : list nat),
  In s (V g) ->
  In p' (semi_enum (rmap f g) (f s) (map f T) k) ->
  exists p : list nat, p' = map f p /\ In p (semi_enum g s T k).
Proof. exact Equiv_C16.semi_enum_rmap_ex. Qed.
Print Assumptions model_equivariant_c16_semi_enum_ex.

Theorem model_equivariant_c16_poss_desc :
  forall f : nat -> nat,
  injective f -> forall (g : mgraph) (s : nat), poss_desc (rmap f g) (f s) = map f (poss_desc g s).
Proof. exact Equiv_C16.poss_desc_rmap_eq. Qed.
Print Assumptions model_equivariant_c16_poss_desc.

Theorem model_equivariant_c16_poss_anc :
  forall f : nat -> nat,
  injective f -> forall (g : mgraph) (s : nat), poss_anc (rmap f g) (f s) = map f (poss_anc g s).
Proof. exact Equiv_C16.poss_anc_rmap_eq. Qed.
Print Assumptions model_equivariant_c16_poss_anc.

Theorem model_order_free_c16_is_semi :
  forall (g g' : mgraph) (p : list nat), gequiv g g' -> is_semi_model g p = is_semi_model g' p.
Proof. exact Equiv_C16.is_semi_model_gequiv. Qed.
Print Assumptions model_order_free_c16_is_semi.

Theorem model_order_free_c16_semi_enum :
  forall (g g' : mgraph) (s : nat) (T T' : list nat) (k : nat) (p : list nat),
  gequiv g g' ->
  (forall a : nat, In a T <-> In a T') -> In s (V g) -> In p (semi_enum g s T k) <-> In p (semi_enum g' s T' k).
Proof. exact Equiv_C16.semi_enum_gequiv. Qed.
Print Assumptions model_order_free_c16_semi_enum.

Theorem model_order_free_c16_semi_enum_NoDup :
  forall (g g' : mgraph) (s : nat) (T T' : list nat) (k : nat),
  gequiv g g' ->
  (forall a : nat, In a T <-> In a T') ->
  In s (V g) ->
  NoDup (V g) ->
  NoDup (V g') ->
  NoDup (semi_enum g s T k) /\
  NoDup (semi_enum g' s T' k) /\ (forall p : list nat, In p (semi_enum g s T k) <-> In p (semi_enum g' s T' k)).
Proof. exact Equiv_C16.semi_enum_gequiv_NoDup. Qed.
Print Assumptions model_order_free_c16_semi_enum_NoDup.

Theorem model_order_free_c16_poss_desc :
  forall (g g' : mgraph) (s v : nat),
  gequiv g g' -> In s (V g) -> In v (poss_desc g s) <-> In v (poss_desc g' s).
Proof. exact Equiv_C16.poss_desc_gequiv. Qed.
Print Assumptions model_order_free_c16_poss_desc.

Theorem model_order_free_c16_poss_anc :
  forall (g g' : mgraph) (s v : nat), gequiv g g' -> In s (V g) -> In v (poss_anc g s) <-> In v (poss_anc g' s).
Proof. exact Equiv_C16.poss_anc_gequiv. Qed.
Print Assumptions model_order_free_c16_poss_anc.


(* ---- C17: possibly-d-sep sets (both readings), guards, blocks ---- *)
Theorem spec_equivariant_c17_pds_def_path :
  forall f : nat -> nat,
  injective f ->
  forall (g : mgraph) (x : nat) (yo : option nat) (v : nat),
  pds_def_path (rmap f g) (f x) (option_map f yo) (f v) <-> pds_def_path g x yo v.
Proof. exact Equiv_C17.pds_def_path_rmap. Qed.
Print Assumptions spec_equivariant_c17_pds_def_path.

Theorem spec_equivariant_c17_pds_def_walk :
  forall f : nat -> nat,
  injective f ->
  forall (g : mgraph) (x : nat) (yo : option nat) (v : nat),
  pds_def_walk (rmap f g) (f x) (option_map f yo) (f v) <-> pds_def_walk g x yo v.
Proof. exact Equiv_C17.pds_def_walk_rmap. Qed.
Print Assumptions spec_equivariant_c17_pds_def_walk.

Theorem spec_equivariant_c17_walk_ok :
  forall f : nat -> nat,
  injective f ->
  forall (g : mgraph) (x : nat) (yo : option nat) (t : list nat),
  walk_ok (rmap f g) (f x) (option_map f yo) (map f t) <-> walk_ok g x yo t.
Proof. exact Equiv_C17.walk_ok_rmap. Qed.
Print Assumptions spec_equivariant_c17_walk_ok.

Theorem spec_equivariant_c17_connected :
  forall f : nat -> nat,
  injective f -> forall (g : mgraph) (x y : nat), connected (rmap f g) (f x) (f y) <-> connected g x y.
Proof. exact Equiv_C17.connected_rmap. Qed.
Print Assumptions spec_equivariant_c17_connected.

Theorem spec_equivariant_c17_guard_ok :
  forall f : nat -> nat,
  injective f ->
  forall (g : mgraph) (x : nat) (yo : option nat),
  guard_ok (rmap f g) (f x) (option_map f yo) <-> guard_ok g x yo.
Proof. exact Equiv_C17.guard_ok_rmap. Qed.
Print Assumptions spec_equivariant_c17_guard_ok.

Theorem spec_equivariant_c17_on_block :
  forall f : nat -> nat,
  injective f -> forall (g : mgraph) (x y v : nat), on_block (rmap f g) (f x) (f y) (f v) <-> on_block g x y v.
Proof. exact Equiv_C17.on_block_rmap. Qed.
Print Assumptions spec_equivariant_c17_on_block.

Theorem spec_equivariant_c17_pds_def_asis :
  forall f : nat -> nat,
  injective f ->
  forall (g : mgraph) (x : nat) (yo : option nat) (v : nat),
  pds_def_asis (rmap f g) (f x) (option_map f yo) (f v) <-> pds_def_asis g x yo v.
Proof. exact Equiv_C17.pds_def_asis_rmap. Qed.
Print Assumptions spec_equivariant_c17_pds_def_asis.

Theorem spec_order_free_c17_pds_def_path :
  forall (g g' : mgraph) (x : nat) (yo : option nat) (v : nat),
  gequiv g g' -> pds_def_path g x yo v <-> pds_def_path g' x yo v.
Proof. exact Equiv_C17.pds_def_path_gequiv. Qed.
Print Assumptions spec_order_free_c17_pds_def_path.

Theorem spec_order_free_c17_pds_def_walk :
  forall (g g' : mgraph) (x : nat) (yo : option nat) (v : nat),
  gequiv g g' -> pds_def_walk g x yo v <-> pds_def_walk g' x yo v.
Proof. exact Equiv_C17.pds_def_walk_gequiv. Qed.
Print Assumptions spec_order_free_c17_pds_def_walk.

Theorem spec_order_free_c17_walk_ok :
  forall (g g' : mgraph) (x : nat) (yo : option nat) (t : list nat),
  gequiv g g' -> walk_ok g x yo t <-> walk_ok g' x yo t.
Proof. exact Equiv_C17.walk_ok_gequiv. Qed.
Print Assumptions spec_order_free_c17_walk_ok.

Theorem spec_order_free_c17_connected :
  forall (g g' : mgraph) (x y : nat), gequiv g g' -> connected g x y <-> connected g' x y.
Proof. exact Equiv_C17.connected_gequiv. Qed.
Print Assumptions spec_order_free_c17_connected.

Theorem spec_order_free_c17_guard_ok :
  forall (g g' : mgraph) (x : nat) (yo : option nat), gequiv g g' -> guard_ok g x yo <-> guard_ok g' x yo.
Proof. exact Equiv_C17.guard_ok_gequiv. Qed.
Print Assumptions spec_order_free_c17_guard_ok.

Theorem spec_order_free_c17_on_block :
  forall (g g' : mgraph) (x y v : nat), gequiv g g' -> on_block g x y v <-> on_block g' x y v.
Proof. exact Equiv_C17.on_block_gequiv. Qed.
Print Assumptions spec_order_free_c17_on_block.

Theorem spec_order_free_c17_pds_def_asis :
  forall (g g' : mgraph) (x : nat) (yo : option nat) (v : nat),
  gequiv g g' -> pds_def_asis g x yo v <-> pds_def_asis g' x yo v.
Proof. exact Equiv_C17.pds_def_asis_gequiv. Qed.
Print Assumptions spec_order_free_c17_pds_def_asis.

Theorem model_equivariant_c17_conn :
  forall f : nat -> nat,
  injective f -> forall (g : mgraph) (x y : nat), conn (rmap f g) (f x) (f y) = conn g x y.
Proof. exact Equiv_C17.conn_rmap. Qed.
Print Assumptions model_equivariant_c17_conn.

Theorem model_equivariant_c17_pds_model :
  forall (f : nat -> nat) (g : mgraph) (x : nat) (yo : option nat) (v : nat),
  injective f ->
  In x (V g) -> In (f v) (pds_model (rmap f g) (f x) (option_map f yo)) <-> In v (pds_model g x yo).
Proof. exact Equiv_C17.pds_model_rmap. Qed.
Print Assumptions model_equivariant_c17_pds_model.

Theorem model_equivariant_c17_pds_model_ex :
  forall (f : nat -> nat) (g : mgraph) (x : nat) (yo : option nat) (v' : nat),
  injective f ->
  In x (V g) ->
  In v' (pds_model (rmap f g) (f x) (option_map f yo)) -> exists v : nat, v' = f v /\ In v (pds_model g x yo).
Proof. exact Equiv_C17.pds_model_rmap_ex. Qed.
Print Assumptions model_equivariant_c17_pds_model_ex.

Theorem model_order_free_c17_conn :
  forall (g g' : mgraph) (x y : nat), gequiv g g' -> In x (V g) -> conn g x y = conn g' x y.
Proof. exact Equiv_C17.conn_gequiv. Qed.
Print Assumptions model_order_free_c17_conn.

Theorem model_order_free_c17_pds_model :
  forall (g g' : mgraph) (x : nat) (yo : option nat) (v : nat),
  gequiv g g' -> In x (V g) -> In v (pds_model g x yo) <-> In v (pds_model g' x yo).
Proof. exact Equiv_C17.pds_model_gequiv. Qed.
Print Assumptions model_order_free_c17_pds_model.


(* ---- C18: uncovered potentially-directed paths, discriminating paths ---- *)
Theorem spec_equivariant_c18_pd_edge_def :
  forall f : nat -> nat,
  injective f ->
  forall (g : mgraph) (fc : bool) (a b : nat), pd_edge_def (rmap f g) fc (f a) (f b) <-> pd_edge_def g fc a b.
Proof. exact Equiv_C18.pd_edge_def_rmap. Qed.
Print Assumptions spec_equivariant_c18_pd_edge_def.

Theorem spec_equivariant_c18_updp_shape :
  forall f : nat -> nat,
  injective f ->
  forall (u c : nat) (o : uopts) (p : list nat),
  updp_shape (f u) (f c) (Equiv_C18.omap f o) (map f p) <-> updp_shape u c o p.
Proof. exact Equiv_C18.updp_shape_rmap. Qed.
Print Assumptions spec_equivariant_c18_updp_shape.

Theorem spec_equivariant_c18_updp_def :
  forall f : nat -> nat,
  injective f ->
  forall (g : mgraph) (u c : nat) (o : uopts) (p : list nat),
  updp_def (rmap f g) (f u) (f c) (Equiv_C18.omap f o) (map f p) <-> updp_def g u c o p.
Proof. exact Equiv_C18.updp_def_rmap. Qed.
Print Assumptions spec_equivariant_c18_updp_def.

Theorem spec_equivariant_c18_updp_exists :
  forall f : nat -> nat,
  injective f ->
  forall (g : mgraph) (u c : nat) (o : uopts),
  (exists p' : list nat, updp_def (rmap f g) (f u) (f c) (Equiv_C18.omap f o) p') <->
  (exists p : list nat, updp_def g u c o p).
Proof. exact Equiv_C18.updp_exists_rmap. Qed.
Print Assumptions spec_equivariant_c18_updp_exists.

Theorem spec_equivariant_c18_disc_def :
  forall f : nat -> nat,
  injective f ->
  forall par par' : nat -> bool,
  (forall a : nat, par' (f a) = par a) ->
  forall (g : mgraph) (u a c : nat) (p : list nat),
  disc_def (rmap f g) par' (f u) (f a) (f c) (map f p) <-> disc_def g par u a c p.
Proof. exact Equiv_C18.disc_def_rmap. Qed.
Print Assumptions spec_equivariant_c18_disc_def.

Theorem spec_equivariant_c18_disc_exists :
  forall f : nat -> nat,
  injective f ->
  forall par par' : nat -> bool,
  (forall a : nat, par' (f a) = par a) ->
  forall (g : mgraph) (u a c : nat),
  (exists p' : list nat, disc_def (rmap f g) par' (f u) (f a) (f c) p') <->
  (exists p : list nat, disc_def g par u a c p).
Proof. exact Equiv_C18.disc_exists_rmap. Qed.
Print Assumptions spec_equivariant_c18_disc_exists.

Theorem spec_equivariant_c18_par_of :
  forall f : nat -> nat,
  injective f ->
  forall (g : mgraph) (fc : bool) (a c q : nat), par_of (rmap f g) fc (f a) (f c) (f q) = par_of g fc a c q.
Proof. exact Equiv_C18.par_of_rmap. Qed.
Print Assumptions spec_equivariant_c18_par_of.

Theorem spec_equivariant_c18_disc_def_strict :
  forall f : nat -> nat,
  injective f ->
  forall (g : mgraph) (u a c : nat) (p : list nat),
  disc_def (rmap f g) (strict (rmap f g) (f a) (f c)) (f u) (f a) (f c) (map f p) <->
  disc_def g (strict g a c) u a c p.
Proof. exact Equiv_C18.disc_def_strict_rmap. Qed.
Print Assumptions spec_equivariant_c18_disc_def_strict.

Theorem spec_equivariant_c18_disc_exists_strict :
  forall f : nat -> nat,
  injective f ->
  forall (g : mgraph) (u a c : nat),
  (exists p' : list nat, disc_def (rmap f g) (strict (rmap f g) (f a) (f c)) (f u) (f a) (f c) p') <->
  (exists p : list nat, disc_def g (strict g a c) u a c p).
Proof. exact Equiv_C18.disc_exists_strict_rmap. Qed.
Print Assumptions spec_equivariant_c18_disc_exists_strict.

Theorem spec_order_free_c18_pd_edge_def :
  forall (g g' : mgraph) (fc : bool) (a b : nat), gequiv g g' -> pd_edge_def g fc a b <-> pd_edge_def g' fc a b.
Proof. exact Equiv_C18.pd_edge_def_gequiv. Qed.
Print Assumptions spec_order_free_c18_pd_edge_def.

Theorem spec_order_free_c18_updp_def :
  forall (g g' : mgraph) (u c : nat) (o : uopts) (p : list nat),
  gequiv g g' -> updp_def g u c o p <-> updp_def g' u c o p.
Proof. exact Equiv_C18.updp_def_gequiv. Qed.
Print Assumptions spec_order_free_c18_updp_def.

Theorem spec_order_free_c18_disc_def :
  forall (g g' : mgraph) (par par' : nat -> bool) (u a c : nat) (p : list nat),
  gequiv g g' -> (forall q : nat, par q = par' q) -> disc_def g par u a c p <-> disc_def g' par' u a c p.
Proof. exact Equiv_C18.disc_def_gequiv. Qed.
Print Assumptions spec_order_free_c18_disc_def.

Theorem spec_order_free_c18_disc_def_strict :
  forall (g g' : mgraph) (u a c : nat) (p : list nat),
  gequiv g g' -> disc_def g (strict g a c) u a c p <-> disc_def g' (strict g' a c) u a c p.
Proof. exact Equiv_C18.disc_def_strict_gequiv. Qed.
Print Assumptions spec_order_free_c18_disc_def_strict.

Theorem spec_order_free_c18_par_of :
  forall (g g' : mgraph) (fc : bool) (a c q : nat), gequiv g g' -> par_of g fc a c q = par_of g' fc a c q.
Proof. exact Equiv_C18.par_of_gequiv. Qed.
Print Assumptions spec_order_free_c18_par_of.

Theorem model_equivariant_c18_updp_paths :
  forall f : nat -> nat,
  injective f ->
  forall (g : mgraph) (u c : nat) (o : uopts) (p : list nat),
  In (map f p) (updp_paths (rmap f g) (f u) (f c) (Equiv_C18.omap f o)) <-> In p (updp_paths g u c o).
Proof. exact Equiv_C18.updp_paths_rmap. Qed.
Print Assumptions model_equivariant_c18_updp_paths.

Theorem model_equivariant_c18_spec_updp_dec :
  forall f : nat -> nat,
  injective f ->
  forall (g : mgraph) (u c : nat) (o : uopts),
  spec_updp_dec (rmap f g) (f u) (f c) (Equiv_C18.omap f o) = spec_updp_dec g u c o.
Proof. exact Equiv_C18.spec_updp_dec_rmap. Qed.
Print Assumptions model_equivariant_c18_spec_updp_dec.

Theorem model_equivariant_c18_disc_paths :
  forall f : nat -> nat,
  injective f ->
  forall par par' : nat -> bool,
  (forall a : nat, par' (f a) = par a) ->
  forall (g : mgraph) (u a c : nat) (p : list nat),
  In (map f p) (disc_paths (rmap f g) par' (f u) (f a) (f c)) <-> In p (disc_paths g par u a c).
Proof. exact Equiv_C18.disc_paths_rmap. Qed.
Print Assumptions model_equivariant_c18_disc_paths.

Theorem model_equivariant_c18_spec_disc_dec :
  forall f : nat -> nat,
  injective f ->
  forall par par' : nat -> bool,
  (forall a : nat, par' (f a) = par a) ->
  forall (g : mgraph) (u a c : nat), spec_disc_dec (rmap f g) par' (f u) (f a) (f c) = spec_disc_dec g par u a c.
Proof. exact Equiv_C18.spec_disc_dec_rmap. Qed.
Print Assumptions model_equivariant_c18_spec_disc_dec.

Theorem model_equivariant_c18_spec_disc_dec_strict :
  forall f : nat -> nat,
  injective f ->
  forall (g : mgraph) (u a c : nat),
  spec_disc_dec (rmap f g) (strict (rmap f g) (f a) (f c)) (f u) (f a) (f c) =
  spec_disc_dec g (strict g a c) u a c.
Proof. exact Equiv_C18.spec_disc_dec_strict_rmap. Qed.
Print Assumptions model_equivariant_c18_spec_disc_dec_strict.

Theorem model_order_free_c18_updp_paths :
  forall (g g' : mgraph) (u c : nat) (o : uopts) (p : list nat),
  gequiv g g' -> In p (updp_paths g u c o) <-> In p (updp_paths g' u c o).
Proof. exact Equiv_C18.updp_paths_gequiv. Qed.
Print Assumptions model_order_free_c18_updp_paths.

Theorem model_order_free_c18_spec_updp_dec :
  forall (g g' : mgraph) (u c : nat) (o : uopts), gequiv g g' -> spec_updp_dec g u c o = spec_updp_dec g' u c o.
Proof. exact Equiv_C18.spec_updp_dec_gequiv. Qed.
Print Assumptions model_order_free_c18_spec_updp_dec.

Theorem model_order_free_c18_disc_paths :
  forall (g g' : mgraph) (par par' : nat -> bool) (u a c : nat) (p : list nat),
  gequiv g g' ->
  (forall q : nat, par q = par' q) -> In p (disc_paths g par u a c) <-> In p (disc_paths g' par' u a c).
Proof. exact Equiv_C18.disc_paths_gequiv. Qed.
Print Assumptions model_order_free_c18_disc_paths.

Theorem model_order_free_c18_spec_disc_dec :
  forall (g g' : mgraph) (par par' : nat -> bool) (u a c : nat),
  gequiv g g' -> (forall q : nat, par q = par' q) -> spec_disc_dec g par u a c = spec_disc_dec g' par' u a c.
Proof. exact Equiv_C18.spec_disc_dec_gequiv. Qed.
Print Assumptions model_order_free_c18_spec_disc_dec.


(* ---- C19: sigma-separation, acyclification ---- *)
Theorem spec_equivariant_c19_same_scc :
  forall f : nat -> nat,
  injective f -> forall (g : mgraph) (a b : nat), same_scc (rmap f g) (f a) (f b) <-> same_scc g a b.
Proof. exact Equiv_C19.same_scc_rmap. Qed.
Print Assumptions spec_equivariant_c19_same_scc.

Theorem spec_order_free_c19_same_scc :
  forall (g g' : mgraph) (a b : nat), gequiv g g' -> same_scc g a b <-> same_scc g' a b.
Proof. exact Equiv_C19.same_scc_gequiv. Qed.
Print Assumptions spec_order_free_c19_same_scc.

Theorem spec_equivariant_c19_sigma_conn :
  forall f : nat -> nat,
  injective f ->
  forall (g : mgraph) (Z : list nat) (x : nat) (p : spath) (y : nat),
  sigma_conn (rmap f g) (map f Z) (f x) (mp f p) (f y) <-> sigma_conn g Z x p y.
Proof. exact Equiv_C19.sigma_conn_rmap. Qed.
Print Assumptions spec_equivariant_c19_sigma_conn.

Theorem spec_order_free_c19_sigma_conn :
  forall (g g' : mgraph) (Z Z' : list nat) (x : nat) (p : spath) (y : nat),
  gequiv g g' -> (forall a : nat, In a Z <-> In a Z') -> sigma_conn g Z x p y <-> sigma_conn g' Z' x p y.
Proof. exact Equiv_C19.sigma_conn_gequiv. Qed.
Print Assumptions spec_order_free_c19_sigma_conn.

Theorem spec_equivariant_c19_sigma_sep :
  forall f : nat -> nat,
  injective f ->
  forall (g : mgraph) (X Y Z : list nat),
  sigma_sep (rmap f g) (map f X) (map f Y) (map f Z) <-> sigma_sep g X Y Z.
Proof. exact Equiv_C19.sigma_sep_rmap. Qed.
Print Assumptions spec_equivariant_c19_sigma_sep.

Theorem spec_order_free_c19_sigma_sep :
  forall (g g' : mgraph) (X X' Y Y' Z Z' : list nat),
  gequiv g g' ->
  (forall a : nat, In a X <-> In a X') ->
  (forall a : nat, In a Y <-> In a Y') ->
  (forall a : nat, In a Z <-> In a Z') -> sigma_sep g X Y Z <-> sigma_sep g' X' Y' Z'.
Proof. exact Equiv_C19.sigma_sep_order_free. Qed.
Print Assumptions spec_order_free_c19_sigma_sep.

Theorem spec_equivariant_c19_acy_edges_of :
  forall f : nat -> nat,
  injective f -> forall g r : mgraph, acy_edges_of (rmap f g) (rmap f r) <-> acy_edges_of g r.
Proof. exact Equiv_C19.acy_edges_of_rmap. Qed.
Print Assumptions spec_equivariant_c19_acy_edges_of.

Theorem spec_order_free_c19_acy_edges_of :
  forall g g' r r' : mgraph,
  gequiv g g' -> gequiv r r' -> V r = V g -> V r' = V g' -> acy_edges_of g r <-> acy_edges_of g' r'.
Proof. exact Equiv_C19.acy_edges_of_order_free. Qed.
Print Assumptions spec_order_free_c19_acy_edges_of.

Theorem model_equivariant_c19_acy_model :
  forall f : nat -> nat, injective f -> forall g : mgraph, gequiv (acy_model (rmap f g)) (rmap f (acy_model g)).
Proof. exact Equiv_C19.acy_model_rmap. Qed.
Print Assumptions model_equivariant_c19_acy_model.

Theorem model_order_free_c19_acy_model :
  forall g g' : mgraph, gequiv g g' -> gequiv (acy_model g) (acy_model g').
Proof. exact Equiv_C19.acy_model_order_free. Qed.
Print Assumptions model_order_free_c19_acy_model.


(* ---- C11: (minimal) separators ---- *)
Theorem spec_equivariant_c11_sep_in :
  forall f : nat -> nat,
  injective f ->
  forall (g : mgraph) (x y : nat) (I0 R Z : list nat),
  sep_in (rmap f g) (f x) (f y) (map f I0) (map f R) (map f Z) <-> sep_in g x y I0 R Z.
Proof. exact Equiv_C11.sep_in_rmap. Qed.
Print Assumptions spec_equivariant_c11_sep_in.

Theorem spec_equivariant_c11_minimal_sep_in :
  forall f : nat -> nat,
  injective f ->
  forall (g : mgraph) (x y : nat) (I0 R Z : list nat),
  minimal_sep_in (rmap f g) (f x) (f y) (map f I0) (map f R) (map f Z) <-> minimal_sep_in g x y I0 R Z.
Proof. exact Equiv_C11.minimal_sep_in_rmap. Qed.
Print Assumptions spec_equivariant_c11_minimal_sep_in.

Theorem spec_equivariant_c11_query_ok :
  forall f : nat -> nat,
  injective f ->
  forall (g : mgraph) (x y : nat) (I0 R : list nat),
  query_ok (rmap f g) (f x) (f y) (map f I0) (map f R) <-> query_ok g x y I0 R.
Proof. exact Equiv_C11.query_ok_rmap. Qed.
Print Assumptions spec_equivariant_c11_query_ok.

Theorem spec_order_free_c11_sep_in :
  forall (g g' : mgraph) (x y : nat) (I0 I0' R R' Z Z' : list nat),
  gequiv g g' ->
  (forall a : nat, In a I0 <-> In a I0') ->
  (forall a : nat, In a R <-> In a R') ->
  (forall a : nat, In a Z <-> In a Z') -> sep_in g x y I0 R Z <-> sep_in g' x y I0' R' Z'.
Proof. exact Equiv_C11.sep_in_order_free. Qed.
Print Assumptions spec_order_free_c11_sep_in.

Theorem spec_order_free_c11_minimal_sep_in :
  forall (g g' : mgraph) (x y : nat) (I0 I0' R R' Z Z' : list nat),
  gequiv g g' ->
  (forall a : nat, In a I0 <-> In a I0') ->
  (forall a : nat, In a R <-> In a R') ->
  (forall a : nat, In a Z <-> In a Z') -> minimal_sep_in g x y I0 R Z <-> minimal_sep_in g' x y I0' R' Z'.
Proof. exact Equiv_C11.minimal_sep_in_order_free. Qed.
Print Assumptions spec_order_free_c11_minimal_sep_in.

Theorem spec_order_free_c11_query_ok :
  forall (g g' : mgraph) (x y : nat) (I0 I0' R R' : list nat),
  gequiv g g' ->
  (forall a : nat, In a I0 <-> In a I0') ->
  (forall a : nat, In a R <-> In a R') -> query_ok g x y I0 R <-> query_ok g' x y I0' R'.
Proof. exact Equiv_C11.query_ok_order_free. Qed.
Print Assumptions spec_order_free_c11_query_ok.

Theorem spec_order_free_c11_in_domain :
  forall g g' : mgraph, gequiv g g' -> in_domain g <-> in_domain g'.
Proof. exact Equiv_C11.in_domain_order_free. Qed.
Print Assumptions spec_order_free_c11_in_domain.


(* ---- C08 / C09: Meek rules / PAG-to-MAG soundness specs ---- *)
Theorem spec_equivariant_c08_simple_pdag :
  forall f : nat -> nat, injective f -> forall g : mgraph, simple_pdag (rmap f g) <-> simple_pdag g.
Proof. exact Equiv_C0809.simple_pdag_rmap. Qed.
Print Assumptions spec_equivariant_c08_simple_pdag.

Theorem spec_equivariant_c08_rule_closed :
  forall f : nat -> nat, injective f -> forall q : mgraph, rule_closed (rmap f q) <-> rule_closed q.
Proof. exact Equiv_C0809.rule_closed_rmap. Qed.
Print Assumptions spec_equivariant_c08_rule_closed.

Theorem spec_equivariant_c08_consistent_ext :
  forall f : nat -> nat,
  injective f -> forall p d : mgraph, consistent_ext (rmap f p) (rmap f d) <-> consistent_ext p d.
Proof. exact Equiv_C0809.consistent_ext_rmap. Qed.
Print Assumptions spec_equivariant_c08_consistent_ext.

Theorem spec_equivariant_c08_sound_for :
  forall f : nat -> nat, injective f -> forall p q : mgraph, sound_for (rmap f p) (rmap f q) <-> sound_for p q.
Proof. exact Equiv_C0809.sound_for_rmap. Qed.
Print Assumptions spec_equivariant_c08_sound_for.

Theorem spec_equivariant_c08_only_orients :
  forall f : nat -> nat,
  injective f -> forall p q : mgraph, only_orients (rmap f p) (rmap f q) <-> only_orients p q.
Proof. exact Equiv_C0809.only_orients_rmap. Qed.
Print Assumptions spec_equivariant_c08_only_orients.

Theorem spec_equivariant_c09_structure_kept :
  forall f : nat -> nat,
  injective f -> forall g m : mgraph, structure_kept (rmap f g) (rmap f m) <-> structure_kept g m.
Proof. exact Equiv_C0809.structure_kept_rmap. Qed.
Print Assumptions spec_equivariant_c09_structure_kept.

Theorem spec_order_free_c08_simple_pdag :
  forall g g' : mgraph, gequiv g g' -> simple_pdag g <-> simple_pdag g'.
Proof. exact Equiv_C0809.simple_pdag_order_free. Qed.
Print Assumptions spec_order_free_c08_simple_pdag.

Theorem spec_order_free_c08_rule_closed :
  forall q q' : mgraph, gequiv q q' -> rule_closed q <-> rule_closed q'.
Proof. exact Equiv_C0809.rule_closed_order_free. Qed.
Print Assumptions spec_order_free_c08_rule_closed.

Theorem spec_order_free_c08_consistent_ext :
  forall p p' d d' : mgraph, gequiv p p' -> gequiv d d' -> consistent_ext p d <-> consistent_ext p' d'.
Proof. exact Equiv_C0809.consistent_ext_order_free. Qed.
Print Assumptions spec_order_free_c08_consistent_ext.

Theorem spec_order_free_c08_sound_for :
  forall p p' q q' : mgraph, gequiv p p' -> gequiv q q' -> sound_for p q <-> sound_for p' q'.
Proof. exact Equiv_C0809.sound_for_order_free. Qed.
Print Assumptions spec_order_free_c08_sound_for.

Theorem spec_order_free_c08_only_orients_rel :
  forall p p' q q' : mgraph,
  gequiv p p' -> gequiv q q' -> Equiv_C0809.only_orients_rel p q <-> Equiv_C0809.only_orients_rel p' q'.
Proof. exact Equiv_C0809.only_orients_rel_order_free. Qed.
Print Assumptions spec_order_free_c08_only_orients_rel.

Theorem spec_order_free_c09_structure_kept :
  forall g g' m m' : mgraph,
  gequiv g g' -> gequiv m m' -> V m = V g -> V m' = V g' -> structure_kept g m <-> structure_kept g' m'.
Proof. exact Equiv_C0809.structure_kept_order_free. Qed.
Print Assumptions spec_order_free_c09_structure_kept.


(* ====================================================================================================================
   The public algorithms that no other property module reaches (C15/ExtraModel.v, ExtraProofs.v, ExtraRefuted.v):
   is_definite_collider, is_definite_noncollider, is_node_common_cause, set_nodes_as_latent_confounders, all_vstructures.
   C15 demands invariance under renaming / insertion order, not a meaning.  The models TIED to the code by the correspondence are
   the transcriptions of what the code does (def_collider, noncollider_asis, common_cause / common_cause_mixed_asis, latent_dg /
   latent_mx, vstructs); their equivariance [rmap f] and order-freedom [gequiv] theorems are the C15 content (names
   model_equivariant_..., asis_equivariant_..., ..._order_free_...).  DOCUMENTATION ONLY, not demanded by C15 and not checked against the
   code: the textbook definitions (theorems ..._model_eq_spec, ..._meets_spec) and the witnesses ..._refuted where the code deviates from the
   textbook.  extra_latent_asis_order_refuted is the one C15 defect: the unrepaired code depends on the insertion order.
   ==================================================================================================================== *)
From PG Require Import C15.ExtraModel C15.ExtraProofs C15.ExtraRefuted.

(* ---- is_definite_collider ---- *)
Theorem extra_def_collider_model_eq_spec :
  forall g a b c, def_collider g a b c = true <-> def_collider_spec g a b c.
Proof. exact def_collider_correct. Qed.
Print Assumptions extra_def_collider_model_eq_spec.

Theorem model_equivariant_extra_def_collider :
  forall f : nat -> nat, injective f ->
  forall g a b c, def_collider (rmap f g) (f a) (f b) (f c) = def_collider g a b c.
Proof. exact def_collider_rmap. Qed.
Print Assumptions model_equivariant_extra_def_collider.

Theorem model_order_free_extra_def_collider :
  forall g g' a b c, gequiv g g' -> def_collider g a b c = def_collider g' a b c.
Proof. exact def_collider_order_free. Qed.
Print Assumptions model_order_free_extra_def_collider.

(* ---- is_definite_noncollider ---- *)
Theorem extra_def_noncollider_model_eq_spec :
  forall g a b c, def_noncollider g a b c = true <-> def_noncollider_spec g a b c.
Proof. exact def_noncollider_correct. Qed.
Print Assumptions extra_def_noncollider_model_eq_spec.

Theorem model_equivariant_extra_def_noncollider :
  forall f : nat -> nat, injective f ->
  forall g a b c, def_noncollider (rmap f g) (f a) (f b) (f c) = def_noncollider g a b c.
Proof. exact def_noncollider_rmap. Qed.
Print Assumptions model_equivariant_extra_def_noncollider.

Theorem model_order_free_extra_def_noncollider :
  forall g g' a b c, gequiv g g' -> def_noncollider g a b c = def_noncollider g' a b c.
Proof. exact def_noncollider_order_free. Qed.
Print Assumptions model_order_free_extra_def_noncollider.

(* the transcription of the current code: equivariant, equal to the definition on paths whose marks at the middle node are not
   one arrowhead and one circle, and refuted on 0 o-> 1 o-o 2 *)
Theorem asis_equivariant_extra_noncollider :
  forall f : nat -> nat, injective f ->
  forall g a b c, noncollider_asis (rmap f g) (f a) (f b) (f c) = noncollider_asis g a b c.
Proof. exact noncollider_asis_rmap. Qed.
Print Assumptions asis_equivariant_extra_noncollider.

Theorem extra_noncollider_asis_agrees_partial :
  forall g a b c, adjacent g a b = true -> adjacent g c b = true ->
  andb (into g a b) (has_c g a b) = false -> andb (into g c b) (has_c g c b) = false ->
  andb (into g a b) (has_c g c b) = false -> andb (has_c g a b) (into g c b) = false ->
  noncollider_asis g a b c = def_noncollider g a b c.
Proof. exact noncollider_asis_agrees. Qed.
Print Assumptions extra_noncollider_asis_agrees_partial.

Theorem extra_noncollider_asis_refuted : exists g a b c,
  adjacent g a b = true /\ adjacent g c b = true /\ a <> c /\
  noncollider_asis g a b c = true /\ ~ def_noncollider_spec g a b c.
Proof. exact noncollider_asis_refuted. Qed.
Print Assumptions extra_noncollider_asis_refuted.

(* ---- is_node_common_cause ---- *)
Theorem extra_common_cause_model_eq_spec :
  forall g v excl, common_cause g v excl = true <-> common_cause_spec g v excl.
Proof. exact common_cause_correct. Qed.
Print Assumptions extra_common_cause_model_eq_spec.

Theorem model_equivariant_extra_common_cause :
  forall f : nat -> nat, injective f ->
  forall g v excl, common_cause (rmap f g) (f v) (map f excl) = common_cause g v excl.
Proof. exact common_cause_rmap. Qed.
Print Assumptions model_equivariant_extra_common_cause.

Theorem model_order_free_extra_common_cause :
  forall g g' v excl excl', gequiv g g' -> (forall a, In a excl <-> In a excl') ->
  common_cause g v excl = common_cause g' v excl'.
Proof. exact common_cause_order_free. Qed.
Print Assumptions model_order_free_extra_common_cause.

Theorem extra_common_cause_mixed_asis_refuted : exists g v,
  common_cause_mixed_asis g v nil = true /\ ~ common_cause_spec g v nil.
Proof. exact common_cause_mixed_asis_refuted. Qed.
Print Assumptions extra_common_cause_mixed_asis_refuted.

(* ---- set_nodes_as_latent_confounders ---- *)
Theorem extra_latent_graph_meets_spec :
  forall g nodes, latent_spec g nodes (latent_graph g nodes).
Proof. exact latent_graph_correct. Qed.
Print Assumptions extra_latent_graph_meets_spec.

Theorem extra_latent_model_eq_spec : forall g nodes,
  (forall r, latent_model g nodes = Some r -> latent_spec g nodes r /\ forall l, In l nodes -> common_cause_spec g l nodes) /\
  (latent_model g nodes = None <-> exists l, In l nodes /\ ~ common_cause_spec g l nodes).
Proof. exact latent_model_correct. Qed.
Print Assumptions extra_latent_model_eq_spec.

Theorem model_equivariant_extra_latent :
  forall f : nat -> nat, injective f ->
  forall g nodes, latent_model (rmap f g) (map f nodes) = option_map (rmap f) (latent_model g nodes).
Proof. exact latent_model_rmap. Qed.
Print Assumptions model_equivariant_extra_latent.

Theorem model_order_free_extra_latent_ok :
  forall g g' nodes nodes', gequiv g g' -> (forall a, In a nodes <-> In a nodes') ->
  latent_ok g nodes = latent_ok g' nodes'.
Proof. exact latent_ok_order_free. Qed.
Print Assumptions model_order_free_extra_latent_ok.

Theorem model_order_free_extra_latent_graph :
  forall g g' nodes nodes', gequiv g g' -> (forall a, In a nodes <-> In a nodes') ->
  gequiv (latent_graph g nodes) (latent_graph g' nodes').
Proof. exact latent_graph_order_free. Qed.
Print Assumptions model_order_free_extra_latent_graph.

Theorem spec_order_free_extra_latent :
  forall g g' nodes nodes' r r', gequiv g g' -> (forall a, In a nodes <-> In a nodes') ->
  latent_spec g nodes r -> latent_spec g' nodes' r' -> gequiv r r'.
Proof. exact latent_spec_gequiv. Qed.
Print Assumptions spec_order_free_extra_latent.

Theorem extra_latent_asis_order_refuted : exists g g' nodes r r',
  gequiv g g' /\ latent_asis g nodes = Some r /\ latent_asis g' nodes = Some r' /\
  has_b r 1 3 = false /\ has_b r' 1 3 = true.
Proof. exact latent_asis_order_refuted. Qed.
Print Assumptions extra_latent_asis_order_refuted.

Theorem extra_latent_asis_not_definition_refuted : exists g nodes r,
  latent_asis g nodes = Some r /\ has_b r 1 3 = false /\ has_b (latent_graph g nodes) 1 3 = true.
Proof. exact latent_asis_not_definition_refuted. Qed.
Print Assumptions extra_latent_asis_not_definition_refuted.

Theorem extra_latent_asis_readds_latent_refuted : exists g nodes r l,
  latent_asis g nodes = Some r /\ In l nodes /\ In l (V r).
Proof. exact latent_asis_readds_latent_refuted. Qed.
Print Assumptions extra_latent_asis_readds_latent_refuted.

(* ---- all_vstructures ---- *)
Theorem extra_vstructs_model_eq_spec :
  forall g a c b, In (a, c, b) (vstructs g) <-> vstruct_spec g a c b.
Proof. exact vstructs_correct. Qed.
Print Assumptions extra_vstructs_model_eq_spec.

Theorem extra_vstruct_edges_model_eq_spec :
  forall g a c, In (a, c) (vstruct_edges g) <-> exists b, vstruct_spec g a c b.
Proof. exact vstruct_edges_correct. Qed.
Print Assumptions extra_vstruct_edges_model_eq_spec.

Theorem model_equivariant_extra_vstructs :
  forall f : nat -> nat, injective f -> forall g, vstructs (rmap f g) = map (tmap f) (vstructs g).
Proof. exact vstructs_rmap. Qed.
Print Assumptions model_equivariant_extra_vstructs.

Theorem model_equivariant_extra_vstruct_edges :
  forall f : nat -> nat, injective f -> forall g, vstruct_edges (rmap f g) = pmap f (vstruct_edges g).
Proof. exact vstruct_edges_rmap. Qed.
Print Assumptions model_equivariant_extra_vstruct_edges.

Theorem model_order_free_extra_vstructs :
  forall g g' a c b, gequiv g g' -> (In (a, c, b) (vstructs g) <-> In (a, c, b) (vstructs g')).
Proof. exact vstructs_order_free. Qed.
Print Assumptions model_order_free_extra_vstructs.

(* ---- the models TIED to the code by the correspondence (transcriptions of what the code does; for
        set_nodes_as_latent_confounders: of the code after the order-independence repair fixes/C15-latent-confounders.patch).
        is_definite_collider and all_vstructures: the tied model is the definition (above). ---- *)
Theorem asis_order_free_extra_noncollider :
  forall g g' a b c, gequiv g g' -> noncollider_asis g a b c = noncollider_asis g' a b c.
Proof. exact noncollider_asis_order_free. Qed.
Print Assumptions asis_order_free_extra_noncollider.

(* is_node_common_cause on a mixed-edge class (successors = descendants there) *)
Theorem asis_equivariant_extra_common_cause_mixed :
  forall f : nat -> nat, injective f ->
  forall g v excl, common_cause_mixed_asis (rmap f g) (f v) (map f excl) = common_cause_mixed_asis g v excl.
Proof. exact common_cause_mixed_asis_rmap. Qed.
Print Assumptions asis_equivariant_extra_common_cause_mixed.

Theorem asis_order_free_extra_common_cause_mixed :
  forall g g' v excl excl', gequiv g g' -> In v (V g) -> (forall a, In a excl <-> In a excl') ->
  common_cause_mixed_asis g v excl = common_cause_mixed_asis g' v excl'.
Proof. exact common_cause_mixed_asis_order_free. Qed.
Print Assumptions asis_order_free_extra_common_cause_mixed.

(* set_nodes_as_latent_confounders as coded after the repair: on a DiGraph (children / parents) and on an ADMG (descendants / ancestors) *)
Theorem asis_equivariant_extra_latent_digraph :
  forall f : nat -> nat, injective f ->
  forall g nodes, latent_dg (rmap f g) (map f nodes) = option_map (rmap f) (latent_dg g nodes).
Proof. exact latent_dg_rmap. Qed.
Print Assumptions asis_equivariant_extra_latent_digraph.

Theorem asis_equivariant_extra_latent_admg :
  forall f : nat -> nat, injective f ->
  forall g nodes, latent_mx (rmap f g) (map f nodes) = option_map (rmap f) (latent_mx g nodes).
Proof. exact latent_mx_rmap. Qed.
Print Assumptions asis_equivariant_extra_latent_admg.

Theorem asis_order_free_extra_latent_digraph :
  forall g g' nodes nodes', gequiv g g' -> (forall a, In a nodes <-> In a nodes') ->
  opt_gequiv (latent_dg g nodes) (latent_dg g' nodes').
Proof. exact latent_dg_order_free. Qed.
Print Assumptions asis_order_free_extra_latent_digraph.

Theorem asis_order_free_extra_latent_admg :
  forall g g' nodes nodes', gequiv g g' -> (forall a, In a nodes <-> In a nodes') -> incl nodes (V g) ->
  opt_gequiv (latent_mx g nodes) (latent_mx g' nodes').
Proof. exact latent_mx_order_free. Qed.
Print Assumptions asis_order_free_extra_latent_admg.
