From Coq Require Import List.
From PG Require Import Graph.MGraph Graph.MSep Graph.Rename C15.Proofs.

(* the separation spec commutes with every one-to-one renaming of the nodes *)
Theorem spec_equivariant_msep : forall f g X Y Z, injective f ->
  (msep (rmap f g) (map f X) (map f Y) (map f Z) <-> msep g X Y Z).
Proof. intros f g X Y Z Hf. exact (msep_rmap f Hf g X Y Z). Qed.
Print Assumptions spec_equivariant_msep.

(* ... and ignores the order / multiplicity in which nodes and edges are listed (insertion order) *)
Theorem spec_order_free_msep : forall g g' X X' Y Y' Z Z', gequiv g g' ->
  (forall a, In a X <-> In a X') -> (forall a, In a Y <-> In a Y') -> (forall a, In a Z <-> In a Z') ->
  (msep g X Y Z <-> msep g' X' Y' Z').
Proof. exact msep_order_free. Qed.
Print Assumptions spec_order_free_msep.

Theorem oracle_equivariant_msep : forall f g X Y Z, injective f -> incl Z (V g) ->
  msep_dec (rmap f g) (map f X) (map f Y) (map f Z) = msep_dec g X Y Z.
Proof. exact msep_dec_rmap. Qed.
Print Assumptions oracle_equivariant_msep.

Theorem oracle_order_free_msep : forall g g' X X' Y Y' Z Z', gequiv g g' ->
  (forall a, In a X <-> In a X') -> (forall a, In a Y <-> In a Y') -> (forall a, In a Z <-> In a Z') ->
  incl Z (V g) -> msep_dec g X Y Z = msep_dec g' X' Y' Z'.
Proof. exact msep_dec_order_free. Qed.
Print Assumptions oracle_order_free_msep.

(* model level: the executable model of m_separated (C01) commutes with every one-to-one renaming on C01's whole domain
   (corollary of C01's unbounded correctness theorem msep_model_dec and of oracle_equivariant_msep) *)
From PG Require Import Graph.Walks C01.Model C01.Spec C15.ModelEquiv.
Theorem model_equivariant_msep : forall f g X Y Z, injective f ->
  acyclicb g = true -> (U g = nil \/ ancestral_und g) ->
  incl X (V g) -> incl Z (V g) -> disjoint X Y -> disjoint X Z ->
  msep_model (rmap f g) (map f X) (map f Y) (map f Z) = msep_model g X Y Z.
Proof. intros f g X Y Z Hf. exact (msep_model_rmap f Hf g X Y Z). Qed.
Print Assumptions model_equivariant_msep.
