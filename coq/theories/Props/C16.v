(* C16 — semi-directed path enumeration and possible ancestry are exact.  Statements: C16/Spec.v. All unbounded. *)
From Coq Require Import List Permutation.
From PG Require Import Graph.MGraph C16.Model C16.Paths C16.Spec C16.Proofs C16.Examples C16.Refuted.

(* is_semi_directed_path decides "non-empty, duplicate-free, in G, every step an edge without an arrowhead towards the start" *)
Theorem is_semi_spec : is_semi_spec_stmt.
Proof. exact C16.Proofs.is_semi_spec. Qed.
Print Assumptions is_semi_spec.

(* on graphs without a lone circle mark a step is: adjacent and no arrowhead at the end nearer to the start *)
Theorem semi_edge_marks : semi_edge_marks_stmt.
Proof. exact C16.Proofs.semi_edge_marks. Qed.
Print Assumptions semi_edge_marks.

(* the enumeration contains each wanted path exactly once and nothing else, for every graph, source, target set, cutoff *)
Theorem semi_enum_exact : semi_enum_exact_stmt.
Proof. exact C16.Proofs.semi_enum_exact. Qed.
Print Assumptions semi_enum_exact.

(* multiset equality with the brute-force filter over all simple paths of the adjacency graph *)
Theorem semi_enum_perm : semi_enum_perm_stmt.
Proof. exact C16.Proofs.semi_enum_perm. Qed.
Print Assumptions semi_enum_perm.

Theorem semi_api_ok : semi_api_stmt.
Proof. exact C16.Proofs.semi_api_ok. Qed.
Print Assumptions semi_api_ok.

(* cutoff None (= |V|-1) and any cutoff >= |V|-1 restrict nothing *)
Theorem semi_cutoff_none : semi_cutoff_none_stmt.
Proof. exact C16.Proofs.semi_cutoff_none. Qed.
Print Assumptions semi_cutoff_none.

Theorem poss_desc_exact : poss_desc_exact_stmt.
Proof. exact C16.Proofs.poss_desc_exact. Qed.
Print Assumptions poss_desc_exact.

Theorem poss_anc_exact : poss_anc_exact_stmt.
Proof. exact C16.Proofs.poss_anc_exact. Qed.
Print Assumptions poss_anc_exact.

(* the loop of /repo before the repair (transcribed, neighbours in ascending order) yields a path outside the specification *)
Theorem semi_asis_refuted :
  exists g s T k p, In p (semi_asis g s T k) /\ ~ semi_target_path g s T k p /\ ~ In p (semi_enum g s T k).
Proof. exact C16.Refuted.semi_asis_refuted. Qed.
Print Assumptions semi_asis_refuted.
