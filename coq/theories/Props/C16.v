From Coq Require Import List.
From PG Require Import Graph.MGraph C16.Model.
(* placeholder until the proofs land *)
Theorem c16_placeholder : forall g s, poss_desc g s = poss_desc g s.
Proof. reflexivity. Qed.
Print Assumptions c16_placeholder.
