(* C16 — semi-directed path enumeration and possible ancestry are exact.  Statements: C16/Spec.v. All unbounded. *)
From Coq Require Import List Permutation.
From PG Require Import Graph.MGraph C16.Model C16.Paths C16.Spec C16.Proofs C16.Examples C16.Refuted.

(* is_semi_directed_path decides "non-empty, duplicate-free, in G, every step an edge without an arrowhead towards the start" *)
Theorem is_semi_spec : is_semi_spec_stmt.
Proof. exact C16.Proofs.is_semi_spec. Qed.
Print Assumptions is_semi_spec.

(* on graphs without a lone circle mark a step is: adjacent and no arrowhead at the end nearer to the start *)
Theorem semi_edge_marks : semi_edge_marks_stmt.
Proof. exact C16.Proofs.semi_edge_marks. Qed.
Print Assumptions semi_edge_marks.

(* the enumeration contains each wanted path exactly once and nothing else, for every graph, source, target set, cutoff *)
Theorem semi_enum_exact : semi_enum_exact_stmt.
Proof. exact C16.Proofs.semi_enum_exact. Qed.
Print Assumptions semi_enum_exact.

(* multiset equality with the brute-force filter over all simple paths of the adjacency graph *)
Theorem semi_enum_perm : semi_enum_perm_stmt.
Proof. exact C16.Proofs.semi_enum_perm. Qed.
Print Assumptions semi_enum_perm.

Theorem semi_api_ok : semi_api_stmt.
Proof. exact C16.Proofs.semi_api_ok. Qed.
Print Assumptions semi_api_ok.

(* cutoff None (= |V|-1) and any cutoff >= |V|-1 restrict nothing *)
Theorem semi_cutoff_none : semi_cutoff_none_stmt.
Proof. exact C16.Proofs.semi_cutoff_none. Qed.
Print Assumptions semi_cutoff_none.

Theorem poss_desc_exact : poss_desc_exact_stmt.
Proof. exact C16.Proofs.poss_desc_exact. Qed.
Print Assumptions poss_desc_exact.

Theorem poss_anc_exact : poss_anc_exact_stmt.
Proof. exact C16.Proofs.poss_anc_exact. Qed.
Print Assumptions poss_anc_exact.

(* the loop of /repo before the repair (transcribed, neighbours in ascending order) yields a path outside the specification *)
Theorem semi_asis_refuted :
  exists g s T k p, In p (semi_asis g s T k) /\ ~ semi_target_path g s T k p /\ ~ In p (semi_enum g s T k).
Proof. exact C16.Refuted.semi_asis_refuted. Qed.
Print Assumptions semi_asis_refuted.

(* ---- tie (T): the local predicates of /repo, translated on every run into Gen/Gen_Preds.v by translator/predicates.py ----
   pst g u v = the six marks between u and v; pag_pairs g = every pair of g is in a state a PAG can hold (the invariant of
   C03).  Statements and the complete case analyses: Tie/Preds_C16.v, Tie/PredsProofs.v. *)
From PG Require Import C03.PState Gen.Gen_Preds Tie.PredsProofs Tie.Preds_C16.

(* on the graphs of the quantifier (PAG pairs, no lone circle mark) every translated predicate -- the per-pair test of
   is_semi_directed_path, _possibly_directed with either flag, the BFS step of possible_descendants / possible_ancestors,
   the two arrowhead filters of _all_semi_directed_paths_graph -- IS the model's step predicate semi_ok, for every pair *)
Theorem repo_pred_semi : repo_pred_semi_stmt.
Proof. exact Tie.Preds_C16.repo_pred_semi. Qed.
Print Assumptions repo_pred_semi.

(* hence the step functions of the model's poss_desc / poss_anc closures are filters by the generated BFS steps *)
Theorem repo_pred_poss_step_filters : repo_pred_poss_step_filters_stmt.
Proof. exact Tie.Preds_C16.repo_pred_poss_step_filters. Qed.
Print Assumptions repo_pred_poss_step_filters.

(* the translator's own evaluation of each predicate (the table compared cell by cell with the real functions on every
   run) equals the printed Gallina function on all 64 pair states *)
Theorem repo_pred_cells_C16 :
  gen_possibly_directed_enum = gen_possibly_directed_cells /\
  gen_poss_desc_step_enum = gen_poss_desc_step_cells /\
  gen_poss_anc_step_enum = gen_poss_anc_step_cells /\
  gen_semi_edge_ok_enum = gen_semi_edge_ok_cells /\
  gen_semi_step_main_enum = gen_semi_step_main_cells /\
  gen_semi_step_cutoff_enum = gen_semi_step_cutoff_cells.
Proof. exact Tie.Preds_C16.cells_C16. Qed.
Print Assumptions repo_pred_cells_C16.
