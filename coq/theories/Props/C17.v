(* C17 — possibly-d-separating sets equal their definition.  Statements: C17/Spec.v.
   pds_model is the search the property demands (edge states, (this,next) enqueued). All theorems unbounded except the
   refutation, which is a kernel computation on a 5-node witness. *)
From Coq Require Import List.
From PG Require Import Graph.MGraph C17.Model C17.Spec C17.Proofs C17.Proofs2 C17.Refuted C17.Examples.

(* nx.has_path on the adjacency graph *)
Theorem conn_spec : conn_spec_stmt.
Proof. exact C17.Proofs.conn_spec. Qed.
Print Assumptions conn_spec.

(* "exactly", under the walk reading of "path" *)
Theorem pds_model_is_walk : pds_model_is_walk_stmt.
Proof. exact C17.Proofs.pds_model_is_walk. Qed.
Print Assumptions pds_model_is_walk.

(* with an endpoint y: walks avoiding y when y is connected to x, the empty set otherwise *)
Theorem pds_with_y : pds_with_y_stmt.
Proof. exact C17.Proofs.pds_with_y. Qed.
Print Assumptions pds_with_y.

(* never x, never y, only nodes of G *)
Theorem pds_walk_excludes : pds_walk_excludes_stmt.
Proof. exact C17.Proofs.pds_walk_excludes. Qed.
Print Assumptions pds_walk_excludes.

(* never smaller than the definition over simple paths (what FCI needs) *)
Theorem pds_never_smaller : pds_never_smaller_stmt.
Proof. exact C17.Proofs.pds_never_smaller. Qed.
Print Assumptions pds_never_smaller.

Theorem pds_never_smaller_y : pds_never_smaller_y_stmt.
Proof. exact C17.Proofs.pds_never_smaller_y. Qed.
Print Assumptions pds_never_smaller_y.

(* the oracle used by the check for the simple-path reading misses no node of the definition *)
Theorem pds_def_path_dec_complete : pds_def_path_dec_complete_stmt.
Proof. exact C17.Proofs.pds_def_path_dec_complete. Qed.
Print Assumptions pds_def_path_dec_complete.

(* the block of the edge x - y, as computed by the model, is the set of nodes on a simple cycle through the edge *)
Theorem block_spec : block_spec_stmt.
Proof. exact C17.Proofs.block_spec. Qed.
Print Assumptions block_spec.

Theorem pds_path_block : pds_path_block_stmt.
Proof. exact C17.Proofs.pds_path_block. Qed.
Print Assumptions pds_path_block.

Theorem pds_t_filter : pds_t_filter_stmt.
Proof. exact C17.Proofs.pds_t_filter. Qed.
Print Assumptions pds_t_filter.

(* "exactly" is false under the simple-path reading: a node reached only by a self-intersecting walk *)
Theorem pds_exact_refuted : pds_exact_refuted_stmt.
Proof. exact C17.Proofs.pds_exact_refuted. Qed.
Print Assumptions pds_exact_refuted.

(* /repo's search as it is (prev_node never advances) is smaller than the definition on 2 -> 1 <-> 0 <-> 3 *)
Theorem pds_asis_refuted :
  exists g x v, In x (V g) /\ pds_def_path g x None v /\ ~ In v (pds_asis g x None) /\ In v (pds_model g x None).
Proof. exact C17.Refuted.pds_asis_refuted. Qed.
Print Assumptions pds_asis_refuted.

(* ---- second batch ---- *)
(* the simple-path oracle of the check is exact: sound for every input, complete when y (if given) is connected to x *)
Theorem pds_def_path_dec_sound : pds_def_path_dec_sound_stmt.
Proof. exact C17.Proofs2.pds_def_path_dec_sound. Qed.
Print Assumptions pds_def_path_dec_sound.

Theorem pds_def_path_dec_exact : pds_def_path_dec_exact_stmt.
Proof. exact C17.Proofs2.pds_def_path_dec_exact. Qed.
Print Assumptions pds_def_path_dec_exact.

(* the two readings of "path" differ: a statement about the two Props only *)
Theorem pds_walk_path_differ : pds_walk_path_differ_stmt.
Proof. exact C17.Proofs2.pds_walk_path_differ. Qed.
Print Assumptions pds_walk_path_differ.

(* end to end: pds_path / pds_t / pds_t_path are never smaller than (definition /\ block /\ lag bound) *)
Theorem pds_path_never_smaller : pds_path_never_smaller_stmt.
Proof. exact C17.Proofs2.pds_path_never_smaller. Qed.
Print Assumptions pds_path_never_smaller.

Theorem pds_t_never_smaller : pds_t_never_smaller_stmt.
Proof. exact C17.Proofs2.pds_t_never_smaller. Qed.
Print Assumptions pds_t_never_smaller.

Theorem pds_t_path_never_smaller : pds_t_path_never_smaller_stmt.
Proof. exact C17.Proofs2.pds_t_path_never_smaller. Qed.
Print Assumptions pds_t_path_never_smaller.

(* time-series nodes (variable, |lag|) <-> nat, and the lag filter on them *)
Theorem ts_enc_bijection : ts_enc_bijection_stmt.
Proof. exact C17.Proofs2.ts_enc_bijection. Qed.
Print Assumptions ts_enc_bijection.

Theorem pds_t_ts_spec : pds_t_ts_spec_stmt.
Proof. exact C17.Proofs2.pds_t_ts_spec. Qed.
Print Assumptions pds_t_ts_spec.

Theorem pds_t_pairs_spec : pds_t_pairs_spec_stmt.
Proof. exact C17.Proofs2.pds_t_pairs_spec. Qed.
Print Assumptions pds_t_pairs_spec.

(* /repo's search as it is, characterised exactly: walks whose triples are all tested against x; in closed form the
   neighbours of x plus one collider step; always inside the walk definition *)
Theorem pds_asis_spec : pds_asis_spec_stmt.
Proof. exact C17.Proofs2.pds_asis_spec. Qed.
Print Assumptions pds_asis_spec.

Theorem pds_asis_depth2 : pds_asis_depth2_stmt.
Proof. exact C17.Proofs2.pds_asis_depth2. Qed.
Print Assumptions pds_asis_depth2.

Theorem pds_asis_subset : pds_asis_subset_stmt.
Proof. exact C17.Proofs2.pds_asis_subset. Qed.
Print Assumptions pds_asis_subset.

(* ---- tie (T): the local predicates of /repo, translated on every run into Gen/Gen_Preds.v by translator/predicates.py ----
   pst g a b = the six marks between a and b.  Statements and the complete case analyses: Tie/Preds_C17.v. *)
From PG Require Import C03.PState Gen.Gen_Preds Tie.PredsProofs Tie.Preds_C17.

(* is_definite_collider and the triple test of pds (is_def_collider or is_triangle), as translated from the source, ARE
   collider3 / triple_ok of the model -- every graph whose pairs are in states a PAG can hold (pag_pairs: the invariant of
   C03), every triple; complete case analysis over 18 x 18 (x 18) pair states *)
Theorem repo_pred_pds : repo_pred_pds_stmt.
Proof. exact Tie.Preds_C17.repo_pred_pds. Qed.
Print Assumptions repo_pred_pds.

(* hence, on such graphs, the step of the model search and of the order-faithful as-is search is a filter by the generated test *)
Theorem repo_pred_pds_next : repo_pred_pds_next_stmt.
Proof. exact Tie.Preds_C17.repo_pred_pds_next. Qed.
Print Assumptions repo_pred_pds_next.

(* the translator's own evaluation of each predicate (the table compared cell by cell with the real code on every run)
   equals the printed Gallina function on the enumeration *)
Theorem repo_pred_cells_C17 :
  gen_is_definite_collider_enum = gen_is_definite_collider_cells /\ gen_pds_triple_enum = gen_pds_triple_cells.
Proof. exact Tie.Preds_C17.cells_C17. Qed.
Print Assumptions repo_pred_cells_C17.
