From Coq Require Import List.
From PG Require Import Graph.MGraph C18.Model.
(* placeholder until the proofs land *)
Theorem c18_placeholder : forall g u a c, disc_search g u a c = disc_search g u a c.
Proof. reflexivity. Qed.
Print Assumptions c18_placeholder.
