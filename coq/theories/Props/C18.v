(* C18 - FCI path searches report a path iff one exists, and only valid paths.  Definitions: C18/Spec.v. *)
From Coq Require Import List.
From PG Require Import Graph.MGraph C18.Model C18.Spec C18.Proofs C18.ProofsSound C18.ProofsComplete C18.Refuted.
Import ListNotations.

(* the boolean edge test is the wording of the property: no arrowhead at the earlier node, no tail at the later
   one (circle marks only with force_circle) *)
Theorem c18_pd_edge_words : forall g fc a b, pd_edge g fc a b = true <-> pd_edge_def g fc a b.
Proof. exact pd_edge_words. Qed.
Print Assumptions c18_pd_edge_words.

(* the enumerations used to validate every path returned by the implementation are exactly the definitions *)
Theorem c18_updp_paths_spec : forall g u c o p, In p (updp_paths g u c o) <-> updp_def g u c o p.
Proof. exact updp_paths_spec. Qed.
Print Assumptions c18_updp_paths_spec.

Theorem c18_disc_paths_spec : forall g par u a c p, In p (disc_paths g par u a c) <-> disc_def g par u a c p.
Proof. exact disc_paths_spec. Qed.
Print Assumptions c18_disc_paths_spec.

(* verified checkers *)
Theorem c18_updp_valid_b_spec : forall g u c o p, updp_valid_b g u c o p = true <-> updp_def g u c o p.
Proof. exact updp_valid_b_spec. Qed.
Print Assumptions c18_updp_valid_b_spec.

Theorem c18_disc_valid_b_spec : forall g par u a c p, disc_valid_b g par u a c p = true <-> disc_def g par u a c p.
Proof. exact disc_valid_b_spec. Qed.
Print Assumptions c18_disc_valid_b_spec.

(* the deciders used for "a path exists" reflect existence *)
Theorem c18_spec_updp_dec_spec : forall g u c o, spec_updp_dec g u c o = true <-> exists p, updp_def g u c o p.
Proof. exact spec_updp_dec_spec. Qed.
Print Assumptions c18_spec_updp_dec_spec.

Theorem c18_spec_disc_dec_spec :
  forall g par u a c, spec_disc_dec g par u a c = true <-> exists p, disc_def g par u a c p.
Proof. exact spec_disc_dec_spec. Qed.
Print Assumptions c18_spec_disc_dec_spec.

(* soundness of the search models, unbounded *)
Theorem c18_updp_sound : forall g u c o p, updp_search g u c o = Found p -> updp_def g u c o p.
Proof. exact updp_sound. Qed.
Print Assumptions c18_updp_sound.

Theorem c18_disc_sound : forall g par u a c p, disc_search g par u a c = Some p -> disc_def g par u a c p.
Proof. exact disc_sound. Qed.
Print Assumptions c18_disc_sound.

(* completeness of the repaired discriminating_path search, unbounded *)
Theorem c18_disc_complete : forall g par u a c,
  (forall w, par w = true -> adjacent g w c = true) ->
  (exists p, disc_def g par u a c p) -> exists p', disc_search g par u a c = Some p'.
Proof. exact disc_complete. Qed.
Print Assumptions c18_disc_complete.

Theorem c18_disc_search_iff : forall g lenient u a c,
  (exists p, disc_search g (par_of g lenient a c) u a c = Some p) <->
  spec_disc_dec g (par_of g lenient a c) u a c = true.
Proof. exact disc_search_iff. Qed.
Print Assumptions c18_disc_search_iff.

(* the uncovered_pd_path search with one global explored set is NOT complete (recorded known finding) *)
Theorem c18_updp_complete_refuted :
  exists g u c o p, updp_def g u c o p /\ updp_search g u c o = NotFound.
Proof. exact updp_complete_refuted. Qed.
Print Assumptions c18_updp_complete_refuted.

(* non-vacuity *)
Theorem c18_updp_search_finds :
  updp_search g_line 1 4 (MkO (Some 0) None (Some 0) false) = Found [0; 1; 2; 3; 4] /\
  updp_search g_line 0 4 (MkO None (Some 1) (Some 3) false) = Found [0; 1; 2; 3; 4] /\
  updp_search g_line 3 4 (MkO None None None true) = Found [3; 4] /\
  updp_def g_line 1 4 (MkO (Some 0) None (Some 0) false) [0; 1; 2; 3; 4].
Proof. exact updp_search_finds. Qed.
Print Assumptions c18_updp_search_finds.

Theorem c18_disc_search_finds :
  disc_search g_disc (strict g_disc 2 4) 3 2 4 = Some [0; 1; 2; 3; 4] /\
  disc_def g_disc (strict g_disc 2 4) 3 2 4 [0; 1; 2; 3; 4].
Proof. exact disc_search_finds. Qed.
Print Assumptions c18_disc_search_finds.

(* ---- tie (T): the local predicates of /repo, translated on every run into Gen/Gen_Preds.v by translator/predicates.py ----
   pst g a b = the six marks between a and b; pag_pairs g = every pair of g is in a state a PAG can hold (the invariant of
   C03).  Statements and the complete case analyses: Tie/Preds_C18.v, Tie/PredsProofs.v. *)
From PG Require Import C03.PState Gen.Gen_Preds Tie.PredsProofs Tie.Preds_C18.

(* uncovered_pd_path._pd_edge as translated from the source IS pd_edge of the model, with and without force_circle, on
   every pair of every graph whose pairs are PAG pairs *)
Theorem repo_pred_pd_edge : repo_pred_pd_edge_stmt.
Proof. exact Tie.Preds_C18.repo_pred_pd_edge. Qed.
Print Assumptions repo_pred_pd_edge.

(* with c18_pd_edge_words: the translated test holds iff the wording of the property holds *)
Theorem repo_pred_pd_edge_words : repo_pred_pd_edge_words_stmt.
Proof. exact Tie.Preds_C18.repo_pred_pd_edge_words. Qed.
Print Assumptions repo_pred_pd_edge_words.

(* the "every edge potentially directed" clause of the path checker / enumerators, written with the translated test *)
Theorem repo_pred_pd_edge_paths : repo_pred_pd_edge_paths_stmt.
Proof. exact Tie.Preds_C18.repo_pred_pd_edge_paths. Qed.
Print Assumptions repo_pred_pd_edge_paths.

Theorem repo_pred_cells_C18 : gen_pd_edge_enum = gen_pd_edge_cells.
Proof. exact Tie.Preds_C18.cells_C18. Qed.
Print Assumptions repo_pred_cells_C18.
