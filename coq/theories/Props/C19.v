(* C19 — acyclification realises sigma-separation.
   Unbounded: acy_nodes_edges, acy_acyclic, acy_idempotent_on_acyclic, sigma_sep_dec_reflects.
   Unbounded: sigma_equiv (the sigma clause itself, path definitions on both sides), its two directions, sigma_equiv_dec.
   Additionally, independently, by kernel computation: sigma_equiv_bounded_3 (ALL directed mixed graphs on <= 3 nodes) and
   sigma_equiv_bounded_4_le2_bidirected (4 nodes, all 4096 directed layers x all 22 bidirected layers with <= 2 edges). *)
From Coq Require Import List Arith.
From PG Require Import Base.ListSet Graph.MGraph Graph.MSep C19.Model C19.Spec C19.Proofs C19.SigmaDec C19.Bounded
  C19.Bounded_n3 C19.Bounded_n4 C19.SigmaWalk C19.SigmaConv C19.SigmaConv2.
Import ListNotations.

(* the model's edges are exactly the property's characterisation (strongly connected component = mutual reachability) *)
Theorem acy_nodes_edges : acy_nodes_edges_stmt.
Proof. exact acy_nodes_edges_proof. Qed.
Print Assumptions acy_nodes_edges.

Theorem acy_acyclic : acy_acyclic_stmt.
Proof. exact acy_acyclic_proof. Qed.
Print Assumptions acy_acyclic.

Theorem acy_idempotent_on_acyclic : acy_idempotent_on_acyclic_stmt.
Proof. exact acy_idempotent_on_acyclic_proof. Qed.
Print Assumptions acy_idempotent_on_acyclic.

(* the brute-force oracle used by the harness and by the bounded theorems decides sigma-separation as defined on paths *)
Theorem sigma_sep_dec_reflects : forall g X Y Z, incl X (V g) -> incl Z (V g) ->
  (sigma_sep_dec g X Y Z = true <-> sigma_sep g X Y Z).
Proof. exact sigma_sep_dec_spec. Qed.
Print Assumptions sigma_sep_dec_reflects.

(* all directed mixed graphs on <= 3 nodes, all disjoint X, Y, Z: path definitions on both sides *)
Theorem sigma_equiv_bounded_3 : forall n g X Y Z, n <= 3 -> In g (cyc_graphs n) ->
  (forall x, In x X -> x < n) -> (forall y, In y Y -> y < n) -> In Z (sublists (seq 0 n)) ->
  (forall x, In x X -> ~ In x Y /\ ~ In x Z) -> (forall y, In y Y -> ~ In y Z) ->
  (msep (acy_model g) X Y Z <-> sigma_sep g X Y Z).
Proof. exact sigma_equiv_bounded_3_prop_proof. Qed.
Print Assumptions sigma_equiv_bounded_3.

(* all directed mixed graphs on 4 nodes with ANY directed layer (4096, any cycles) and at most 2 bidirected edges: 90112 graphs *)
Theorem sigma_equiv_bounded_4_le2_bidirected : forall d b X Y Z,
  In d (subl (ord_pairs 4)) -> In b (subl (unord_pairs 4)) -> length b <= 2 ->
  (forall x, In x X -> x < 4) -> (forall y, In y Y -> y < 4) -> In Z (sublists (seq 0 4)) ->
  (forall x, In x X -> ~ In x Y /\ ~ In x Z) -> (forall y, In y Y -> ~ In y Z) ->
  (msep (acy_model (MkG (seq 0 4) d b [] [])) X Y Z <-> sigma_sep (MkG (seq 0 4) d b [] [])  X Y Z).
Proof. exact sigma_equiv_bounded_4_le2_bidirected_prop_proof. Qed.
Print Assumptions sigma_equiv_bounded_4_le2_bidirected.

(* UNBOUNDED: the sigma clause of the property, path definitions on both sides (Forre-Mooij 2017 / Mooij-Claassen 2020, Prop. A.19):
   m-separation in the acyclification <-> every path between X and Y is sigma-blocked by Z, for ALL directed mixed graphs *)
Theorem sigma_equiv : sigma_equiv_stmt.
Proof. exact C19.SigmaConv.sigma_equiv_proof. Qed.
Print Assumptions sigma_equiv.

(* its two directions (only X # Y is needed): a sigma-connecting path of g yields an open walk, hence (acyclic graph) an
   m-connecting path, of the acyclification; an m-connecting path of the acyclification yields a sigma-open walk of g, hence
   (loop removal without acyclicity) a sigma-connecting path *)
Theorem msep_acy_implies_sigma_sep : forall g X Y Z, wf g -> U g = [] -> incl X (V g) -> incl Z (V g) ->
  (forall a, In a X -> ~ In a Y) ->
  msep (acy_model g) X Y Z -> sigma_sep g X Y Z.
Proof. exact C19.SigmaWalk.msep_acy_implies_sigma_sep. Qed.
Print Assumptions msep_acy_implies_sigma_sep.

Theorem sigma_sep_implies_msep_acy : forall g X Y Z, wf g -> U g = [] -> incl X (V g) -> incl Z (V g) ->
  (forall a, In a X -> ~ In a Y) ->
  sigma_sep g X Y Z -> msep (acy_model g) X Y Z.
Proof. exact C19.SigmaConv.sigma_sep_implies_msep_acy. Qed.
Print Assumptions sigma_sep_implies_msep_acy.

(* the same for the boolean oracles run by the harness *)
Theorem sigma_equiv_dec : forall g X Y Z, wf g -> U g = [] -> incl X (V g) -> incl Y (V g) -> incl Z (V g) ->
  (forall a, In a X -> ~ In a Y /\ ~ In a Z) -> (forall a, In a Y -> ~ In a Z) ->
  msep_dec (acy_model g) X Y Z = sigma_sep_dec g X Y Z.
Proof. exact C19.SigmaConv2.sigma_equiv_dec_proof. Qed.
Print Assumptions sigma_equiv_dec.

(* the enumeration covers the class: every edge set over 0..n-1 is, as a set, the edge set of an enumerated graph *)
Theorem cyc_enumeration_complete : forall n (D0 B0 : list (nat * nat)),
  incl D0 (ord_pairs n) -> incl B0 (unord_pairs n) ->
  exists g, In g (cyc_graphs n) /\ V g = seq 0 n /\ incl D0 (D g) /\ incl (D g) D0 /\ incl B0 (B g) /\ incl (B g) B0.
Proof. exact cyc_enumeration_covers. Qed.
Print Assumptions cyc_enumeration_complete.
