From Coq Require Import List.
From PG Require Import Graph.MGraph C19.Model.
(* placeholder until the proofs land *)
Theorem c19_placeholder : forall g, V (acy_model g) = V g.
Proof. reflexivity. Qed.
Print Assumptions c19_placeholder.
