(* C20 — Intervention and domain node registry matches the graph after any history.
   Statements: C20/Spec.v.  [good] is the machine the property demands (deep-copied registries, per-instance
   domains, index fresh w.r.t. the nodes present, remove_node / remove_nodes_from unregister F- and S-nodes);
   all theorems about it are unbounded over histories (induction over the op list through the world invariant
   of C20/ProofsWorld.v).  [as_coded] is the code as found: every clause is refuted (C20/Refuted.v). *)
From Coq Require Import List.
From PG Require Import C20.Model C20.Spec C20.Proofs C20.ProofsLocal C20.ProofsWorld C20.Refuted C20.Examples.

(* after ANY history, for EVERY live object: registered F-/S-nodes = augmented nodes present; registered targets
   = targets at creation = children *)
Theorem registry_inv : registry_inv_stmt good.
Proof. exact registry_inv_good. Qed.
Print Assumptions registry_inv.

(* "the targets it was created with": the abstract entry of an F-node never changes until that node is removed *)
Theorem created_stable : created_stable_stmt good.
Proof. exact created_stable_good. Qed.
Print Assumptions created_stable.

Theorem created_stable_aug : created_stable_aug_stmt good.
Proof. exact created_stable_aug_good. Qed.
Print Assumptions created_stable_aug.

(* a successful add_f_node / add_s_node creates exactly one node, whose name was not a node before *)
Theorem fresh_names : fresh_f_stmt good.
Proof. exact fresh_f_good. Qed.
Print Assumptions fresh_names.

Theorem fresh_names_s : fresh_s_stmt good.
Proof. exact fresh_s_good. Qed.
Print Assumptions fresh_names_s.

(* an operation on one object, a constructor call or a copy leaves every observable of every other object unchanged *)
Theorem objects_independent : independent_stmt good.
Proof. exact independent_good. Qed.
Print Assumptions objects_independent.

Theorem copy_faithful : copy_faithful_stmt good.
Proof. exact copy_faithful_good. Qed.
Print Assumptions copy_faithful.

(* the references of distinct live objects are distinct (part of the invariant, stated on its own) *)
Theorem registries_not_aliased : forall ops o1 o2 g1 g2,
  nth_error (objs (run good ops)) o1 = Some g1 -> nth_error (objs (run good ops)) o2 = Some g2 ->
  reg g1 = reg g2 -> o1 = o2.
Proof. exact (fun ops => wi_inj _ (run_winv ops)). Qed.
Print Assumptions registries_not_aliased.

(* ---- the machine as coded *)
Theorem as_coded_fresh_names_refuted : ~ fresh_f_stmt as_coded.
Proof. exact fresh_names_refuted. Qed.
Print Assumptions as_coded_fresh_names_refuted.

Theorem as_coded_registry_inv_refuted : ~ registry_inv_stmt as_coded.
Proof. exact registry_inv_refuted_snode. Qed.
Print Assumptions as_coded_registry_inv_refuted.

Theorem as_coded_objects_independent_refuted : ~ independent_stmt as_coded.
Proof. exact objects_independent_refuted_copy. Qed.
Print Assumptions as_coded_objects_independent_refuted.

(* every single deviation is enough to break a clause *)
Theorem each_repair_necessary :
  ~ fresh_f_stmt only_len_names /\ ~ registry_inv_stmt only_len_names /\
  ~ registry_inv_stmt only_share /\ ~ independent_stmt only_share /\
  ~ independent_stmt only_class_domains /\
  ~ registry_inv_stmt only_ag_keeps_s /\ ~ registry_inv_stmt only_rmfrom_keeps.
Proof.
  exact (conj fresh_names_refuted_len_names_alone (conj registry_inv_refuted_len_names_alone
        (conj registry_inv_refuted_share_alone (conj objects_independent_refuted_share_alone
        (conj objects_independent_refuted_class_domains_alone
        (conj registry_inv_refuted_ag_keeps_s_alone registry_inv_refuted_rmfrom_alone)))))).
Qed.
Print Assumptions each_repair_necessary.
