(* Tie (T) for the local predicates of the graph searches -- shared part.
   The generated file Gen/Gen_Preds.v (written by /verif/translator/predicates.py from /repo on every run) holds, for every
   local predicate of pag.py / generic.py / semi_directed_paths.py, a boolean function of PAIR STATES.  This file defines the
   projection from a formal graph to the pair state of two nodes,

       pst g a b = (a->b in D, b->a in D, (a,b) in C, (b,a) in C, {a,b} in B, {a,b} in U),

   proves that the basic observations of the models (has_d / has_b / has_u / has_c, adjacent, fwd_any, mark, arrow_into, into)
   FACTOR THROUGH it, and provides the complete-case-analysis principles over one, two and three pair states
   (vm_compute over the explicit list of all 64 states, as C03/Proofs.v does).
   The per-property files Tie/Preds_C16.v, Preds_C17.v, Preds_C18.v, Preds_C06.v then prove, for each generated predicate,
   "GENERATED predicate (pst ...) = MODEL predicate" on every pair state of the property's domain: the pair states a PAG can
   hold ([valid_pag_ps], 18 of the 64; for C16 additionally no lone circle mark, 14 states: the eight pair kinds of MARKS with
   an undirected edge optionally added to the six circle / directed kinds); all 64 for C06 (ADMG: no invariant on pairs).
   States outside the domain are deliberately NOT constrained: a refactoring of /repo that changes a predicate only on mark
   combinations no PAG can hold keeps every lemma true.
   (One file per property so that a change of a predicate of one property breaks only that property's check.) *)
From Coq Require Import List Bool Arith.
From PG Require Import Base.ListSet Graph.MGraph C03.PState.
Import ListNotations.

(* ---------------- the projection ---------------- *)
Definition pst (g : mgraph) (a b : nat) : pstate :=
  PS (has_d g a b) (has_d g b a) (has_c g a b) (has_c g b a) (has_b g a b) (has_u g a b).

Lemma pst_flip g a b : pst g b a = flip (pst g a b).
Proof. unfold pst, flip. simpl. rewrite (has_b_sym g b a), (has_u_sym g b a). reflexivity. Qed.

(* the four layer tests, read off the pair state in either direction *)
Lemma has_pst_d g a b : has_d g a b = has (pst g a b) false LDir.  Proof. reflexivity. Qed.
Lemma has_pst_d' g a b : has_d g b a = has (pst g a b) true LDir.  Proof. reflexivity. Qed.
Lemma has_pst_c g a b : has_c g a b = has (pst g a b) false LCir.  Proof. reflexivity. Qed.
Lemma has_pst_c' g a b : has_c g b a = has (pst g a b) true LCir.  Proof. reflexivity. Qed.
Lemma has_pst_b g a b : has_b g a b = has (pst g a b) false LBid.  Proof. reflexivity. Qed.
Lemma has_pst_b' g a b : has_b g b a = has (pst g a b) true LBid.  Proof. simpl. apply has_b_sym. Qed.
Lemma has_pst_u g a b : has_u g a b = has (pst g a b) false LUnd.  Proof. reflexivity. Qed.
Lemma has_pst_u' g a b : has_u g b a = has (pst g a b) true LUnd.  Proof. simpl. apply has_u_sym. Qed.

(* adjacency of the models = "some mark in some layer" of the pair state *)
Definition adj_ps (s : pstate) : bool := dir_uv s || dir_vu s || bid s || und s || cir_uv s || cir_vu s.
Lemma adjacent_pst g a b : adjacent g a b = adj_ps (pst g a b).
Proof. reflexivity. Qed.

(* ---------------- the domains of the statements ---------------- *)
(* the pair states a PAG can hold: the invariant of property C03 (the same formula as C03/Model.valid_pag, which C03 proves
   for every PAG built through the API without edge_type="all"): a bidirected edge excludes every other mark, not both
   directions directed, never an arrowhead and a circle at the same end *)
Definition valid_pag_ps (s : pstate) : bool :=
  negb (bid s && (dir_uv s || dir_vu s || cir_uv s || cir_vu s)) &&
  negb (dir_uv s && dir_vu s) && negb (dir_uv s && cir_uv s) && negb (dir_vu s && cir_vu s).
Definition pag_pairs (g : mgraph) : Prop := forall a b, valid_pag_ps (pst g a b) = true.

(* C16's quantifier: a circle mark never stands alone (C16/Spec.no_lone_circle) *)
Definition no_lone_circle_ps (s : pstate) : bool :=
  (negb (cir_uv s) || cir_vu s || dir_vu s) && (negb (cir_vu s) || cir_uv s || dir_uv s).

(* ---------------- complete case analysis over one, two, three pair states ---------------- *)
Lemma forall_pstate2 (P : pstate -> pstate -> bool) :
  forallb (fun s => forallb (P s) all_pstates) all_pstates = true -> forall s t, P s t = true.
Proof.
  intros H s t. apply (forall_pstate (fun s => forallb (P s) all_pstates)) with (s := s) in H.
  exact (forall_pstate (P s) H t).
Qed.

Lemma forall_pstate3 (P : pstate -> pstate -> pstate -> bool) :
  forallb (fun s => forallb (fun t => forallb (P s t) all_pstates) all_pstates) all_pstates = true ->
  forall s t r, P s t r = true.
Proof.
  intros H s t r.
  apply (forall_pstate2 (fun s t => forallb (P s t) all_pstates)) with (s := s) (t := t) in H.
  exact (forall_pstate (P s t) H r).
Qed.

Lemma eqb_eq_bool (a b : bool) : Bool.eqb a b = true -> a = b.
Proof. destruct a, b; simpl; congruence. Qed.

(* the same, restricted to a domain D of pair states: "for all states in D" is a complete case analysis too *)
Lemma on_dom1 (D : pstate -> bool) (f h : pstate -> bool) :
  forallb (fun s => negb (D s) || Bool.eqb (f s) (h s)) all_pstates = true ->
  forall s, D s = true -> f s = h s.
Proof.
  intros H s Hs. pose proof (forall_pstate _ H s) as H'. cbv beta in H'.
  rewrite Hs in H'. simpl in H'. apply eqb_eq_bool. exact H'.
Qed.

Lemma on_dom2 (D : pstate -> bool) (f h : pstate -> pstate -> bool) :
  forallb (fun s => forallb (fun t => negb (D s) || negb (D t) || Bool.eqb (f s t) (h s t)) all_pstates) all_pstates = true ->
  forall s t, D s = true -> D t = true -> f s t = h s t.
Proof.
  intros H s t Hs Ht.
  pose proof (forall_pstate2 (fun s t => negb (D s) || negb (D t) || Bool.eqb (f s t) (h s t)) H s t) as H'.
  cbv beta in H'. rewrite Hs, Ht in H'. simpl in H'. apply eqb_eq_bool. exact H'.
Qed.

Lemma on_dom3 (D : pstate -> bool) (f h : pstate -> pstate -> pstate -> bool) :
  forallb (fun s => forallb (fun t => forallb (fun r =>
     negb (D s) || negb (D t) || negb (D r) || Bool.eqb (f s t r) (h s t r)) all_pstates) all_pstates) all_pstates = true ->
  forall s t r, D s = true -> D t = true -> D r = true -> f s t r = h s t r.
Proof.
  intros H s t r Hs Ht Hr.
  pose proof (forall_pstate3 (fun s t r => negb (D s) || negb (D t) || negb (D r) || Bool.eqb (f s t r) (h s t r)) H s t r) as H'.
  cbv beta in H'. rewrite Hs, Ht, Hr in H'. simpl in H'. apply eqb_eq_bool. exact H'.
Qed.

(* how many pair states the domains contain (so that "for all states in D" is not vacuous) *)
Lemma valid_pag_ps_count : length (filter valid_pag_ps all_pstates) = 18.
Proof. vm_compute. reflexivity. Qed.
Lemma marks_count : length (filter (fun s => valid_pag_ps s && no_lone_circle_ps s) all_pstates) = 14.
Proof. vm_compute. reflexivity. Qed.
