(* Tie (T), C06: _is_collider and the two parent helpers of generic.py, as translated from /repo into Gen/Gen_Preds.v,
   equal the node-level collider test [ncoll] / [into] of C06/NodeLevel.v on EVERY pair state.

   is_cpdag is the flag isinstance(G, CPDAG) read by _bidirected_sub_graph_neighbors; C06 passes ADMGs (is_cpdag = false).
   gen_is_collider false s t = into_ps s && into_ps t        into_ps s = dir_uv s || bid s
   gen_is_collider true  s t = dir_uv s && dir_uv t          (a CPDAG has no bidirected layer: recorded, not used by C06)
   gen_dir_parent s = dir_uv s ;  gen_bidir_nbr false s = bid s ;  gen_bidir_nbr true s = false. *)
From Coq Require Import List Bool Arith.
From PG Require Import Base.ListSet Graph.MGraph C03.PState Gen.Gen_Preds Tie.PredsProofs C06.NodeLevel.
Import ListNotations.

Definition into_ps (s : pstate) : bool := dir_uv s || bid s.

Lemma into_pst g a b : into g a b = into_ps (pst g a b).
Proof. reflexivity. Qed.
Lemma ncoll_pst g a b c : ncoll g a b c = into_ps (pst g a b) && into_ps (pst g c b).
Proof. reflexivity. Qed.

Lemma cells_C06 :
  gen_is_collider_enum = gen_is_collider_cells /\ gen_dir_parent_enum = gen_dir_parent_cells /\
  gen_bidir_nbr_enum = gen_bidir_nbr_cells.
Proof. repeat split; vm_compute; reflexivity. Qed.

Lemma is_collider_exact s t : gen_is_collider false s t = into_ps s && into_ps t.
Proof. apply eqb_eq_bool. revert s t. apply forall_pstate2. vm_compute. reflexivity. Qed.

Lemma is_collider_cpdag s t : gen_is_collider true s t = dir_uv s && dir_uv t.
Proof. apply eqb_eq_bool. revert s t. apply forall_pstate2. vm_compute. reflexivity. Qed.

Lemma parent_helpers_exact s :
  gen_dir_parent s = dir_uv s /\ gen_bidir_nbr false s = bid s /\ gen_bidir_nbr true s = false.
Proof. repeat split; apply eqb_eq_bool; revert s; apply forall_pstate; vm_compute; reflexivity. Qed.

(* _is_collider is "prev and next are both in parents(cur) u bidirected-neighbours(cur)" *)
Lemma is_collider_decomp b s t :
  gen_is_collider b s t = (gen_dir_parent s || gen_bidir_nbr b s) && (gen_dir_parent t || gen_bidir_nbr b t).
Proof.
  destruct b; apply eqb_eq_bool; revert s t; apply forall_pstate2; vm_compute; reflexivity.
Qed.

Definition repo_pred_is_collider_stmt : Prop :=
  forall g a b c,
    gen_is_collider false (pst g a b) (pst g c b) = ncoll g a b c /\
    gen_dir_parent (pst g a b) || gen_bidir_nbr false (pst g a b) = into g a b /\
    (* the test of _shortest_valid_path as modelled by [nok], written with the generated predicate *)
    (forall An L, nok g An L (Some a) b c =
                  if gen_is_collider false (pst g a b) (pst g c b) then memb b An else memb b L).

Lemma repo_pred_is_collider : repo_pred_is_collider_stmt.
Proof.
  intros g a b c. rewrite ncoll_pst, into_pst. split; [apply is_collider_exact|]. split.
  - destruct (parent_helpers_exact (pst g a b)) as [-> [-> _]]. reflexivity.
  - intros An L. unfold nok. rewrite ncoll_pst, is_collider_exact. reflexivity.
Qed.

Example repo_pred_is_collider_nonvacuous :
  let g := MkG [0;1;2] [(0,1);(1,2)] [(1,2)] [] [] in            (* 0 -> 1 <-> 2 and 1 -> 2 (a bow) *)
  gen_is_collider false (pst g 0 1) (pst g 2 1) = true /\ gen_is_collider false (pst g 1 2) (pst g 0 2) = false /\
  gen_is_collider true (pst g 0 1) (pst g 2 1) = false.
Proof. vm_compute. repeat split; reflexivity. Qed.
