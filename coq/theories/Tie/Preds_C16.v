(* Tie (T), C16: the local predicates of semi_directed_paths.py and of possible_ancestors / possible_descendants, as
   translated from /repo into Gen/Gen_Preds.v, equal the step predicate [semi_ok] of C16/Model.v.

   semi_ok g u v = semi_ok_ps (pst g u v)                                   (the model factors through the pair state)
   On every pair state of C16's domain -- a state a PAG can hold (valid_pag_ps) without a lone circle mark
   (Spec.no_lone_circle: the pairs of the quantifier are none, ->, <-, <->, --, o-o, o->, <-o) -- 14 of the 64 states:
     gen_semi_edge_ok s              = semi_ok_ps s          per-pair test of is_semi_directed_path
     gen_possibly_directed false s   = semi_ok_ps s          _possibly_directed(G, u, v)
     gen_possibly_directed true s    = semi_ok_ps (flip s)   _possibly_directed(G, u, v, reverse=True)   [= semi_ok g v u]
     gen_poss_desc_step s            = semi_ok_ps s          BFS step of possible_descendants
     gen_poss_anc_step s             = semi_ok_ps (flip s)   BFS step of possible_ancestors
     gen_semi_step_main s            = semi_ok_ps s          first arrowhead filter of _all_semi_directed_paths_graph
     gen_semi_step_cutoff s          = semi_ok_ps s          arrowhead filter of its cutoff branch
   Outside the domain nothing is claimed.  (Observed while building, on the current /repo: on a pair whose only mark is one
   circle, u o- v, all of these except gen_semi_edge_ok accept the step u -> v -- they test "neighbour and no arrowhead at
   u" -- while the model and is_semi_directed_path reject it -- "an edge leaves u".  Lone circles are outside C16's
   quantifier, so this is recorded here and not asserted.) *)
From Coq Require Import List Bool Arith.
From PG Require Import Base.ListSet Graph.MGraph C03.PState Gen.Gen_Preds Tie.PredsProofs C16.Model C16.Spec.
Import ListNotations.

(* ---------------- the model predicate on pair states ---------------- *)
Definition semi_ok_ps (s : pstate) : bool := has_any4 s false && negb (dir_vu s) && negb (bid s).

Lemma semi_ok_pst g u v : semi_ok g u v = semi_ok_ps (pst g u v).
Proof. unfold semi_ok, semi_ok_ps, fwd_any, has_any4. simpl. rewrite (has_b_sym g v u). reflexivity. Qed.

Lemma semi_ok_pst_rev g u v : semi_ok g v u = semi_ok_ps (flip (pst g u v)).
Proof. rewrite <- pst_flip. apply semi_ok_pst. Qed.

Lemma no_lone_circle_pst g : no_lone_circle g -> forall u v, no_lone_circle_ps (pst g u v) = true.
Proof.
  intros H u v. unfold no_lone_circle_ps. simpl. apply andb_true_iff. split.
  - destruct (has_c g u v) eqn:E; [|reflexivity]. simpl. apply H in E. destruct E as [E|E]; rewrite E.
    + reflexivity.
    + apply orb_true_r.
  - destruct (has_c g v u) eqn:E; [|reflexivity]. simpl. apply H in E. destruct E as [E|E]; rewrite E.
    + reflexivity.
    + apply orb_true_r.
Qed.

(* C16's domain of pair states *)
Definition dom16 (s : pstate) : bool := valid_pag_ps s && no_lone_circle_ps s.

Lemma dom16_pst g : pag_pairs g -> no_lone_circle g -> forall u v, dom16 (pst g u v) = true.
Proof. intros Hp Hn u v. unfold dom16. rewrite (Hp u v), (no_lone_circle_pst g Hn u v). reflexivity. Qed.

(* ---------------- the translator's evaluator and the printed Gallina agree (every cell, all 64 states) ---------------- *)
Lemma cells_C16 :
  gen_possibly_directed_enum = gen_possibly_directed_cells /\
  gen_poss_desc_step_enum = gen_poss_desc_step_cells /\
  gen_poss_anc_step_enum = gen_poss_anc_step_cells /\
  gen_semi_edge_ok_enum = gen_semi_edge_ok_cells /\
  gen_semi_step_main_enum = gen_semi_step_main_cells /\
  gen_semi_step_cutoff_enum = gen_semi_step_cutoff_cells.
Proof. repeat split; vm_compute; reflexivity. Qed.

(* ---------------- complete case analyses over the domain: generated = model ---------------- *)
Lemma possibly_directed_fwd_dom s : dom16 s = true -> gen_possibly_directed false s = semi_ok_ps s.
Proof. revert s. apply on_dom1. vm_compute. reflexivity. Qed.

Lemma possibly_directed_rev_dom s : dom16 s = true -> gen_possibly_directed true s = semi_ok_ps (flip s).
Proof. revert s. apply (on_dom1 dom16 (gen_possibly_directed true) (fun s => semi_ok_ps (flip s))). vm_compute. reflexivity. Qed.

Lemma poss_desc_step_dom s : dom16 s = true -> gen_poss_desc_step s = semi_ok_ps s.
Proof. revert s. apply on_dom1. vm_compute. reflexivity. Qed.

Lemma poss_anc_step_dom s : dom16 s = true -> gen_poss_anc_step s = semi_ok_ps (flip s).
Proof. revert s. apply (on_dom1 dom16 gen_poss_anc_step (fun s => semi_ok_ps (flip s))). vm_compute. reflexivity. Qed.

Lemma semi_edge_ok_dom s : dom16 s = true -> gen_semi_edge_ok s = semi_ok_ps s.
Proof. revert s. apply on_dom1. vm_compute. reflexivity. Qed.

Lemma semi_step_main_dom s : dom16 s = true -> gen_semi_step_main s = semi_ok_ps s.
Proof. revert s. apply on_dom1. vm_compute. reflexivity. Qed.

Lemma semi_step_cutoff_dom s : dom16 s = true -> gen_semi_step_cutoff s = semi_ok_ps s.
Proof. revert s. apply on_dom1. vm_compute. reflexivity. Qed.

(* ---------------- the statement over graphs (Props/C16.v) ---------------- *)
Definition repo_pred_semi_stmt : Prop :=
  forall g, pag_pairs g -> no_lone_circle g -> forall u v,
    gen_semi_edge_ok (pst g u v) = semi_ok g u v /\
    gen_possibly_directed false (pst g u v) = semi_ok g u v /\
    gen_possibly_directed true (pst g u v) = semi_ok g v u /\
    gen_poss_desc_step (pst g u v) = semi_ok g u v /\
    gen_poss_anc_step (pst g u v) = semi_ok g v u /\
    gen_semi_step_main (pst g u v) = semi_ok g u v /\
    gen_semi_step_cutoff (pst g u v) = semi_ok g u v.

Lemma repo_pred_semi : repo_pred_semi_stmt.
Proof.
  intros g Hp Hn u v. pose proof (dom16_pst g Hp Hn u v) as Hd.
  rewrite (semi_ok_pst g u v), (semi_ok_pst_rev g u v).
  repeat split.
  - apply semi_edge_ok_dom, Hd.
  - apply possibly_directed_fwd_dom, Hd.
  - apply possibly_directed_rev_dom, Hd.
  - apply poss_desc_step_dom, Hd.
  - apply poss_anc_step_dom, Hd.
  - apply semi_step_main_dom, Hd.
  - apply semi_step_cutoff_dom, Hd.
Qed.

(* hence the model's possible-descendant / possible-ancestor searches step along the generated predicate *)
Definition repo_pred_poss_step_filters_stmt : Prop :=
  forall g, pag_pairs g -> no_lone_circle g -> forall v,
    filter (fun w => semi_ok g v w) (V g) = filter (fun w => gen_poss_desc_step (pst g v w)) (V g) /\
    filter (fun w => semi_ok g w v) (V g) = filter (fun w => gen_poss_anc_step (pst g v w)) (V g).

Lemma repo_pred_poss_step_filters : repo_pred_poss_step_filters_stmt.
Proof.
  intros g Hp Hn v. split; apply filter_ext; intros w; destruct (repo_pred_semi g Hp Hn v w) as [_ [_ [_ [A [B _]]]]];
    congruence.
Qed.

(* the hypotheses are satisfiable on a non-trivial graph: 0 o-> 1 <-> 2, 0 o-o 2 *)
Example repo_pred_semi_nonvacuous :
  let g := MkG [0; 1; 2] [(0, 1)] [(1, 2)] [] [(1, 0); (0, 2); (2, 0)] in
  no_lone_circle g /\
  forallb (fun a => forallb (fun b => valid_pag_ps (pst g a b)) [0;1;2]) [0;1;2] = true /\
  gen_possibly_directed false (pst g 0 1) = true /\ gen_possibly_directed false (pst g 1 2) = false /\
  gen_semi_step_main (pst g 0 2) = true /\ gen_semi_step_main (pst g 1 0) = false.
Proof.
  simpl. split; [|vm_compute; repeat split; reflexivity].
  intros u v H. unfold has_c in H. apply pmemb_In in H. simpl in H.
  destruct H as [H|[H|[H|[]]]]; inversion H; subst; vm_compute; auto.
Qed.
