(* Tie (T), C16: the local predicates of semi_directed_paths.py and of possible_ancestors / possible_descendants, as
   translated from /repo into Gen/Gen_Preds.v, equal the step predicate [semi_ok] of C16/Model.v.

   semi_ok g u v = semi_ok_ps (pst g u v)                                   (the model factors through the pair state)
   gen_semi_edge_ok                = semi_ok_ps            on all 64 pair states
   gen_possibly_directed false     = semi_ok_ps            on all pair states except lone_vu (only a circle at u: u o- v)
   gen_possibly_directed true  s   = semi_ok_ps (flip s)   on all pair states except lone_uv (only a circle at v: u -o v)
   gen_poss_desc_step / gen_poss_anc_step / gen_semi_step_main / gen_semi_step_cutoff: the same, with the same exception.
   On the excepted state the code accepts the step and the model rejects it (the code tests "neighbour and no arrowhead at
   the near end", the model "an edge leaves u and no arrowhead at the near end").  These are exactly the states excluded
   by C16's quantifier (Spec.no_lone_circle: MARKS pairs are none, ->, <-, <->, --, o-o, o->, <-o), so on the graphs of
   the property generated predicate = model predicate, for every pair. *)
From Coq Require Import List Bool Arith.
From PG Require Import Base.ListSet Graph.MGraph C03.PState Gen.Gen_Preds Tie.PredsProofs C16.Model C16.Spec.
Import ListNotations.

(* ---------------- the model predicate on pair states ---------------- *)
Definition semi_ok_ps (s : pstate) : bool := has_any4 s false && negb (dir_vu s) && negb (bid s).

Lemma semi_ok_pst g u v : semi_ok g u v = semi_ok_ps (pst g u v).
Proof. unfold semi_ok, semi_ok_ps, fwd_any, has_any4. simpl. rewrite (has_b_sym g v u). reflexivity. Qed.

Lemma semi_ok_pst_rev g u v : semi_ok g v u = semi_ok_ps (flip (pst g u v)).
Proof. rewrite <- pst_flip. apply semi_ok_pst. Qed.

Lemma no_lone_circle_pst g : no_lone_circle g -> forall u v, no_lone_circle_ps (pst g u v) = true.
Proof.
  intros H u v. unfold no_lone_circle_ps. simpl. apply andb_true_iff. split.
  - destruct (has_c g u v) eqn:E; [|reflexivity]. simpl. apply H in E. destruct E as [E|E]; rewrite E.
    + reflexivity.
    + apply orb_true_r.
  - destruct (has_c g v u) eqn:E; [|reflexivity]. simpl. apply H in E. destruct E as [E|E]; rewrite E.
    + reflexivity.
    + apply orb_true_r.
Qed.

Lemma no_lone_not_lone s : no_lone_circle_ps s = true -> pstate_eqb s lone_vu = false /\ pstate_eqb s lone_uv = false.
Proof.
  intros H.
  assert (A : negb (no_lone_circle_ps s) || (negb (pstate_eqb s lone_vu) && negb (pstate_eqb s lone_uv)) = true).
  { revert s H. intros s _. revert s. apply forall_pstate. vm_compute. reflexivity. }
  rewrite H in A. simpl in A. apply andb_true_iff in A. destruct A as [A B].
  apply negb_true_iff in A. apply negb_true_iff in B. tauto.
Qed.

(* ---------------- the translator's evaluator and the printed Gallina agree (every cell) ---------------- *)
Lemma cells_C16 :
  gen_possibly_directed_enum = gen_possibly_directed_cells /\
  gen_poss_desc_step_enum = gen_poss_desc_step_cells /\
  gen_poss_anc_step_enum = gen_poss_anc_step_cells /\
  gen_semi_edge_ok_enum = gen_semi_edge_ok_cells /\
  gen_semi_step_main_enum = gen_semi_step_main_cells /\
  gen_semi_step_cutoff_enum = gen_semi_step_cutoff_cells.
Proof. repeat split; vm_compute; reflexivity. Qed.

(* ---------------- complete case analyses: generated = model, with the exact exception set ---------------- *)
Lemma possibly_directed_fwd_exact s : gen_possibly_directed false s = semi_ok_ps s || pstate_eqb s lone_vu.
Proof. apply eqb_eq_bool. revert s. apply forall_pstate. vm_compute. reflexivity. Qed.

Lemma possibly_directed_rev_exact s : gen_possibly_directed true s = semi_ok_ps (flip s) || pstate_eqb s lone_uv.
Proof. apply eqb_eq_bool. revert s. apply forall_pstate. vm_compute. reflexivity. Qed.

Lemma poss_desc_step_exact s : gen_poss_desc_step s = semi_ok_ps s || pstate_eqb s lone_vu.
Proof. apply eqb_eq_bool. revert s. apply forall_pstate. vm_compute. reflexivity. Qed.

Lemma poss_anc_step_exact s : gen_poss_anc_step s = semi_ok_ps (flip s) || pstate_eqb s lone_uv.
Proof. apply eqb_eq_bool. revert s. apply forall_pstate. vm_compute. reflexivity. Qed.

Lemma semi_edge_ok_exact s : gen_semi_edge_ok s = semi_ok_ps s.
Proof. apply eqb_eq_bool. revert s. apply forall_pstate. vm_compute. reflexivity. Qed.

Lemma semi_step_main_exact s : gen_semi_step_main s = semi_ok_ps s || pstate_eqb s lone_vu.
Proof. apply eqb_eq_bool. revert s. apply forall_pstate. vm_compute. reflexivity. Qed.

Lemma semi_step_cutoff_exact s : gen_semi_step_cutoff s = semi_ok_ps s || pstate_eqb s lone_vu.
Proof. apply eqb_eq_bool. revert s. apply forall_pstate. vm_compute. reflexivity. Qed.

(* the BFS step handed to single_source_shortest_mixed_path is the neighbour test and _possibly_directed with the flag
   each caller fixes *)
Lemma poss_steps_are_possibly_directed s :
  gen_poss_desc_step s = nbr s && gen_possibly_directed false s /\
  gen_poss_anc_step s = nbr s && gen_possibly_directed true s.
Proof.
  split; apply eqb_eq_bool; revert s; apply forall_pstate; vm_compute; reflexivity.
Qed.

(* ---------------- statements over graphs (used by Props/C16.v) ---------------- *)
(* every pair, every graph: the only deviation is the lone-circle pair *)
Definition repo_pred_semi_exact_stmt : Prop :=
  forall g u v,
    gen_semi_edge_ok (pst g u v) = semi_ok g u v /\
    gen_possibly_directed false (pst g u v) = semi_ok g u v || pstate_eqb (pst g u v) lone_vu /\
    gen_possibly_directed true (pst g u v) = semi_ok g v u || pstate_eqb (pst g u v) lone_uv /\
    gen_poss_desc_step (pst g u v) = semi_ok g u v || pstate_eqb (pst g u v) lone_vu /\
    gen_poss_anc_step (pst g u v) = semi_ok g v u || pstate_eqb (pst g u v) lone_uv /\
    gen_semi_step_main (pst g u v) = semi_ok g u v || pstate_eqb (pst g u v) lone_vu /\
    gen_semi_step_cutoff (pst g u v) = semi_ok g u v || pstate_eqb (pst g u v) lone_vu.

Lemma repo_pred_semi_exact : repo_pred_semi_exact_stmt.
Proof.
  intros g u v. rewrite (semi_ok_pst g u v), (semi_ok_pst_rev g u v).
  repeat split.
  - apply semi_edge_ok_exact.
  - apply possibly_directed_fwd_exact.
  - apply possibly_directed_rev_exact.
  - apply poss_desc_step_exact.
  - apply poss_anc_step_exact.
  - apply semi_step_main_exact.
  - apply semi_step_cutoff_exact.
Qed.

(* on the graphs of C16's quantifier: generated predicate = model predicate *)
Definition repo_pred_semi_stmt : Prop :=
  forall g, no_lone_circle g -> forall u v,
    gen_semi_edge_ok (pst g u v) = semi_ok g u v /\
    gen_possibly_directed false (pst g u v) = semi_ok g u v /\
    gen_possibly_directed true (pst g u v) = semi_ok g v u /\
    gen_poss_desc_step (pst g u v) = semi_ok g u v /\
    gen_poss_anc_step (pst g u v) = semi_ok g v u /\
    gen_semi_step_main (pst g u v) = semi_ok g u v /\
    gen_semi_step_cutoff (pst g u v) = semi_ok g u v.

Lemma repo_pred_semi : repo_pred_semi_stmt.
Proof.
  intros g H u v. destruct (repo_pred_semi_exact g u v) as [A [B [C [D [E [F G]]]]]].
  destruct (no_lone_not_lone _ (no_lone_circle_pst g H u v)) as [N1 N2].
  rewrite N1 in B, D, F, G. rewrite N2 in C, E. rewrite orb_false_r in B, C, D, E, F, G. tauto.
Qed.

(* the exception is real: on u o- v (only C (v,u)) the code takes the step u -> v, the model does not *)
Definition lone_graph : mgraph := MkG [0; 1] [] [] [] [(1, 0)].
Lemma repo_pred_semi_lone_circle_differs :
  pst lone_graph 0 1 = lone_vu /\ semi_ok lone_graph 0 1 = false /\
  gen_possibly_directed false (pst lone_graph 0 1) = true /\ gen_semi_step_main (pst lone_graph 0 1) = true /\
  gen_semi_edge_ok (pst lone_graph 0 1) = false.
Proof. vm_compute. repeat split; reflexivity. Qed.

(* hypotheses are satisfiable on a non-trivial graph: 0 o-> 1 <-> 2, 0 o-o 2 *)
Example repo_pred_semi_nonvacuous :
  let g := MkG [0; 1; 2] [(0, 1)] [(1, 2)] [] [(1, 0); (0, 2); (2, 0)] in
  no_lone_circle g /\ gen_possibly_directed false (pst g 0 1) = true /\ gen_possibly_directed false (pst g 1 2) = false /\
  gen_semi_step_main (pst g 0 2) = true /\ gen_semi_step_main (pst g 1 0) = false.
Proof.
  simpl. split; [|vm_compute; repeat split; reflexivity].
  intros u v H. unfold has_c in H. apply pmemb_In in H. simpl in H.
  destruct H as [H|[H|[H|[]]]]; inversion H; subst; vm_compute; auto.
Qed.
