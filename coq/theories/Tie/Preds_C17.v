(* Tie (T), C17: is_definite_collider (pag.py) and the triple test inside pds, as translated from /repo into
   Gen/Gen_Preds.v, equal [collider3] / [triple_ok] of C17/Model.v on every pair state a PAG can hold.

   collider3 g a b c = into_ps (pst g a b) && into_ps (pst g c b)            into_ps s = dir_uv s || bid s
   triple_ok g a b c = collider3 g a b c || adj_ps (pst g a c)
   for all s t r with valid_pag_ps (18 of the 64 states each):
     gen_is_definite_collider s t = into_ps s && into_ps t
     gen_pds_triple s t r         = into_ps s && into_ps t || adj_ps r
   so on a graph all of whose pairs are PAG pairs the filter of the model's search step [pds_next] (and of the as-is
   search [pds_asis_next]) is literally the generated test applied to the three pair states of (prev, this, next). *)
From Coq Require Import List Bool Arith.
From PG Require Import Base.ListSet Graph.MGraph C03.PState Gen.Gen_Preds Tie.PredsProofs C17.Model.
Import ListNotations.

Definition into_ps (s : pstate) : bool := dir_uv s || bid s.      (* an arrowhead at v on some edge u *-> v *)

Lemma arrow_into_pst g a b : arrow_into g a b = into_ps (pst g a b).
Proof. reflexivity. Qed.
Lemma collider3_pst g a b c : collider3 g a b c = into_ps (pst g a b) && into_ps (pst g c b).
Proof. reflexivity. Qed.
Lemma triple_ok_pst g a b c : triple_ok g a b c = into_ps (pst g a b) && into_ps (pst g c b) || adj_ps (pst g a c).
Proof. reflexivity. Qed.

Lemma cells_C17 :
  gen_is_definite_collider_enum = gen_is_definite_collider_cells /\ gen_pds_triple_enum = gen_pds_triple_cells.
Proof. split; vm_compute; reflexivity. Qed.

Lemma definite_collider_dom s t :
  valid_pag_ps s = true -> valid_pag_ps t = true -> gen_is_definite_collider s t = into_ps s && into_ps t.
Proof.
  revert s t. apply (on_dom2 valid_pag_ps gen_is_definite_collider (fun s t => into_ps s && into_ps t)).
  vm_compute. reflexivity.
Qed.

Lemma pds_triple_dom s t r :
  valid_pag_ps s = true -> valid_pag_ps t = true -> valid_pag_ps r = true ->
  gen_pds_triple s t r = into_ps s && into_ps t || adj_ps r.
Proof.
  revert s t r. apply (on_dom3 valid_pag_ps gen_pds_triple (fun s t r => into_ps s && into_ps t || adj_ps r)).
  vm_compute. reflexivity.
Qed.

Definition repo_pred_pds_stmt : Prop :=
  forall g, pag_pairs g -> forall a b c,
    gen_is_definite_collider (pst g a b) (pst g c b) = collider3 g a b c /\
    gen_pds_triple (pst g a b) (pst g c b) (pst g a c) = triple_ok g a b c.

Lemma repo_pred_pds : repo_pred_pds_stmt.
Proof.
  intros g Hp a b c. rewrite collider3_pst, triple_ok_pst. split.
  - apply definite_collider_dom; apply Hp.
  - apply pds_triple_dom; apply Hp.
Qed.

(* the search steps of the model and of the order-faithful as-is model, written with the generated test *)
Definition repo_pred_pds_next_stmt : Prop :=
  forall g, pag_pairs g -> forall x yo p c,
    pds_next g x yo p c =
      filter (fun w => adjacent g c w && negb (Nat.eqb w p) && negb (Nat.eqb w x) && negb (is_y yo w)
                       && gen_pds_triple (pst g p c) (pst g w c) (pst g p w)) (V g) /\
    pds_asis_next g x yo c =
      filter (fun w => adjacent g c w && negb (Nat.eqb w x) && negb (is_y yo w)
                       && gen_pds_triple (pst g x c) (pst g w c) (pst g x w)) (V g).

Lemma repo_pred_pds_next : repo_pred_pds_next_stmt.
Proof.
  intros g Hp x yo p c. unfold pds_next, pds_asis_next. split; apply filter_ext; intros w;
    rewrite (proj2 (repo_pred_pds g Hp _ c w)); reflexivity.
Qed.

(* non-trivial instances (all pairs PAG pairs): 0 -> 1 <-> 2 is a collider; 0 o-o 1 o-o 2 with 0 -- 2 only a triangle;
   0 o-o 1 o-o 2 neither *)
Example repo_pred_pds_nonvacuous :
  let g1 := MkG [0;1;2] [(0,1)] [(1,2)] [] [] in
  let g2 := MkG [0;1;2] [] [] [(0,2)] [(0,1);(1,0);(1,2);(2,1)] in
  let g3 := MkG [0;1;2] [] [] [] [(0,1);(1,0);(1,2);(2,1)] in
  forallb (fun g => forallb (fun a => forallb (fun b => valid_pag_ps (pst g a b)) [0;1;2]) [0;1;2]) [g1; g2; g3] = true /\
  gen_pds_triple (pst g1 0 1) (pst g1 2 1) (pst g1 0 2) = true /\
  gen_pds_triple (pst g2 0 1) (pst g2 2 1) (pst g2 0 2) = true /\
  gen_pds_triple (pst g3 0 1) (pst g3 2 1) (pst g3 0 2) = false.
Proof. vm_compute. repeat split; reflexivity. Qed.
