(* Tie (T), C18: the nested edge test _pd_edge of uncovered_pd_path (pag.py), as translated from /repo into
   Gen/Gen_Preds.v, equals [pd_edge] of C18/Model.v (which c18_pd_edge_words identifies with the wording of the property).

   pd_edge g fc a b = pd_edge_ps fc (pst g a b)                           (the model factors through the pair state)
   for every pair state s a PAG can hold (valid_pag_ps, 18 of the 64 states) and both values of force_circle:
     gen_pd_edge fc s = pd_edge_ps fc s
   Outside that domain nothing is claimed (on a -> b with circles at both ends, i.e. arrowhead AND circle at b, the current
   code answers "circle edge" and the model, which reads the arrowhead first, answers no -- a state C03 proves no PAG holds). *)
From Coq Require Import List Bool Arith.
From PG Require Import Base.ListSet Graph.MGraph C03.PState Gen.Gen_Preds Tie.PredsProofs C18.Model C18.Spec C18.Proofs.
Import ListNotations.

Definition mark_ps (s : pstate) : option mk :=
  if dir_uv s || bid s then Some Arrow else if cir_uv s then Some Circle else if adj_ps s then Some Tail else None.

Lemma mark_pst g a b : mark g a b = mark_ps (pst g a b).
Proof. reflexivity. Qed.
Lemma mark_pst_rev g a b : mark g b a = mark_ps (flip (pst g a b)).
Proof. rewrite <- pst_flip. reflexivity. Qed.

Definition pd_edge_ps (fc : bool) (s : pstate) : bool :=
  if fc then is_mk Circle (mark_ps (flip s)) && is_mk Circle (mark_ps s)
  else negb (is_mk Arrow (mark_ps (flip s))) && (is_mk Arrow (mark_ps s) || is_mk Circle (mark_ps s)).

Lemma pd_edge_pst g fc a b : pd_edge g fc a b = pd_edge_ps fc (pst g a b).
Proof. unfold pd_edge, pd_edge_ps. rewrite mark_pst_rev, mark_pst. reflexivity. Qed.

Lemma cells_C18 : gen_pd_edge_enum = gen_pd_edge_cells.
Proof. vm_compute. reflexivity. Qed.

Lemma pd_edge_dom fc s : valid_pag_ps s = true -> gen_pd_edge fc s = pd_edge_ps fc s.
Proof. revert s. destruct fc; apply on_dom1; vm_compute; reflexivity. Qed.

Definition repo_pred_pd_edge_stmt : Prop :=
  forall g, pag_pairs g -> forall fc a b, gen_pd_edge fc (pst g a b) = pd_edge g fc a b.

Lemma repo_pred_pd_edge : repo_pred_pd_edge_stmt.
Proof. intros g Hp fc a b. rewrite pd_edge_pst. apply pd_edge_dom, Hp. Qed.

(* in the words of the property (c18_pd_edge_words) *)
Definition repo_pred_pd_edge_words_stmt : Prop :=
  forall g, pag_pairs g -> forall fc a b, gen_pd_edge fc (pst g a b) = true <-> pd_edge_def g fc a b.

Lemma repo_pred_pd_edge_words : repo_pred_pd_edge_words_stmt.
Proof. intros g Hp fc a b. rewrite <- C18.Proofs.pd_edge_words, (repo_pred_pd_edge g Hp). tauto. Qed.

(* the updp search model filters its neighbours with the generated test *)
Definition repo_pred_pd_edge_paths_stmt : Prop :=
  forall g, pag_pairs g -> forall fc p,
    pairs_b (pd_edge g fc) p = pairs_b (fun a b => gen_pd_edge fc (pst g a b)) p.

Lemma repo_pred_pd_edge_paths : repo_pred_pd_edge_paths_stmt.
Proof.
  intros g Hp fc p. induction p as [|x [|y t] IH]; try reflexivity.
  change (pd_edge g fc x y && pairs_b (pd_edge g fc) (y :: t) =
          gen_pd_edge fc (pst g x y) && pairs_b (fun a b => gen_pd_edge fc (pst g a b)) (y :: t)).
  rewrite IH, (repo_pred_pd_edge g Hp). reflexivity.
Qed.

Example repo_pred_pd_edge_nonvacuous :
  let g := MkG [0;1;2] [(0,1)] [] [] [(1,0);(1,2);(2,1)] in       (* 0 o-> 1 o-o 2 *)
  forallb (fun a => forallb (fun b => valid_pag_ps (pst g a b)) [0;1;2]) [0;1;2] = true /\
  gen_pd_edge false (pst g 0 1) = true /\ gen_pd_edge true (pst g 0 1) = false /\
  gen_pd_edge true (pst g 1 2) = true /\ gen_pd_edge false (pst g 1 0) = false.
Proof. vm_compute. repeat split; reflexivity. Qed.
