(* Tie (T) for C01: the transition rules GENERATED from the source of m_separated (Gen/Gen_SepStep.v, rewritten from
   $VERIF_REPO on every check by translator/sepstep.py) are the rules of the hand-written model C01.Model.sep_step, so every
   theorem of C01 holds for the model built from the generated step.

     repo_sep_step_eq          gen_sep_step g Z anZ s  and  sep_step g Z anZ s  have the same members (all g, Z, anZ, s)
     repo_switch_sound         switching a layer off (has_* = false) changes nothing when that layer is empty
                               (the model reads "layer absent" as "layer empty")
     repo_sep_init_eq          initial deque contents = bwd X
     repo_visited_discipline   every push into deque D is guarded by `not in D_visited` and every pop from D marks D_visited
                               (the side condition under which replacing the deque discipline by a closure is harmless;
                               the closure argument itself is informal and watched by the correspondence stream)
     repo_msep_model_eq        the model built from the generated step and initial states equals msep_model
     repo_msep_model_correct   = msep_correct for that model
   If /repo's loop changes (a push to the other deque, a different guard, a missing branch) these proofs stop compiling. *)
From Coq Require Import List Arith Bool Lia.
From PG Require Import Base.ListSet Base.Closure Graph.MGraph Graph.MSep Graph.Walks C01.Model C01.Spec C01.Proofs Gen.Gen_SepStep.
Import ListNotations.

Ltac norm_in := repeat (rewrite in_app_iff || rewrite app_nil_r); cbn [In]; try tauto.

Theorem repo_sep_step_eq : forall g Z anZ s a, In a (gen_sep_step g Z anZ s) <-> In a (sep_step g Z anZ s).
Proof.
  intros g Z anZ [v h] a. unfold gen_sep_step, gen_sep_step_sw, sep_step. cbn [fst snd].
  destruct h, (memb v Z), (memb v anZ); cbn [negb]; norm_in.
Qed.

Lemma smemb_nil a b : smemb a b [] = false.
Proof. reflexivity. Qed.

Lemma no_D_parents g v : D g = [] -> parents g v = [].
Proof. intros H. unfold parents, has_d. rewrite H. induction (V g); [reflexivity|exact IHl]. Qed.
Lemma no_D_children g v : D g = [] -> children g v = [].
Proof. intros H. unfold children, has_d. rewrite H. induction (V g); [reflexivity|exact IHl]. Qed.
Lemma no_B_siblings g v : B g = [] -> siblings g v = [].
Proof. intros H. unfold siblings, has_b. rewrite H. induction (V g); [reflexivity|exact IHl]. Qed.
Lemma no_U_unbrs g v : U g = [] -> unbrs g v = [].
Proof. intros H. unfold unbrs, has_u. rewrite H. induction (V g); [reflexivity|exact IHl]. Qed.

Theorem repo_switch_sound : forall hd hb hu g Z anZ s a,
  (hd = false -> D g = []) -> (hb = false -> B g = []) -> (hu = false -> U g = []) ->
  (In a (gen_sep_step_sw hd hb hu g Z anZ s) <-> In a (sep_step g Z anZ s)).
Proof.
  intros hd hb hu g Z anZ [v h] a Hd Hb Hu. unfold gen_sep_step_sw, sep_step. cbn [fst snd].
  assert (Ep : hd = false -> parents g v = [] /\ children g v = []).
  { intros E. split; [apply no_D_parents|apply no_D_children]; auto. }
  assert (Es : hb = false -> siblings g v = []). { intros E. apply no_B_siblings; auto. }
  assert (Eu : hu = false -> unbrs g v = []). { intros E. apply no_U_unbrs; auto. }
  destruct hd; [clear Ep|destruct (Ep eq_refl) as [-> ->]];
  (destruct hb; [clear Es|rewrite (Es eq_refl)]);
  (destruct hu; [clear Eu|rewrite (Eu eq_refl)]);
  destruct h, (memb v Z), (memb v anZ); cbn [negb bwd fwd map app]; norm_in.
Qed.

Theorem repo_sep_init_eq : forall X a, In a (gen_sep_init X) <-> In a (bwd X).
Proof. intros X a. unfold gen_sep_init. cbn [fwd map]. norm_in. Qed.

Theorem repo_visited_discipline : gen_visited_ok = true.
Proof. reflexivity. Qed.

(* ---- the model built from the generated rules *)
Definition repo_sep_reach (g : mgraph) (X Z : list nat) : list state :=
  closure state_eqb (gen_sep_step g Z (anc_of g Z)) (gen_sep_init X) (2 * length (V g)).

Definition repo_msep_model (g : mgraph) (X Y Z : list nat) : option bool :=
  if acyclicb g then Some (negb (existsb (fun s => memb (fst s) Y) (repo_sep_reach g X Z))) else None.

Lemma reach_ext {A} (st1 st2 : A -> list A) (i1 i2 : list A) :
  (forall s a, In a (st1 s) <-> In a (st2 s)) -> (forall a, In a i1 <-> In a i2) ->
  forall a, reach st1 i1 a -> reach st2 i2 a.
Proof.
  intros Hs Hi a R. induction R as [b Hb|b c R IH Hc].
  - apply reach_init. apply Hi. exact Hb.
  - apply reach_step with b; [exact IH|]. apply Hs. exact Hc.
Qed.

Lemma repo_sep_reach_eq g X Z s : incl X (V g) -> incl Z (V g) ->
  (In s (repo_sep_reach g X Z) <-> In s (sep_reach g X Z)).
Proof.
  intros HX HZ. rewrite (sep_reach_spec g X Z s HX HZ). unfold repo_sep_reach.
  assert (H : In s (closure state_eqb (gen_sep_step g Z (anc_of g Z)) (gen_sep_init X) (2 * length (V g))) <->
              reach (gen_sep_step g Z (anc_of g Z)) (gen_sep_init X) s).
  { apply closure_spec with (univ := bwd (V g) ++ fwd (V g)).
    - apply state_eqb_eq.
    - intros [a h] _ [b h'] Hb. apply repo_sep_step_eq in Hb. apply (sep_step_spec g Z a h b h' HZ) in Hb.
      destruct Hb as [k [Hb _]]. apply in_or_app. destruct h'; [right; apply In_fwd|left; apply In_bwd]; auto.
    - intros [a h] Ha. apply repo_sep_init_eq in Ha. apply In_bwd in Ha. destruct Ha as [-> Ha].
      apply in_or_app. left. apply In_bwd. auto.
    - unfold bwd, fwd. rewrite app_length, !map_length. lia. }
  rewrite H. split; apply reach_ext.
  - intros; apply repo_sep_step_eq.
  - apply repo_sep_init_eq.
  - intros; symmetry; apply repo_sep_step_eq.
  - intros; symmetry; apply repo_sep_init_eq.
Qed.

Lemma existsb_ext_In {A} (f : A -> bool) (l m : list A) :
  (forall a, In a l <-> In a m) -> existsb f l = existsb f m.
Proof.
  intros H. destruct (existsb f l) eqn:E1, (existsb f m) eqn:E2; try reflexivity.
  - apply existsb_exists in E1. destruct E1 as [a [Ha Hf]]. apply H in Ha.
    assert (existsb f m = true) by (apply existsb_exists; eauto). congruence.
  - apply existsb_exists in E2. destruct E2 as [a [Ha Hf]]. apply H in Ha.
    assert (existsb f l = true) by (apply existsb_exists; eauto). congruence.
Qed.

Theorem repo_msep_model_eq : forall g X Y Z, incl X (V g) -> incl Z (V g) ->
  repo_msep_model g X Y Z = msep_model g X Y Z.
Proof.
  intros g X Y Z HX HZ. unfold repo_msep_model, msep_model. destruct (acyclicb g); [|reflexivity].
  f_equal. f_equal. apply existsb_ext_In. intros s. apply repo_sep_reach_eq; assumption.
Qed.

Theorem repo_msep_model_correct : forall g X Y Z,
  acyclicb g = true -> (U g = [] \/ ancestral_und g) ->
  incl X (V g) -> incl Z (V g) -> disjoint X Y -> disjoint X Z ->
  (repo_msep_model g X Y Z = Some true <-> msep g X Y Z).
Proof.
  intros g X Y Z Hacy Hanc HX HZ HXY HXZ. rewrite (repo_msep_model_eq g X Y Z HX HZ).
  apply msep_correct; assumption.
Qed.
