#!/venv/bin/python
"""Regenerates MANIFEST.json from the property modules present under harness/ (run after adding a property)."""
import ast
import json
import os

V = os.path.dirname(os.path.abspath(__file__))
props = [json.loads(l) for l in open(os.path.join(V, "properties.jsonl"))]


def consts(path):
    out = {}
    for node in ast.parse(open(path).read()).body:
        if isinstance(node, ast.Assign) and len(node.targets) == 1 and isinstance(node.targets[0], ast.Name):
            try:
                out[node.targets[0].id] = ast.literal_eval(node.value)
            except Exception:
                pass
    return out


checks, na = [], []
for p in props:
    pid = p["id"]
    mod = os.path.join(V, "harness", pid.lower() + ".py")
    thm = os.path.join(V, "coq", "theories", "Props", pid + ".v")
    if os.path.exists(mod) and os.path.exists(thm):
        c = consts(mod)
        checks.append({
            "property_id": pid,
            "quick_cmd": "./check %s --tier quick" % pid,
            "thorough_cmd": "./check %s --tier thorough" % pid,
            "evidence_file": "/verif/evidence/%s.json" % pid,
            "replay_cmd_template": "./check %s --replay {path}" % pid,
            "engine": "coq-proof+correspondence",
            "level_claimed": {
                "category": "proof",
                "text": c.get("LEVEL_TEXT", "Coq theorems about an executable Gallina model (coq/theories/%s, Props/%s.v) tied to /repo by "
                                            "differential correspondence of the extracted model on exhaustive small and seeded random inputs." % (pid, pid)),
                "design_ref": "DESIGN.md section 5, " + pid},
            "level_note": c.get("LEVEL_NOTE", "Trusted: Coq kernel (vm_compute, no native_compute), extraction (ExtrOcamlBasic only) + "
                                              "driver.ml, the Python correspondence harness; networkx is modelled, not verified."),
            "technique": c.get("TECHNIQUE", "Coq proof about a Gallina model + extracted-model correspondence with the implementation"),
        })
    else:
        na.append({"property_id": pid, "reason": "no check registered yet in this round: model/proofs/harness for it are still being built (see DESIGN.md section 5 for the plan)"})

man = {
    "version": 1,
    "setup_cmd": "./setup.sh",
    "hooks": {"guard": "PYWHY_GRAPHS_VERIF", "enable": "no hooks are needed: every observation goes through the public API (PYTHONPATH=/repo)",
              "baseline_off_cmd": "/verif/baseline_check.sh /repo", "source_commits": [], "add_only": True},
    "engines": [{"name": "coq-proof+correspondence", "path": "/verif/check",
                 "serves_properties": [c["property_id"] for c in checks],
                 "kind_free_text": "Coq 8.16.1 development under coq/theories (full .vo build), models extracted to OCaml (bin/cxx) and "
                                   "compared with /repo by harness/framework.py; a sample is re-evaluated by vm_compute inside Coq"}],
    "checks": checks,
    "not_applicable": na,
    "notes": "See DESIGN.md. KNOWN_FINDINGS.json lists fixed and recorded defects.",
}
json.dump(man, open(os.path.join(V, "MANIFEST.json"), "w"), indent=1)
print("claimed:", [c["property_id"] for c in checks], "unclaimed:", len(na))
