"""C01 — m_separated decides m-separation (boolean / raises), symmetric in X,Y, does not mutate G.

Model side: bin/c01 = extracted C01/Run.run_case: per case the class flags [wf, acyclic, ancestral_und] of the graph and per
query [model result (0/1/2=raises), query_ok, brute-force oracle msep_dec].  The flags are the boolean hypotheses of
Props/C01.msep_correct_b, so a case with all flags true lies in the domain of the theorem (checked for every case).
Implementation side: m_separated(G,X,Y,Z) and m_separated(G,Y,X,Z) on a MixedEdgeGraph built with the listed layers, under a
per-case random insertion order of nodes and edges (the answer of a correct search does not depend on it; a wrong visited-set
test does), snapshot of G before/after."""
import itertools
import graphs as gr

PROP = "C01"
RULE = ("REPEAT protocol (field rep): the object first represents a neighbour graph (one edge reversed / moved, same counts), answers the same queries, is edited in place into the target graph and only then judged - on every n<=3 graph, every DAG(4), every 8th ADMG(4), a quarter of the random graphs; custom layer names (dir/bidir/undir, names passed explicitly) on every n<=3 graph and a tenth of the random ones; the swapped call (Y,X) on every query except in the ADMG(4)/DAG(5) singleton streams of the quick tier (every second query). "
        "6 targeted shapes under 21 (quick) / 61 (thorough) insertion orders; quick: every acyclic ADMG(n) and ancestral ANC(n) graph n<=3, each also with one (empty) layer absent, all "
        "pairwise-disjoint (X,Y,Z) with |X|,|Y|<=2, default and one random insertion order; every DAG(4) with all such queries "
        "under two orders; every ADMG(4) and ANC(4) with all singleton X,Y and all Z under one random insertion order; "
        "every sixth DAG(5) (all in thorough) with singleton X,Y and all Z; 1500 random graphs 5<=n<=8 with 40 random queries; cyclic directed layers n<=3 (must raise). "
        "thorough: all of ADMG(n), ANC(n), n<=4, with the layer-absent variants, all queries |X|,|Y|<=2, two orders; 6000 random "
        "graphs n<=14. distinct by (canonical graph, layers); non-trivial = some query is connected and some separated")
EXHAUSTIVE = {"quick": "ADMG(n), ANC(n) n<=3: all disjoint X,Y,Z with |X|,|Y|<=2; DAG(4): same queries; "
                       "ADMG(4), ANC(4): all singleton X,Y, all Z (DAG(5): one sixth, not exhaustive)",
              "thorough": "ADMG(n), ANC(n) n<=4, all disjoint X,Y,Z with |X|,|Y|<=2; DAG(5): all singleton X,Y, all Z"}
TRUSTED = ["/verif/translator/sepstep.py (Python-ast -> Gallina for the search loop of m_separated; its output is proved equal to "
           "the hand-written model, which the correspondence stream compares with the real function)",
           "networkx ancestors / in_edges / out_edges / neighbors / is_directed_acyclic_graph taken at face value",
           "the deque discipline and pop-time visited marking of m_separated are abstracted into a reachability closure in "
           "the model; that abstraction is what the correspondence (incl. random insertion orders) watches"]
ASSUMPTIONS = ["default edge-type names, plus one family of custom names passed explicitly (beyond the quantifier)", "int labels (label families: C15)", "X, Y, Z are sets of nodes of G",
               "a missing layer is modelled as an empty layer"]
TECHNIQUE = ("Coq proof (model = m-separation by m-connecting paths, unbounded: closure invariant + open-walk-to-path surgery) "
             "+ transition rules translated from the source on every run and proved equal to the model's (tie T) "
             "+ extracted-model correspondence")
LEVEL_TEXT = ("All clauses are unbounded Coq theorems about the model msep_model (one Gallina clause per branch of the two-deque "
              "search of m_separated): msep_correct / msep_correct_false (for every graph with acyclic directed layer that has no "
              "undirected edge or satisfies the ancestral condition, every X,Y,Z of nodes with X disjoint from Y and Z: answer True "
              "<-> no m-connecting simple path, several edge types per pair allowed), msep_correct_walk (any acyclic directed layer: "
              "True <-> no open walk), msep_symmetric (X,Y swap, incl. the raising case), msep_guard (raises <-> directed cycle), "
              "msep_model_dec (model = brute-force oracle), msep_correct_b (the same under the boolean hypotheses the driver emits "
              "per case). Shared lemmas proved here: msep_dec_spec (oracle reflects msep), open_walk_to_path, msep_sym. "
              "The implementation is tied to the model by correspondence only (exhaustive n<=4 + random, both argument orders, "
              "random insertion orders); non-mutation of G is observed, not proved.")
LEVEL_NOTE = ("Tie T: translator/sepstep.py (fail closed) reads the while loop of m_separated and emits Gen/Gen_SepStep.v; "
              "Tie/SepStep_C01.v proves generated step = sep_step (same members), soundness of the has_* switches, the visited-set "
              "discipline, and repo_msep_model_correct. The deque order / termination argument stays abstracted into the closure. "
              "No bounded theorem is needed for C01. Print Assumptions: closed under the global context for all theorems. "
              "Trusted: Coq kernel, extraction, harness; networkx primitives at face value; missing layer = empty layer.")
ALL_LAYERS = ["directed", "bidirected", "undirected"]
SPOT_N = 25


def queries(nodes, maxxy=2):
    """all pairwise-disjoint (X,Y,Z), 1<=|X|,|Y|<=maxxy, up to the X/Y swap (the swap is run on the implementation)"""
    qs = []
    nodes = list(nodes)
    for rx in range(1, maxxy + 1):
        for X in itertools.combinations(nodes, rx):
            rest = [v for v in nodes if v not in X]
            for ry in range(1, maxxy + 1):
                for Y in itertools.combinations(rest, ry):
                    if X > Y:
                        continue
                    rest2 = [v for v in rest if v not in Y]
                    for Z in gr.subsets(rest2):
                        qs.append([list(X), list(Y), Z])
    return qs


_QCACHE = {}


def cached_queries(n, maxxy):
    if (n, maxxy) not in _QCACHE:
        _QCACHE[(n, maxxy)] = queries(range(n), maxxy)
    return _QCACHE[(n, maxxy)]


def random_queries(rng, nodes, k):
    nodes = list(nodes)
    qs = []
    for _ in range(k):
        vs = nodes[:]
        rng.shuffle(vs)
        nx_, ny = rng.randint(1, 2), rng.randint(1, 2)
        X, Y, rest = vs[:nx_], vs[nx_:nx_ + ny], vs[nx_ + ny:]
        nz = min(len(rest), rng.choice([0, 0, 1, 1, 2, 2, 3, 4, len(rest)]))
        qs.append([sorted(X), sorted(Y), sorted(rest[:nz])])
    return qs


def layer_variants(g):
    yield ALL_LAYERS
    if not g["U"]:
        yield ["directed", "bidirected"]
    if not g["B"]:
        yield ["directed", "undirected"]
    if not g["D"]:
        yield ["bidirected", "undirected"]


def _orders(rng, two):
    """insertion orders to run a graph under: the canonical one (None) and/or a random one"""
    return [None, rng.randrange(1 << 30)] if two else [rng.randrange(1 << 30)]


CUSTOM_NAMES = {"directed": "dir", "bidirected": "bidir", "undirected": "undir"}


def _case(kind, g, layers, qs, oracle, order, rep=None, custom=False, symh=None):
    """rep: seed of the REPEAT protocol (warm-up queries on a neighbour graph, in-place morph, then the judged queries);
    custom: build the layers under non-default names and pass the names; symh: run the swapped call only on every second query"""
    c = {"kind": kind, "g": g, "layers": layers, "qs": qs, "oracle": oracle}
    if order is not None:
        c["_order"] = order
    if rep is not None:
        c["rep"] = rep
    if custom:
        c["custom"] = True
    if symh is not None:
        c["symh"] = symh
    return c


# shapes on which a wrong visited-set test (forward_visited / backward_visited confused) changes the answer, but only under
# particular insertion orders of in_edges / neighbours: run under many orders
TARGETED = [
    gr.G(range(4), D=[(0, 1), (2, 1), (2, 0), (3, 0)]),
    gr.G(range(5), D=[(0, 3), (4, 0), (3, 1), (4, 1), (2, 3)]),
    gr.G(range(5), D=[(1, 0), (2, 3), (3, 1), (4, 1)], B=[(0, 2)]),
    gr.G(range(5), D=[(1, 2), (3, 2), (2, 4)], B=[(0, 1), (1, 3)], U=[]),
    gr.G(range(5), D=[(1, 2), (3, 2), (2, 4)], U=[(0, 1)]),
    gr.G(range(4), D=[(0, 2), (1, 2), (2, 3)]),
]


def gen_cases(tier, rng):
    thorough = tier != "quick"
    seed = lambda: rng.randrange(1 << 30)  # noqa: E731
    for g in TARGETED:
        qs = cached_queries(len(g["V"]), 2)
        yield _case("targeted", g, ALL_LAYERS, qs, True, None)
        for j in range(60 if thorough else 20):
            yield _case("targeted", g, ALL_LAYERS, qs, True, seed(), rep=seed() if j % 2 else None, custom=(j % 5 == 0))
    # --- exhaustive n <= 3 (quick) / n <= 4 (thorough): all queries, layer-absent variants; canonical insertion order, and a
    #     random order under the REPEAT protocol; with all layers also once under custom layer names
    for n in range(2, (4 if thorough else 3) + 1):
        qs = cached_queries(n, 2)
        for src, kind in ((gr.enum_admg(n), "admg"), (gr.enum_anc(n), "anc")):
            for g in src:
                if kind == "anc" and not g["U"]:
                    continue
                for layers in layer_variants(g):
                    yield _case("%s%d" % (kind, n), g, layers, qs, True, None)
                    yield _case("%s%d" % (kind, n), g, layers, qs, True, seed(), rep=seed())
                if n <= 3 or rng.random() < 0.1:
                    yield _case("%s%dc" % (kind, n), g, ALL_LAYERS, qs, True, seed(), custom=True,
                                rep=seed() if rng.random() < 0.5 else None)
    if not thorough:
        # --- quick, n = 4: every DAG with all queries under two orders (the second one REPEATed); every ADMG / ANC graph with
        #     singleton X, Y, all Z (swapped call on every second query; every 8th graph REPEATed)
        qs2, qs1 = cached_queries(4, 2), cached_queries(4, 1)
        for g in gr.enum_dag(4):
            yield _case("dag4", g, ALL_LAYERS, qs2, True, None)
            yield _case("dag4", g, ALL_LAYERS, qs2, True, seed(), rep=seed())
        for src, kind in ((gr.enum_admg(4), "admg4s"), (gr.enum_anc(4), "anc4s")):
            for i, g in enumerate(src):
                if kind == "anc4s" and not g["U"]:
                    continue
                yield _case(kind, g, ALL_LAYERS, qs1, True, seed(), symh=i % 2, rep=seed() if i % 8 == 3 else None)
    # --- DAG(5): all singleton X, Y and all Z, one random order (quick: every sixth graph, offset from the seed)
    qs5 = cached_queries(5, 1)
    off = rng.randrange(6)
    for i, g in enumerate(gr.enum_dag(5)):
        if thorough or i % 6 == off:
            yield _case("dag5s", g, ALL_LAYERS, qs5, True, seed(), symh=None if thorough else i % 2)
    # --- random larger graphs (5 nodes are needed e.g. for a collider in Z popped from the backward deque before its
    #     second parent is reached through the forward deque); a quarter REPEATed, a tenth under custom layer names
    for i in range(6000 if thorough else 1500):
        n = rng.randint(5, 14) if thorough and i % 4 == 0 else rng.randint(5, 8)
        kinds = gr.ADMG_KINDS if rng.random() < 0.6 else gr.ANC_KINDS
        g = gr.random_kinds_graph(rng, n, kinds, p_edge=rng.choice([0.2, 0.3, 0.45]),
                                  pred=gr.ancestral_und_ok if kinds is gr.ANC_KINDS else None)
        yield _case("rand", g, ALL_LAYERS, random_queries(rng, g["V"], 40), n <= 6, seed(),
                    rep=seed() if i % 4 == 1 else None, custom=(i % 10 == 2))
    # --- malformed: cyclic directed layer must raise
    for n in (2, 3):
        for g in gr.enum_class(n, gr.ADMG_KINDS, acyclic=False):
            if not gr.is_acyclic(n, g["D"]):
                yield _case("cyclic", g, ALL_LAYERS, cached_queries(n, 2)[:4], False, None)


def encode(case):
    return [0 if case["oracle"] else 1, gr.enc(case["g"]), case["qs"]]


def decode(case, v):
    flags, per = v
    return {"flags": flags, "res": [r[0] for r in per], "qok": [r[1] for r in per],
            "oracle": [r[2] for r in per] if case["oracle"] else None}


class _Hang(BaseException):
    pass


def _on_vtalrm(signum, frame):
    raise _Hang()


_HANGS = 0          # per worker process
HANG_CPU_S = 0.5    # CPU seconds allowed for ONE m_separated call (normal: < 1 ms on these graphs)
HANG_LIMIT = 8      # after that many hanging calls a worker stops running bulk cases (they are reported as skipped)


def run_impl(case):
    """observable of the implementation.  A call that burns more than HANG_CPU_S of CPU is cut and reported as result 3
    (a non-terminating search would otherwise stall the whole check); once a worker has seen HANG_LIMIT such calls it skips
    the remaining bulk cases (shrink candidates, marked _noskip, are always run)."""
    global _HANGS
    import signal
    import networkx as nx
    import pywhy_graphs.networkx as pywhy_nx
    if _HANGS >= HANG_LIMIT and not case.get("_noskip"):
        return {"skipped": True}
    M = lab = inv = kw = names = None
    res, sym = [], []
    signal.signal(signal.SIGVTALRM, _on_vtalrm)

    def call(G, A, B, Z):
        global _HANGS
        a, b, z = {lab(v) for v in A}, {lab(v) for v in B}, {lab(v) for v in Z}
        try:
            signal.setitimer(signal.ITIMER_VIRTUAL, HANG_CPU_S)
            try:
                r = pywhy_nx.m_separated(G, a, b, z, **kw)
            finally:
                signal.setitimer(signal.ITIMER_VIRTUAL, 0)
            return int(bool(r))
        except _Hang:
            _HANGS += 1
            return 3
        except Exception as e:  # noqa
            return 2 if isinstance(e, nx.NetworkXError) else "exc:" + type(e).__name__

    if case.get("rep") is not None:
        # REPEAT protocol: the same object first represents a neighbour graph g0 (same node and edge counts where possible),
        # answers the same queries (discarded), is edited in place into g, and only then judged
        import random as _r
        r0 = _r.Random(case["rep"])
        g0 = gr.perturb(case["g"], r0) or gr.perturb(case["g"], r0, keep_counts=False)
        if g0 is not None:
            M, lab, inv, kw, names = build(case, g0)
            for X, Y, Z in case["qs"]:
                call(M, X, Y, Z)
            gr.morph(M, g0, case["g"], lab, names)
    if M is None:
        M, lab, inv, kw, names = build(case, case["g"])
    before = gr.snapshot(M)
    symh = case.get("symh")
    for i, (X, Y, Z) in enumerate(case["qs"]):
        res.append(call(M, X, Y, Z))
        sym.append(call(M, Y, X, Z) if symh is None or i % 2 == symh else None)
        if _HANGS >= HANG_LIMIT and not case.get("_noskip"):
            break
    out = {"res": res, "sym": sym, "mutated": gr.snapshot(M) != before}
    if case.get("rep") is not None:
        # the edited object must represent g (guards the harness' own morph step)
        out["morph_ok"] = _same_graph(M, inv, names, case["g"])
    return out


def build(case, g):
    """MixedEdgeGraph for g with the case's layers (under custom names if asked) -> (M, lab, inv, name kwargs, k->layer name)"""
    import networkx as nx
    import pywhy_graphs.networkx as pywhy_nx
    key = {"directed": "D", "bidirected": "B", "undirected": "U"}
    if not case.get("custom"):
        M, lab, inv = gr.to_mixed(g, case, layers=tuple(case["layers"]))
        return M, lab, inv, {}, {key[n]: n for n in case["layers"]}
    mk = {"directed": nx.DiGraph, "bidirected": nx.Graph, "undirected": nx.Graph}
    M = pywhy_nx.MixedEdgeGraph(graphs=[mk[n]() for n in case["layers"]], edge_types=[CUSTOM_NAMES[n] for n in case["layers"]])
    names = {key[n]: CUSTOM_NAMES[n] for n in case["layers"]}
    lab, inv = gr._fill(M, g, case, names)
    kw = {n + "_edge_name": CUSTOM_NAMES[n] for n in ALL_LAYERS}
    return M, lab, inv, kw, names


def _same_graph(M, inv, names, g):
    for k, name in names.items():
        es = [(inv(a), inv(b)) for a, b in M.get_graphs(name).edges()]
        if k in "BU":
            if sorted(tuple(sorted(e)) for e in es) != sorted(tuple(sorted(e)) for e in g[k]):
                return False
        elif sorted(es) != sorted(tuple(e) for e in g[k]):
            return False
    return sorted(inv(v) for v in M.nodes) == sorted(g["V"])


def compare(case, impl, model):
    if impl.get("skipped"):
        return None          # this worker gave up after HANG_LIMIT non-terminating calls (those are reported)
    if "exc" in impl:
        return "exception"
    if 3 in impl["res"] or 3 in impl["sym"]:
        return "non-termination"
    # the generated case must lie in the domain of the theorem (boolean hypotheses of msep_correct_b)
    want = [1, 0, 1] if case["kind"] == "cyclic" else [1, 1, 1]
    if model["flags"][:2] != want[:2] or (case["kind"] != "cyclic" and model["flags"][2] != 1):
        return "domain-flags"
    if any(q != 1 for q in model["qok"]):
        return "query-domain"
    if impl.get("morph_ok") is False:
        return "harness-morph"
    if impl["mutated"]:
        return "argument-mutated"
    if impl["res"] != model["res"]:
        return "boolean-after-edit" if case.get("rep") is not None else "boolean"
    if any(b is not None and a != b for a, b in zip(impl["res"], impl["sym"])):
        return "symmetry"
    if model["oracle"] is not None and 2 not in model["res"] and model["oracle"] != model["res"]:
        return "model-vs-oracle"
    return None


def nontrivial(case, model):
    return 0 in model["res"] and 1 in model["res"]


def key(case):
    return (gr.canon(case["g"]), tuple(case["layers"]), case.get("rep") is not None, bool(case.get("custom")))


def shrink(case):
    for i in range(len(case["qs"])):
        yield dict(case, qs=[case["qs"][i]], _noskip=True)
    for h in gr.shrink_graph(case["g"]):
        vs = set(h["V"])
        qs = [q for q in case["qs"] if all(v in vs for part in q for v in part)]
        if qs:
            yield dict(case, g=h, qs=qs, _noskip=True)


# ------------------------------------------------------------------ tie (T): transition rules translated from the source
def _sepstep():
    import os
    import sys
    import framework as fw
    p = os.path.join(fw.VERIF, "translator")
    if p not in sys.path:
        sys.path.insert(0, p)
    import sepstep
    return sepstep


def pre_build(ctx):
    """regenerate Gen/Gen_SepStep.v from ctx["repo"] and check Tie/SepStep_C01.v against it, both under the build lock"""
    import re
    import subprocess
    import framework as fw
    problems = []
    with fw.Lock():
        res, changed = _sepstep().regenerate(ctx["repo"])
        ctx["sepstep_result"], ctx["gen_sepstep_changed"] = res, changed
        fw.ensure_makefile()
        p = subprocess.run(["make", "-j4", "theories/Tie/SepStep_C01.vo"], cwd=fw.COQ, env=fw.ENV, timeout=3000,
                           stdout=subprocess.PIPE, stderr=subprocess.STDOUT, text=True)
        ctx["sepstep_tie_ok"] = p.returncode == 0
        if p.returncode != 0 and not res.problems:
            m = re.search(r'File "\./([^"]+)", line (\d+)[^\n]*\n((?:.*\n){0,3})', p.stdout)
            where = "%s:%s %s" % (m.group(1), m.group(2), " ".join(m.group(3).split())[:200]) if m else p.stdout[-300:]
            ctx["sepstep_where"] = where
            problems.append("the transition rules translated from %s/%s are no longer the model's rules (tie T, "
                            "generated step = sep_step): %s" % (ctx["repo"], _sepstep().REL, where))
    problems += ["translator rejects the source (fail closed): " + pr for pr in res.problems]
    return problems


def _table_diff(res):
    """which pushes of the translated table differ from the table of C01.Model.sep_step (for the report only; the verdict is Coq's)"""
    want = {("backward", "unbrs"): "backward", ("backward", "parents"): "backward", ("backward", "children"): "forward",
            ("backward", "siblings"): "forward", ("forward", "parents"): "backward", ("forward", "siblings"): "forward",
            ("forward", "unbrs"): "backward", ("forward", "children"): "forward"}
    ctxw = {("forward", "parents"): "memb node anZ", ("forward", "siblings"): "memb node anZ",
            ("forward", "unbrs"): "negb (memb node Z)", ("forward", "children"): "negb (memb node Z)"}
    out = []
    seen = set()
    for p in res.pushes:
        k = (p["block"], p["cls"])
        seen.add(k)
        sem = [c for c in p["conds"] if not c.startswith("has_")]
        if want.get(k) != p["dest"]:
            out.append((p["line"], "%s block pushes %s to %s_deque (model: %s_deque)" % (p["block"], p["cls"], p["dest"], want.get(k))))
        elif p["guard"] != p["dest"]:
            out.append((p["line"], "%s block: push of %s into %s_deque is guarded by %s_visited" % (p["block"], p["cls"], p["dest"], p["guard"])))
        elif p["block"] == "forward" and sem != [ctxw[k]]:
            out.append((p["line"], "forward block pushes %s under %s (model: %s)" % (p["cls"], sem, ctxw[k])))
        elif p["block"] == "backward" and sem != ["not(memb node Z)"]:
            out.append((p["line"], "backward block pushes %s under %s (model: node not in z)" % (p["cls"], sem)))
    for k in want:
        if k not in seen:
            out.append((0, "%s block never pushes %s" % k))
    return out


def extra(ctx, pool):
    res = ctx.get("sepstep_result")
    if res is None:
        return []
    out = []
    for pr in res.problems:
        out.append({"reason": "tie T broken: " + pr, "found_input": False, "broken": pr,
                    "note": "translator/sepstep.py no longer recognises the search loop of m_separated; Gen/Gen_SepStep.v has no "
                            "definitions, Tie/SepStep_C01.v and Props/C01.v do not compile"})
    if not res.problems and ctx.get("sepstep_tie_ok") is False:
        diffs = _table_diff(res)
        for line, what in diffs or [(0, ctx.get("sepstep_where", "see the Coq log"))]:
            out.append({"reason": "tie T broken: T:m_separation.py:%s %s; Tie/SepStep_C01.v (generated step = model step / visited "
                                  "discipline) does not compile" % (line, what), "found_input": False,
                        "broken": "T:m_separation.py:%s" % line, "pushes": res.pushes})
    return out


def coverage_extra(ctx):
    res = ctx.get("sepstep_result")
    return {"translated_pushes": len(res.pushes) if res else 0, "gen_sepstep_rewritten": bool(ctx.get("gen_sepstep_changed")),
            "tie_T_lemmas_ok": ctx.get("sepstep_tie_ok")}
