"""C01 — m_separated decides m-separation (boolean / raises), symmetric in X,Y, does not mutate G."""
import itertools
import graphs as gr

PROP = "C01"
RULE = ("every acyclic ADMG(n) and ancestral ANC(n) graph, each also with one layer absent, n<=3 quick / n<=4 thorough, "
        "all pairwise-disjoint (X,Y,Z) with |X|,|Y|<=2; random n<=8 (quick) / n<=14 (thorough) with 30 queries; malformed stream "
        "(cyclic directed layer). distinct by (canonical graph, layers); non-trivial = some query is connected and some separated")
EXHAUSTIVE = {"quick": "ADMG(n), ANC(n) n<=3, all disjoint X,Y,Z with |X|,|Y|<=2", "thorough": "same, n<=4"}
TRUSTED = ["networkx ancestors / in_edges / out_edges / neighbors taken at face value"]
ASSUMPTIONS = ["default edge-type names", "int labels (label families: C15)"]
ALL_LAYERS = ["directed", "bidirected", "undirected"]


def queries(nodes, maxxy=2, rng=None, limit=None):
    qs = []
    nodes = list(nodes)
    for rx in range(1, maxxy + 1):
        for X in itertools.combinations(nodes, rx):
            rest = [v for v in nodes if v not in X]
            for ry in range(1, maxxy + 1):
                for Y in itertools.combinations(rest, ry):
                    if X > Y:
                        continue
                    rest2 = [v for v in rest if v not in Y]
                    for Z in gr.subsets(rest2):
                        qs.append([list(X), list(Y), Z])
    if limit and len(qs) > limit:
        qs = rng.sample(qs, limit)
    return qs


def layer_variants(g):
    yield ALL_LAYERS
    if not g["U"]:
        yield ["directed", "bidirected"]
    if not g["B"]:
        yield ["directed", "undirected"]
    if not g["D"]:
        yield ["bidirected", "undirected"]


def gen_cases(tier, rng):
    nmax = 3 if tier == "quick" else 4
    for n in range(2, nmax + 1):
        for src, kind in ((gr.enum_admg(n), "admg"), (gr.enum_anc(n), "anc")):
            for g in src:
                if kind == "anc" and not g["U"]:
                    continue
                qs = queries(g["V"])
                for layers in layer_variants(g):
                    yield {"kind": "%s%d" % (kind, n), "g": g, "layers": layers, "qs": qs, "oracle": True}
    nr = 150 if tier == "quick" else 1500
    for i in range(nr):
        n = rng.randint(4, 8 if tier == "quick" else 14)
        kinds = gr.ADMG_KINDS if rng.random() < 0.5 else gr.ANC_KINDS
        g = gr.random_kinds_graph(rng, n, kinds, p_edge=rng.choice([0.15, 0.25, 0.4]),
                                  pred=gr.ancestral_und_ok if kinds is gr.ANC_KINDS else None)
        qs = queries(g["V"], rng=rng, limit=30)
        yield {"kind": "rand", "g": g, "layers": ALL_LAYERS, "qs": qs, "oracle": n <= 7}
    # malformed: cyclic directed layer must raise
    for n in (2, 3):
        for g in gr.enum_class(n, gr.ADMG_KINDS, acyclic=False):
            if not gr.is_acyclic(n, g["D"]):
                yield {"kind": "cyclic", "g": g, "layers": ALL_LAYERS, "qs": queries(g["V"])[:4], "oracle": False}


def encode(case):
    return [0 if case["oracle"] else 1, gr.enc(case["g"]), case["qs"]]


def decode(case, v):
    return {"res": [r[0] for r in v], "oracle": [r[1] for r in v] if case["oracle"] else None}


def run_impl(case):
    import pywhy_graphs.networkx as pywhy_nx
    M, lab, inv = gr.to_mixed(case["g"], case, layers=tuple(case["layers"]))
    before = gr.snapshot(M)
    res, sym = [], []
    for X, Y, Z in case["qs"]:
        def call(A, B):
            try:
                return int(bool(pywhy_nx.m_separated(M, {lab(v) for v in A}, {lab(v) for v in B}, {lab(v) for v in Z})))
            except Exception as e:  # noqa
                import networkx as nx
                return 2 if isinstance(e, nx.NetworkXError) else "exc:" + type(e).__name__
        res.append(call(X, Y))
        sym.append(call(Y, X))
    return {"res": res, "sym": sym, "mutated": gr.snapshot(M) != before}


def compare(case, impl, model):
    if "exc" in impl:
        return "exception"
    if impl["mutated"]:
        return "argument-mutated"
    if impl["res"] != model["res"]:
        return "boolean"
    if impl["sym"] != impl["res"]:
        return "symmetry"
    if model["oracle"] is not None and model["oracle"] != model["res"] and 2 not in model["res"]:
        return "model-vs-oracle"
    return None


def nontrivial(case, model):
    return 0 in model["res"] and 1 in model["res"]


def key(case):
    return (gr.canon(case["g"]), tuple(case["layers"]))


def shrink(case):
    for i in range(len(case["qs"])):
        yield dict(case, qs=[case["qs"][i]])
    for h in gr.shrink_graph(case["g"]):
        vs = set(h["V"])
        qs = [q for q in case["qs"] if all(v in vs for part in q for v in part)]
        if qs:
            yield dict(case, g=h, qs=qs)
