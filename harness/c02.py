"""C02 — MixedEdgeGraph / ADMG stay consistent over any history of public mutations.

A case is a history: {"cls": 0 MixedEdgeGraph | 1 ADMG, "N": universe size, "ops": [[code, obj, args...], ...]}
(the op list is literally the sx the Gallina model decodes, see coq/theories/C02/Model.v sx_op).
After EVERY op every read query named in the property is asked of the object the op was applied to (and of a newly
allocated copy / subgraph), the raw state (nodes+attrs, graph attrs, every layer's kind / node set / edges+attrs) of
every live object is recorded, and everything is compared with the model's trace.
"""
import itertools

import graphs as gr
from c02_gen import exhaustive_histories, random_history, ALPHABET_DOC

PROP = "C02"
ALL_SEL = 4
LNAMES = ["directed", "bidirected", "undirected", "extra"]
AK = ["a0", "a1"]
SPOT_N = 12
IMPL_TIMEOUT = 60

RULE = ("histories of public mutations on MixedEdgeGraph() and ADMG(), universe of 4 nodes (3 in the exhaustive stream), layer "
        "names {directed,bidirected,undirected,extra} of both kinds; exhaustive over a reduced alphabet (" + ALPHABET_DOC + "), "
        "then seeded random walks (incl. clear() and self loops) biased to query-then-add-layer, remove-then-re-add, copy-then-mutate; after every op all "
        "read queries of the touched object and the raw state of every live object are compared with the extracted model; "
        "bulk / subgraph arguments as list, tuple, generator, set, frozenset, dict keys, str; own label families coincide (container == label) and obj (identity-hashed); a decoy graph runs through all methods before every case (cross-call state); held "
        "iterators as in ASSUMPTIONS; argument spellings (all-keyword calls, 3-tuple edge bunches, EdgeType enum members = unknown "
        "edge type: raises, graph unchanged); attribute edits through G.nodes[n] / layer.edges[u,v]; update(edges, nodes, edge_type); "
        "degree(weight=k)/size(weight=k) for the first attribute key (edges lacking it weigh 1): the expectation is computed in "
        "harness/c02.py from the model's edge+attribute tables (not by the Gallina model); edge ops on an unknown edge type raise BEFORE adding the end nodes (repo 50c2392); distinct by op list; non-trivial = the final store holds an edge and at least one op was rejected or a second "
        "object was allocated")
EXHAUSTIVE = {"quick": "all histories of length <= 2 over the reduced alphabet, both classes (length 3: seeded sample)",
              "thorough": "all histories of length <= 3 over the reduced alphabet, both classes (length 4: seeded sample)"}
TRUSTED = ["networkx Graph / DiGraph taken at face value (each layer is one of them)",
           "Python view objects are observed through dict(...) / list(...)",
           "harness/c02.py packs the answers of the real object the way Model.obs packs the model's"]
ASSUMPTIONS = ["attribute keys a0,a1 (stream attrkeys: parameter names such as edge_type / graphs / name and int keys) with values 0..3; node labels ints (label families are C15's job)",
               "bulk arguments are passed as list / tuple / generator / set, with duplicated, absent and no elements; the list "
               "behind them is snapshotted and must be unchanged after the call, and the same list object is reused for a "
               "later equal argument. A networkx graph handed to add_edge_type is adopted as the layer by design (no copy): "
               "aliasing through that argument is not part of C02 and not tested",
               "subgraph is called with nodes present in the graph; its node/edge attributes are not compared "
               "(accepted empty or equal to the parent's, then normalised to empty)",
               "iterator-valued answers: neighbors(n) taken before an op (one element consumed) and finished after it must give "
               "the neighbourhood at the time of the call, or raise RuntimeError (networkx's contract for a live dict iterator "
               "whose dict changed) - never a mixture of two states; the nodes view is live (networkx view contract) and must "
               "show the node set at consumption time. edges()/adj return a fresh dict of live per-layer networkx views per call; "
               "holding those across an op is networkx's live-view contract and is not compared",
               "node containers are ITERATED (docstrings: 'a container of nodes which will be iterated through'), also when "
               "the container object equals a node label (tuple / str / frozenset labels); nbunch-style single-node-or-container "
               "arguments of edges(nbunch)/degree(nbunch) are delegated to networkx and not varied",
               "exception-vs-no-exception is compared only for edge operations on an absent edge type (documented error) "
               "and for well-formed calls (must not raise)"]
LEVEL_TEXT = ("Coq theorems, all UNBOUNDED over histories (induction on the op list, any length, any interleaving, both initial "
              "classes, several live objects; ops incl. clear() and self loops): mixed_layers_sync (every layer has exactly the "
              "node set, stored edges join nodes, dict keys unique), mixed_refines (abs(run h) = run_abs h object by object "
              "w.r.t. the set-of-edges-per-layer semantics, same accept/reject/documented-error outcome for every op), "
              "mixed_refines_attrs (the same including node, edge and graph attribute dicts with dict.update semantics; copy "
              "duplicates structure and attributes at the abstract level), mixed_queries + mixed_queries_counts (EVERY read "
              "query of the property answers from the abstract edge sets: has_edge, number_of_edges(u,v[,l]), "
              "number_of_edges(edge_type=l) and number_of_edges() as cardinalities, degree as incidence count, size == "
              "number_of_edges, get_edge_data presence, neighbors, to_undirected, to_directed, edges()/adj as tables), "
              "edges_stored_once, copy_equal_independent (Leibniz-equal incl. all attributes, frame property between objects), "
              "subgraph_exact. The theorems are about the Gallina model; they reach MixedEdgeGraph/ADMG through the "
              "correspondence: after EVERY op of every generated history every read query of the property is compared with the "
              "extracted model.")
LEVEL_NOTE = ("Trusted: Coq kernel (vm_compute only in Examples / spot checks), extraction (ExtrOcamlBasic) + driver.ml, "
              "harness/c02.py (packing of the real object's answers, normalisation of subgraph attributes), networkx Graph/DiGraph "
              "per layer. Three defects found by this check (size, stale cached adj, default edge types resurrected by "
              "copy/subgraph of a subclass) are fixed in /repo (fixes/C02-*.patch); their minimal histories stay in corpus/C02.")
TECHNIQUE = ("Coq proof (generic state-machine algebra: invariant + homomorphism/refinement to set-level semantics, unbounded "
             "over histories) + extracted-model correspondence after every op of exhaustive short and random long histories")

FIELDS = ["nodes", "graph_attrs", "layers", "has_edge", "has_edge_any", "number_of_edges", "number_of_edges_layer",
          "number_of_edges_uv_layer", "number_of_edges_uv", "size", "size_layer", "neighbors", "degree", "get_edge_data",
          "to_undirected", "to_directed"]
# extra fields observed on the implementation whose expected value is a function of the model's fields
ALIAS = {"edges": "layers_tables", "adj": "layers_tables"}


# ------------------------------------------------------------------ cases
def gen_cases(tier, rng):
    quick = tier == "quick"
    for cls in (0, 1):
        for L in ((1, 2) if quick else (1, 2, 3)):
            for ops in exhaustive_histories(cls, L):
                yield {"kind": "exh%d" % L, "cls": cls, "N": 3, "ops": ops}
    # sampled next length
    Ls = 3 if quick else 4
    for cls in (0, 1):
        for ops in exhaustive_histories(cls, Ls, sample=(1500 if quick else 20000), rng=rng):
            yield {"kind": "exh%d-sample" % Ls, "cls": cls, "N": 3, "ops": ops}
    # objects built by the constructor from given networkx graphs (different node sets per graph), then a history
    for i in range(150 if quick else 1500):
        init = []
        for nm in rng.sample(range(4), rng.randint(1, 3)):
            es = [rng.sample(range(4), 2) for _ in range(rng.choice([0, 1, 1, 2]))]
            init.append([nm, rng.randint(0, 1), es])
        ops = [[11, 0, []]] + random_history(rng, 0, rng.choice([0, 3, 10]))
        yield {"kind": "ctor", "cls": 0, "N": 4, "init": init, "ops": ops}
    # label families of its own: "coincide" (a tuple / str / frozenset container of nodes equals another node's label;
    # universe of 5) and "obj" (identity-hashed label objects: copy / subgraph must keep the very same node objects)
    for i in range(300 if quick else 3000):
        fam = "coincide" if i % 3 else "obj"
        N = 5 if fam == "coincide" else 4
        yield {"kind": fam, "cls": i % 2, "N": N, "_lab": fam, "ops": random_history(rng, i % 2, 15, N=N)}
    # aimed at containers that equal a label: nodes a, b, ('a','b'), 'ab', frozenset('ab') all present, a-b joined in
    # some layers, then subgraph / remove_nodes_from / add_nodes_from called with the tuple / frozenset / str of a, b
    for i in range(120 if quick else 1200):
        cls = i % 2
        pre = [[1, 0, [0, 1, 2, 3, 4], []]]
        if not cls:
            pre.append([9, 0, rng.randrange(4), rng.randint(0, 1), []])
        pre.append([2, 0, 0, 1, rng.choice([ALL_SEL, ALL_SEL, 0, 1]), []])
        for _ in range(rng.randint(0, 3)):
            u, v = rng.sample(range(5), 2)
            pre.append([2, 0, u, v, ALL_SEL, []])
        fl = rng.choice([1, 4, 6])
        ab = rng.choice([[0, 1], [0, 1], [1, 0]])
        aim = rng.choice([[13, 0, ab, fl], [13, 0, ab, fl], [5, 0, ab, fl], [1, 0, ab, [[0, 1]], fl]])
        yield {"kind": "coincide-aimed", "cls": cls, "N": 5, "_lab": "coincide",
               "ops": pre + [aim] + random_history(rng, cls, rng.choice([0, 4]), N=5)}
    # attribute keys that collide with parameter names of the methods copy()/subgraph() call internally, and non-string keys
    NK = [["node_for_adding", 5], ["attr", "n"], ["nodes_for_adding", 0]]
    EK = [["edge_type", "u_of_edge"], ["v_of_edge", 3], ["edge_type", 0], ["ebunch_to_add", "attr"]]
    GK = [["graphs", "edge_types"], ["name", 7], ["directed_edge_name", "graphs"], ["incoming_directed_edges", 0]]
    for i in range(200 if quick else 2000):
        yield {"kind": "attrkeys", "cls": i % 2, "N": 4, "_keys": [rng.choice(NK), rng.choice(EK), rng.choice(GK)],
               "ops": random_history(rng, i % 2, 12)}
    # argument spellings: every argument by keyword, edge bunches as 3-tuples, EdgeType enum members as edge type
    for i in range(200 if quick else 2000):
        c = {"kind": "spelling", "cls": i % 2, "N": 4, "ops": random_history(rng, i % 2, 15, enum=0.25)}
        if i % 4 < 2:
            c["_kw"] = 1
        if i % 4 in (1, 3):
            c["_t3"] = 1
        yield c
    n_rand, length = (260, 25) if quick else (260, 200)
    for i in range(n_rand):
        cls = i % 2
        yield {"kind": "rand", "cls": cls, "N": 4, "ops": random_history(rng, cls, length)}
    if not quick:
        for i in range(3000):
            yield {"kind": "rand25", "cls": i % 2, "N": 4, "ops": random_history(rng, i % 2, 25)}


def _init_ops(case):
    """case["init"] = [[name, kind, [[u,v]..]], ..]: the object is built by MixedEdgeGraph(graphs=[...], edge_types=[...]);
    for the model that is the empty graph followed by one add_edge_type per given graph"""
    return [[9, 0, nm, kd, es] for nm, kd, es in case.get("init", [])]


def encode(case):
    return [case["cls"], case["N"], _init_ops(case) + case["ops"]]


def _split(objv):
    d = {FIELDS[i]: objv[i] for i in range(len(objv))}
    return d


def _weighted_expect(N, d):
    """degree(weight=k0) / size(weight=k0) for the attribute key k0 = the model's key 0, computed HERE from the model's
    abstract state (per layer: kind + edge table with attribute codes; entry 0 absent, else 1 + acode with
    acode % 5 = 0 key absent / 1 + value): an edge without the key weighs 1 (networkx), an Und self loop counts twice,
    Dir = in + out; size = half the degree sum, per layer and in total"""
    present = [bool(x) for x in d["nodes"][:N]]
    degs, sizes = [], []
    for lay in d["layers"]:
        if not lay:
            degs.append([])
            sizes.append([])
            continue
        kind, _, T = lay[0]

        def w(u, v):
            c = T[u * N + v]
            if not c:
                return 0
            k0 = (c - 1) % 5
            return 1 if k0 == 0 else k0 - 1
        deg = []
        for n in range(N):
            if kind:   # Dir: out + in
                x = sum(w(n, v) for v in range(N)) + sum(w(u, n) for u in range(N))
            else:      # Und: symmetric table, self loop twice
                x = sum(w(n, v) for v in range(N)) + w(n, n)
            deg.append(x)
        degs.append([[(1 + deg[n] if present[n] else 0) for n in range(N)]])
        sizes.append([sum(deg) / 2])
    return {"degree_weighted": degs, "size_weighted_layer": sizes, "size_weighted": sum(x[0] for x in sizes if x)}


def decode(case, v):
    steps = []
    for st in v[len(_init_ops(case)):]:
        objs = []
        for o in st[1]:
            d = _split(o)
            tables = [([] if not x else [x[0][2]]) for x in d["layers"]]
            if len(o) > 3:
                d["edges"] = tables
                d["adj"] = tables
                d["copy_eq"] = 1
                d.update(_weighted_expect(case["N"], d))
            objs.append(d)
        steps.append({"outcome": st[0], "objs": objs})
    return steps


# ------------------------------------------------------------------ implementation side
KW = [0]     # per case: pass every argument by keyword (case["_kw"])
T3 = [0]     # per case: edge bunches always as 3-tuples (case["_t3"])
_KEYS = {"n": AK, "e": AK, "g": AK}   # python attribute keys standing for the model's keys 0, 1 (per case: case["_keys"])


def _acode(d, kind):
    keys = _KEYS[kind]
    c = 0
    for i, k in enumerate(keys):
        if k in d:
            c += (1 + d[k]) * (5 ** i)
    extra = [k for k in d if k not in keys]
    if extra:
        return ["extra-attr-keys", sorted(map(str, extra))]
    return c


def _ocode(d, kind):
    if d is None:
        return 0
    c = _acode(d, kind)
    return c if isinstance(c, list) else 1 + c


def _pack(bits):
    return sum((1 << i) for i, b in enumerate(bits) if b)


def _adict(pairs, kind):
    return {_KEYS[kind][k]: v for k, v in pairs}


class _Obs:
    """observation of one live object, mirroring Model.obs"""

    def __init__(self, G, N, lab, inv):
        self.G, self.N, self.lab, self.inv = G, N, lab, inv
        self.U = [lab(i) for i in range(N)]

    def guard(self, f):
        try:
            return f()
        except Exception as e:  # noqa
            return {"exc": type(e).__name__}

    def per_layer(self, names, f):
        names = list(names)
        out = [([f(nm)] if nm in names else []) for nm in LNAMES]
        unknown = [nm for nm in names if nm not in LNAMES]
        if unknown:
            out.append(["unknown-layers", sorted(map(str, unknown))])
        return out

    def table_from_edges(self, es, directed):
        N = self.N
        t = [0] * (N * N)
        for a, b, d in es:
            a, b = self.inv(a), self.inv(b)
            t[a * N + b] = _ocode(d, "e")
            if not directed:
                t[b * N + a] = _ocode(d, "e")
        return t

    def btbl(self, f):
        return [_pack([f(u, v) for v in self.U]) for u in self.U]

    def state(self):
        G, N, U = self.G, self.N, self.U
        nd = dict(G.nodes(data=True))
        nodes = [(_ocode(nd[x], "n") if x in nd else 0) for x in U]
        if any(x not in U for x in nd):
            nodes.append("node-outside-universe")

        def layer(nm):
            lg = G.get_graphs(nm)
            return [1 if lg.is_directed() else 0, _pack([x in lg.nodes for x in U]),
                    self.table_from_edges(lg.edges(data=True), lg.is_directed())]
        return [nodes, _acode(G.graph, "g"), self.per_layer(G.edge_types, layer)]

    def full(self):
        G, N, U, g = self.G, self.N, self.U, self.guard
        d = {}
        st = g(self.state)
        if isinstance(st, dict):
            d["nodes"] = d["graph_attrs"] = d["layers"] = st
            present = [False] * N
        else:
            d["nodes"], d["graph_attrs"], d["layers"] = st
            present = [bool(x) for x in st[0][:N]]
        names = list(G.edge_types)
        d["has_edge"] = g(lambda: self.per_layer(names, lambda nm: self.btbl(lambda u, v: G.has_edge(u, v, nm))))
        d["has_edge_any"] = g(lambda: self.btbl(lambda u, v: G.has_edge(u, v)))
        d["number_of_edges"] = g(lambda: G.number_of_edges())
        d["number_of_edges_layer"] = g(lambda: self.per_layer(names, lambda nm: G.number_of_edges(edge_type=nm)))

        def both(i, j):
            return present[i] and present[j]
        d["number_of_edges_uv_layer"] = g(lambda: self.per_layer(names, lambda nm: [
            _pack([both(i, j) and G.number_of_edges(U[i], U[j], nm) == 1 for j in range(N)]) for i in range(N)]))
        d["number_of_edges_uv"] = g(lambda: [(G.number_of_edges(U[i], U[j]) if both(i, j) else 0)
                                             for i in range(N) for j in range(N)])
        d["size"] = g(lambda: G.size())
        d["size_layer"] = g(lambda: self.per_layer(names, lambda nm: G.size(edge_type=nm)))
        d["neighbors"] = g(lambda: [(1 + _pack([x in set(G.neighbors(U[i])) for x in U]) if present[i] else 0)
                                    for i in range(N)])

        def degree():
            dg = G.degree()
            return self.per_layer(dg.keys(), lambda nm: (lambda dd: [(1 + dd[U[i]] if present[i] else 0)
                                                                     for i in range(N)])(dict(dg[nm])))
        d["degree"] = g(degree)
        wk = _KEYS["e"][0]

        def degree_w():
            dg = G.degree(weight=wk)
            return self.per_layer(dg.keys(), lambda nm: (lambda dd: [(1 + dd[U[i]] if present[i] else 0)
                                                                     for i in range(N)])(dict(dg[nm])))
        d["degree_weighted"] = g(degree_w)
        d["size_weighted"] = g(lambda: G.size(weight=wk))
        d["size_weighted_layer"] = g(lambda: self.per_layer(names, lambda nm: G.size(weight=wk, edge_type=nm)))

        def ged(u, v):
            r = G.get_edge_data(u, v)
            c = 0
            for i, nm in enumerate(LNAMES):
                if nm in r:
                    c += (1 if r[nm] is None else 2) * 3 ** i
            return c
        d["get_edge_data"] = g(lambda: [ged(u, v) for u in U for v in U])

        def conv(H, directed):
            t = [[False] * N for _ in range(N)]
            for a, b in H.edges():
                a, b = self.inv(a), self.inv(b)
                t[a][b] = True
                if not directed:
                    t[b][a] = True
            if H.is_directed() != directed:
                return "wrong-class"
            return [_pack([x in H.nodes for x in U]), [_pack(r) for r in t]]
        d["to_undirected"] = g(lambda: conv(G.to_undirected(), False))
        d["to_directed"] = g(lambda: conv(G.to_directed(), True))
        d["edges"] = g(lambda: (lambda ed: self.per_layer(ed.keys(), lambda nm: self.table_from_edges(
            ed[nm], G.get_graphs(nm).is_directed())))(G.edges(data=True)))

        def adj():
            A = G.adj
            out = {}
            for nm, al in A.items():
                t = [0] * (N * N)
                for u, nbrs in al.items():
                    for v, dd in nbrs.items():
                        t[self.inv(u) * N + self.inv(v)] = _ocode(dd, "e")
                out[nm] = t
            return self.per_layer(out.keys(), lambda nm: out[nm])
        d["adj"] = g(adj)

        def copy_eq():
            C = G.copy()
            if type(C) is not type(G):
                return "wrong-class"
            return 1 if _Obs(C, N, self.lab, self.inv).state() == st else 0
        d["copy_eq"] = g(copy_eq)
        return d

    def brief(self):
        st = self.guard(self.state)
        if isinstance(st, dict):
            return {"nodes": st, "graph_attrs": st, "layers": st}
        return {"nodes": st[0], "graph_attrs": st[1], "layers": st[2]}


_ARGS = {}   # per-case cache: the SAME list object is passed again when a later bulk call has an equal argument


def _bulk(key, items, flavour):
    """the bulk argument of add_nodes_from / remove_nodes_from / add_edges_from / remove_edges_from / subgraph as the
    container kind chosen by the op's optional trailing flavour (0 list, 1 tuple, 2 generator, 3 set where hashable);
    returns (argument, underlying list, snapshot of it) — the list must be unchanged after the call"""
    base = _ARGS.setdefault((key, repr(items)), items)
    # labels are never copied (identity-hashed label objects), attribute dicts inside edge triples are
    snap = [(tuple(dict(y) if isinstance(y, dict) else y for y in x) if isinstance(x, tuple) and key != "n" else x)
            for x in base]
    arg = base
    try:
        if flavour == 1:
            arg = tuple(base)
        elif flavour == 2:
            arg = (x for x in base)
        elif flavour == 3:
            arg = set(base)
        elif flavour == 4:
            arg = frozenset(base)
        elif flavour == 5:
            arg = dict.fromkeys(base).keys()
        elif flavour == 6 and base and all(isinstance(x, str) and len(x) == 1 for x in base):
            arg = "".join(base)      # a str is a container of one-character node labels
    except TypeError:
        arg = base
    return arg, base, snap


def _labeler(case):
    """label families of graphs.labeler plus the local family "coincide": the universe a, b, ('a','b'), 'ab',
    frozenset('ab') — a tuple / str / frozenset CONTAINER of the nodes a, b equals the LABEL of another node"""
    if (case or {}).get("_lab") == "coincide":
        table = ["a", "b", ("a", "b"), "ab", frozenset("ab")]
        back = {x: i for i, x in enumerate(table)}
        return (lambda v: table[v]), (lambda x: back[x])
    return gr.labeler(case)


def _decoy():
    """cross-call contamination: before every case a different graph (other nodes, one default edge type removed) goes
    through the same methods in the same process; module- or class-level state it left behind would show in the case"""
    from pywhy_graphs import ADMG
    D = ADMG(decoy=1)
    D.add_edges_from([("decoy1", "decoy2", {"a0": 9}), ("decoy2", "decoy3")], "directed", a1=9)
    D.add_edge("decoy1", "decoy3", "all", a0=8)
    D.remove_edge_type("undirected")
    D.add_nodes_from(["decoy4"], a0=7)
    C = D.copy()
    S = D.subgraph(["decoy1", "decoy2"])
    for X in (D, C, S):
        X.size(), X.number_of_edges(), list(X.neighbors("decoy1")), X.degree(), X.edges(data=True), X.adj
        X.to_undirected(), X.to_directed(), X.get_edge_data("decoy1", "decoy2")
    C.remove_nodes_from(["decoy1"])
    S.clear()


def _hold(G, U):
    """iterator-valued queries taken BEFORE the op: neighbors(n) with one element already consumed, the nodes view"""
    held = {"nodes": G.nodes, "nbrs": {}}
    for x in U:
        if x in G:
            try:
                eager = set(G.neighbors(x))
                it = G.neighbors(x)
                first = [next(it)] if eager else []
                held["nbrs"][x] = (eager, it, first)
            except Exception:  # noqa
                pass
    return held


def _check_held(G, held, U):
    """consumed AFTER the op. neighbors(n): the neighbourhood at the time of the call (what the property's "answers
    according to that edge set" means for an iterator handed out at that point) or RuntimeError (networkx's contract for
    a live dict iterator whose dict changed); the nodes view: live (networkx view contract) = the node set now"""
    for x, (eager, it, first) in held["nbrs"].items():
        try:
            got = set(first) | set(it)
        except RuntimeError:
            continue
        except Exception:  # noqa   (an answer computed lazily after the op, on a node that is gone by now)
            return "held-iterator:neighbors"
        if got != eager:
            return "held-iterator:neighbors"
    try:
        if set(held["nodes"]) != {x for x in U if G.has_node(x)} or len(held["nodes"]) != len(G):
            return "held-view:nodes"
    except RuntimeError:
        pass
    return None


def _apply(objs, op, lab, N):
    """apply one op; returns (exception name or None, note)"""
    import networkx as nx
    base = snap = None
    exotic = _KEYS["e"] is not AK
    code, o = op[0], op[1]
    a = op[2:]
    if o >= len(objs) or objs[o] is None:
        return None, None
    G = objs[o]
    def et(t):
        """0..3 names, 4 'all'; 10..13 / 14: the EdgeType enum member instead of its string (HEAD: unknown edge type)"""
        if t < 4:
            return LNAMES[t]
        if t == 4:
            return "all"
        from pywhy_graphs.config import EdgeType
        return {10: EdgeType.DIRECTED, 11: EdgeType.BIDIRECTED, 12: EdgeType.UNDIRECTED, 13: EdgeType.CIRCLE}.get(t, EdgeType.ALL)

    def call(meth, names, vals, **attr):
        """positional, or (case["_kw"]) every argument by keyword under its documented parameter name"""
        f = getattr(G, meth)
        return f(**dict(zip(names, vals)), **attr) if KW[0] else f(*vals, **attr)
    try:
        if code == 0:
            if exotic and a[1]:      # keys that cannot be keyword arguments go through the (node, dict) form
                G.add_nodes_from([(lab(a[0]), _adict(a[1], "n"))])
            else:
                call("add_node", ["node_for_adding"], [lab(a[0])], **_adict(a[1], "n"))
        elif code == 1:
            if exotic and a[1]:
                arg, base, snap = _bulk("nd", [(lab(n), _adict(a[1], "n")) for n in a[0]], a[2] if len(a) > 2 else 0)
                call("add_nodes_from", ["nodes_for_adding"], [arg])
            else:
                arg, base, snap = _bulk("n", [lab(n) for n in a[0]], a[2] if len(a) > 2 else 0)
                call("add_nodes_from", ["nodes_for_adding"], [arg], **_adict(a[1], "n"))
        elif code == 2:
            if exotic and a[3]:      # e.g. the attribute key "edge_type": only expressible through an edge triple
                G.add_edges_from([(lab(a[0]), lab(a[1]), _adict(a[3], "e"))], et(a[2]))
            else:
                call("add_edge", ["u_of_edge", "v_of_edge", "edge_type"], [lab(a[0]), lab(a[1]), et(a[2])], **_adict(a[3], "e"))
        elif code == 3:
            eb = [((lab(u), lab(v), _adict(d, "e")) if (d or T3[0]) else (lab(u), lab(v))) for u, v, d in a[0]]
            arg, base, snap = _bulk("e3", eb, a[2] if len(a) > 2 else 0)
            call("add_edges_from", ["ebunch_to_add", "edge_type"], [arg, et(a[1])])
        elif code == 4:
            call("remove_node", ["n"], [lab(a[0])])
        elif code == 5:
            arg, base, snap = _bulk("n", [lab(n) for n in a[0]], a[1] if len(a) > 1 else 0)
            call("remove_nodes_from", ["nodes"], [arg])
        elif code == 6:
            call("remove_edge", ["u", "v", "edge_type"], [lab(a[0]), lab(a[1]), et(a[2])])
        elif code == 7:
            # "3-tuples (u, v, k) where k is ignored"
            arg, base, snap = _bulk("e2", [((lab(u), lab(v), "k") if T3[0] else (lab(u), lab(v))) for u, v in a[0]],
                                    a[2] if len(a) > 2 else 0)
            call("remove_edges_from", ["ebunch", "edge_type"], [arg, et(a[1])])
        elif code == 8:
            call("clear_edges", ["edge_type"], [et(a[0])])
        elif code == 9:
            mk = nx.DiGraph if a[1] else nx.Graph
            call("add_edge_type", ["graph", "edge_type"], [mk([(lab(u), lab(v)) for u, v in a[2]]), LNAMES[a[0]]])
        elif code == 10:
            call("remove_edge_type", ["edge_type"], [LNAMES[a[0]]])
        elif code == 11:
            G.graph.update(_adict(a[0], "g"))
        elif code == 12:
            objs.append(None)
            objs[-1] = G.copy()
        elif code == 14:
            G.clear()
        elif code == 15:
            # attributes first given through add_node / add_nodes_from, later edited through the node view
            if lab(a[0]) in G:
                G.nodes[lab(a[0])].update(_adict(a[1], "n"))
        elif code == 16:
            nm = LNAMES[a[2]]
            if nm in G.edge_types and G.has_edge(lab(a[0]), lab(a[1]), nm):
                G.get_graphs(nm).edges[lab(a[0]), lab(a[1])].update(_adict(a[3], "e"))
        elif code == 17:
            eb = [((lab(u), lab(v), _adict(d, "e")) if (d or T3[0]) else (lab(u), lab(v))) for u, v, d in a[1]]
            G.update(edges=eb, nodes=[lab(n) for n in a[0]], edge_type=et(a[2]))
        else:
            objs.append(None)
            ns, base, snap = _bulk("n", [lab(n) for n in a[0] if lab(n) in G], a[1] if len(a) > 1 else 0)
            H = G.subgraph(ns)
            if base != snap:
                return None, "argument-mutated:subgraph"
            note = None
            # attributes in a subgraph are not a clause of C02: accept "dropped" or "carried", normalise to dropped
            for n, d in H.nodes(data=True):
                if d and d != G.nodes[n]:
                    note = "subgraph-node-attrs-invented"
                d.clear()
            for nm in H.edge_types:
                for u, v, d in H.get_graphs(nm).edges(data=True):
                    if d and (nm not in G.edge_types or d != G.get_graphs(nm).get_edge_data(u, v)):
                        note = "subgraph-edge-attrs-invented"
                    d.clear()
            if H.graph != G.graph and H.graph:
                note = "subgraph-graph-attrs-invented"
            H.graph.clear()
            H.graph.update(G.graph)
            objs[-1] = H
            return None, note
    except Exception as e:  # noqa
        return type(e).__name__, ("argument-mutated:" + OPNAMES[code] if base != snap else None)
    if base != snap:
        return None, "argument-mutated:" + OPNAMES[code]
    return None, None


def run_impl(case):
    import pywhy_graphs.networkx as pywhy_nx
    from pywhy_graphs import ADMG
    lab, inv = _labeler(case)
    N = case["N"]
    ks = case.get("_keys")
    _KEYS.update({"n": AK, "e": AK, "g": AK} if not ks else {"n": ks[0], "e": ks[1], "g": ks[2]})
    KW[0] = 1 if case.get("_kw") else 0
    T3[0] = 1 if case.get("_t3") else 0
    _decoy()
    if case.get("init"):
        import networkx as nx
        gs = [(nx.DiGraph if kd else nx.Graph)([(lab(u), lab(v)) for u, v in es]) for nm, kd, es in case["init"]]
        objs = [pywhy_nx.MixedEdgeGraph(graphs=gs, edge_types=[LNAMES[nm] for nm, kd, es in case["init"]])]
    else:
        objs = [ADMG() if case["cls"] else pywhy_nx.MixedEdgeGraph()]
    _ARGS.clear()
    steps = []
    for op in case["ops"]:
        nb = len(objs)
        tgt = objs[op[1]] if op[1] < nb else None
        held = _hold(tgt, [lab(i) for i in range(N)]) if tgt is not None else None
        exc, note = _apply(objs, op, lab, N)
        if held is not None and note is None:
            note = _check_held(tgt, held, [lab(i) for i in range(N)])
        obs = []
        for i, G in enumerate(objs):
            if G is None:
                obs.append({"dead": exc})
            elif i == op[1] or i >= nb:
                obs.append(_Obs(G, N, lab, inv).full())
            else:
                obs.append(_Obs(G, N, lab, inv).brief())
        st = {"raised": exc, "objs": obs}
        if note:
            st["note"] = note
        steps.append(st)
    return steps


# ------------------------------------------------------------------ comparison
ORDER = ["nodes", "graph_attrs", "layers", "edges", "adj", "has_edge", "has_edge_any", "number_of_edges",
         "number_of_edges_layer", "number_of_edges_uv_layer", "number_of_edges_uv", "size", "size_layer", "neighbors",
         "degree", "degree_weighted", "size_weighted", "size_weighted_layer", "get_edge_data", "to_undirected", "to_directed",
         "copy_eq"]


def first_diff(case, impl, model):
    """(step index, object index, field) of the first disagreement, or None"""
    if not isinstance(impl, list):
        return (0, 0, "harness:" + str(impl.get("exc")))
    # corpus cases may project the comparison on the observables of ONE past defect (case["_only"]), so that a
    # regression of it is reported under its own name even while another defect disagrees earlier in the history
    only = case.get("_only")
    for k, (si, sm) in enumerate(zip(impl, model)):
        op = case["ops"][k]
        if only is None or "outcome" in only:
            if sm["outcome"] == 0 and si["raised"]:
                return (k, op[1], "raises:" + OPNAMES[op[0]])
            if sm["outcome"] == 2 and not si["raised"]:
                return (k, op[1], "does-not-raise:" + OPNAMES[op[0]])
            if si.get("note"):
                return (k, op[1], si["note"])
            if len(si["objs"]) != len(sm["objs"]):
                return (k, op[1], "object-count")
        for j, (oi, om) in enumerate(zip(si["objs"], sm["objs"])):
            if "dead" in oi:
                if only is None or "outcome" in only:
                    return (k, j, "raises:" + OPNAMES[op[0]])
                continue
            for f in ORDER:
                if only is not None and f not in only:
                    continue
                if f in om and oi.get(f) != om[f]:
                    return (k, j, f)
    return None


OPNAMES = ["add_node", "add_nodes_from", "add_edge", "add_edges_from", "remove_node", "remove_nodes_from", "remove_edge",
           "remove_edges_from", "clear_edges", "add_edge_type", "remove_edge_type", "graph.update", "copy", "subgraph", "clear",
           "nodes[n].update", "layer.edges[u,v].update", "update"]


def compare(case, impl, model):
    d = first_diff(case, impl, model)
    return None if d is None else d[2]


def classify(case, impl, model):
    """failure class = first disagreeing observable (keeps the shrinker on the same failure); only keys listed in
    KNOWN_FINDINGS.json suppress anything, every other key is reported as a VIOLATION"""
    d = first_diff(case, impl, model)
    return None if d is None else "first:" + d[2]


def nontrivial(case, model):
    if not model:
        return False
    last = model[-1]["objs"]
    has_edge = any(any(t and any(t[0][2]) for t in o["layers"]) for o in last)
    return has_edge and (len(last) > 1 or any(s["outcome"] != 0 for s in model))


def key(case):
    return (case["cls"], case["N"], repr(case.get("init")), repr(case["ops"]))


def shrink(case):
    ops = case["ops"]
    # cut the tail after the first disagreement is the framework's job (it only knows still-fails): try prefixes first
    for n in range(1, len(ops)):
        yield dict(case, ops=ops[:n])
    for i in range(len(ops) - 1, -1, -1):
        rest = ops[:i] + ops[i + 1:]
        # dropping a copy/subgraph shifts later object ids: drop only if no later op refers to a later object
        if ops[i][0] in (12, 13):
            n_before = 1 + sum(1 for o in ops[:i] if o[0] in (12, 13))
            if any(o[1] >= n_before for o in ops[i + 1:]):
                rest = [(o if o[1] < n_before else [o[0], o[1] - 1] + o[2:]) if o[1] != n_before else None
                        for o in ops[i + 1:]]
                if any(r is None for r in rest):
                    continue
                rest = ops[:i] + rest
        yield dict(case, ops=rest)
    if case["N"] > 2:
        mx = 0
        for o in ops + _init_ops(case):
            for x in _nodes_of(o):
                mx = max(mx, x)
        if mx + 1 < case["N"]:
            yield dict(case, N=mx + 1)
    init = case.get("init") or []
    for i in range(len(init)):
        if len(init) > 1:
            yield dict(case, init=init[:i] + init[i + 1:])
        for j in range(len(init[i][2])):
            yield dict(case, init=init[:i] + [[init[i][0], init[i][1], init[i][2][:j] + init[i][2][j + 1:]]] + init[i + 1:])
    # simplify arguments: drop attrs
    for i, o in enumerate(ops):
        if o[0] in (0, 1) and o[3]:
            yield dict(case, ops=ops[:i] + [o[:3] + [[]]] + ops[i + 1:])
        if o[0] == 2 and o[5]:
            yield dict(case, ops=ops[:i] + [o[:5] + [[]]] + ops[i + 1:])


def _nodes_of(o):
    c, a = o[0], o[2:]
    if c in (0, 4, 15):
        return [a[0]]
    if c == 16:
        return [a[0], a[1]]
    if c == 17:
        return list(a[0]) + [x for e in a[1] for x in e[:2]]
    if c in (1, 5, 13):
        return list(a[0])
    if c in (2, 6):
        return [a[0], a[1]]
    if c in (3, 7):
        return [x for e in a[0] for x in e[:2]]
    if c == 9:
        return [x for e in a[2] for x in e[:2]]
    return []
