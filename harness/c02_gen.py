"""History generators for C02. Ops are sx-shaped lists [code, obj, args...] (see Model.sx_op):
 0 add_node n attrs | 1 add_nodes_from ns attrs | 2 add_edge u v et attrs | 3 add_edges_from [[u,v,attrs]..] et
 4 remove_node n | 5 remove_nodes_from ns | 6 remove_edge u v et | 7 remove_edges_from [[u,v]..] et | 8 clear_edges et
 9 add_edge_type name kind [[u,v]..] | 10 remove_edge_type name | 11 graph.update attrs | 12 copy | 13 subgraph ns
 14 clear | 15 G.nodes[n].update(attrs) | 16 G.get_graphs(name).edges[u,v].update(attrs): [16,o,u,v,name,attrs]
 17 update(edges=[[u,v,attrs]..], nodes=ns, edge_type=et): [17,o,ns,es,et]
 et 10..14: the EdgeType enum member DIRECTED/BIDIRECTED/UNDIRECTED/CIRCLE/ALL instead of its string (unknown edge type)
 bulk ops (1, 3, 5, 7, 13) take an optional trailing container flavour: 0 list, 1 tuple, 2 generator, 3 set, 4 frozenset,
 5 dict keys (where hashable), 6 str of one-character labels (else list);
 their element lists may be empty, contain duplicates (also {u,v} / {v,u} twice) and absent elements
 et: 0 directed 1 bidirected 2 undirected 3 extra 4 "all"; kind: 0 nx.Graph 1 nx.DiGraph; attrs [[key, value]..]."""
import itertools

ALL = 4

# reduced alphabet for the exhaustive stream (universe {0,1,2}; obj 0 = the initial object, obj 1 = first copy/subgraph)
ALPHABET = [
    [0, 0, 0, [[0, 1]]],                # add_node(0, a0=1)
    [2, 0, 0, 1, 0, []],                # add_edge(0,1,'directed')
    [2, 0, 0, 1, ALL, [[0, 2]]],        # add_edge(0,1,'all', a0=2)
    [2, 0, 1, 0, 3, []],                # add_edge(1,0,'extra')
    [2, 0, 1, 1, ALL, []],              # add_edge(1,1,'all')  (self loop)
    [3, 0, [[1, 2, [[1, 3]]]], 1],      # add_edges_from([(1,2,{a1:3})],'bidirected')
    [4, 0, 1],                          # remove_node(1)
    [5, 0, [1, 2, 1], 0],               # remove_nodes_from([1, 2, 1])      (duplicate, possibly absent)
    [5, 0, [0], 2],                     # remove_nodes_from(n for n in [0]) (generator)
    [3, 0, [[0, 1, []], [1, 0, []], [0, 1, [[0, 1]]]], ALL, 2],   # add_edges_from(generator with duplicates, 'all')
    [7, 0, [[0, 1], [0, 1]], ALL, 2],   # remove_edges_from(generator with a duplicate, 'all')
    [6, 0, 0, 1, 0],                    # remove_edge(0,1,'directed')
    [6, 0, 0, 1, ALL],                  # remove_edge(0,1,'all')
    [7, 0, [[1, 0]], ALL],              # remove_edges_from([(1,0)],'all')
    [8, 0, ALL],                        # clear_edges()
    [14, 0],                            # clear()
    [9, 0, 3, 0, []],                   # add_edge_type(nx.Graph(), 'extra')
    [9, 0, 3, 1, [[1, 0]]],             # add_edge_type(nx.DiGraph([(1,0)]), 'extra')
    [9, 0, 0, 1, [[0, 1]]],             # add_edge_type(nx.DiGraph([(0,1)]), 'directed')
    [10, 0, 3],                         # remove_edge_type('extra')
    [10, 0, 0],                         # remove_edge_type('directed')
    [11, 0, [[1, 1]]],                  # graph.update(a1=1)
    [12, 0],                            # copy()
    [13, 0, [0, 1]],                    # subgraph([0,1])
    [2, 1, 0, 1, 3, [[0, 3]]],          # on the second object: add_edge(0,1,'extra', a0=3)
    [4, 1, 0],                          # on the second object: remove_node(0)
]
ALPHABET_DOC = "%d ops: node/edge/edge-type add and remove on nodes {0,1,2}, 'all' and named types, copy, subgraph, two ops on the second object" % len(ALPHABET)


def exhaustive_histories(cls, length, sample=None, rng=None):
    if sample is None:
        for h in itertools.product(ALPHABET, repeat=length):
            yield [list(o) for o in h]
    else:
        for _ in range(sample):
            yield [list(rng.choice(ALPHABET)) for _ in range(length)]


def _attrs(rng, p=0.4):
    if rng.random() > p:
        return []
    ks = [0, 1] if rng.random() < 0.3 else [rng.randint(0, 1)]
    return [[k, rng.randint(0, 3)] for k in ks]


def random_history(rng, cls, length, N=4, max_objs=4, enum=0.03):
    """random walk with a light shadow of each object's layers, biased to the interleavings the property names"""
    layers = [set([0, 1, 2]) if cls else set()]      # per object: layer names believed present
    ops = []
    last_removed = None
    recent = []      # (obj, u, v, et) of recently added edges: removals are aimed at them

    def node():
        return rng.randrange(N)

    def pair():
        u = node()
        v = node()
        if rng.random() < 0.07:
            return u, u          # self loop (legal in networkx; degree counts it twice)
        while v == u:
            v = node()
        return u, v

    def flav():
        return rng.choice([0, 0, 0, 1, 1, 2, 2, 3, 4, 5, 6])

    def bulk(items):
        """boundary variants of a bulk argument: empty, duplicated elements, as generated"""
        r = rng.random()
        if r < 0.08:
            return []
        if r < 0.40 and items:
            items = items + [rng.choice(items) for _ in range(rng.randint(1, 2))]
            rng.shuffle(items)
        return items

    def sel(o, p_all=0.25, p_absent=0.08):
        if rng.random() < enum:
            return rng.choice([10, 10, 11, 12, 13, 14])
        r = rng.random()
        if r < p_all:
            return ALL
        if r < p_all + p_absent or not layers[o]:
            return rng.randrange(4)
        return rng.choice(sorted(layers[o]))

    while len(ops) < length:
        o = rng.randrange(len(layers))
        r = rng.random()
        if not layers[o] and r < 0.5:
            r = 0.62  # add a layer first
        if last_removed is not None and rng.random() < 0.3:
            # remove-then-re-add
            op = list(last_removed)
            last_removed = None
            ops.append(op)
            if op[0] == 9:
                layers[op[1]].add(op[2])
            continue
        if r < 0.06:
            op = [0, o, node(), _attrs(rng)]
        elif r < 0.08:
            if rng.random() < 0.6:
                op = [15, o, node(), _attrs(rng, 1.0)]
            elif recent:
                ro, u, v, t = rng.choice(recent)
                op = [16, ro, u, v, t if t < 4 else rng.randrange(4), _attrs(rng, 1.0)]
            else:
                op = [17, o, sorted(rng.sample(range(N), rng.randint(0, 2))),
                      [[*pair(), _attrs(rng, 0.3)] for _ in range(rng.randint(0, 2))], sel(o)]
        elif r < 0.12:
            op = [1, o, bulk(sorted(rng.sample(range(N), rng.randint(1, 3)))), _attrs(rng, 0.2), flav()]
        elif r < 0.34:
            u, v = pair()
            op = [2, o, u, v, sel(o), _attrs(rng)]
            recent.append((o, u, v, op[4]))
            del recent[:-6]
        elif r < 0.40:
            es = []
            for _ in range(rng.randint(1, 3)):
                u, v = pair()
                es.append([u, v, _attrs(rng, 0.3)])
            es = bulk(es)
            if es and rng.random() < 0.3:
                es.append([es[0][1], es[0][0], _attrs(rng, 0.3)])      # the reversed pair as well
            op = [3, o, es, sel(o), flav()]
        elif r < 0.44:
            n = node()
            op = [4, o, n]
            last_removed = [0, o, n, []]
        elif r < 0.47:
            op = [5, o, bulk(sorted(rng.sample(range(N), rng.randint(1, 3)))), flav()]
        elif r < 0.54:
            u, v = pair()
            t = sel(o)
            if recent and rng.random() < 0.6:
                o, u, v, t = rng.choice(recent)
                if rng.random() < 0.2:
                    u, v = v, u
                if t == ALL and layers[o] and rng.random() < 0.5:
                    t = rng.choice(sorted(layers[o]))
            op = [6, o, u, v, t]
            last_removed = [2, o, u, v, t, _attrs(rng)]
        elif r < 0.57:
            op = [7, o, bulk([list(pair()) for _ in range(rng.randint(1, 3))]), sel(o), flav()]
        elif r < 0.59:
            op = [8, o, sel(o, p_all=0.5)]
        elif r < 0.60:
            op = [14, o]
        elif r < 0.70:
            nm = rng.randrange(4)
            es = [list(pair()) for _ in range(rng.choice([0, 0, 1, 2]))]
            op = [9, o, nm, rng.randint(0, 1), es]
            layers[o].add(nm)
        elif r < 0.75:
            nm = rng.choice(sorted(layers[o])) if layers[o] and rng.random() < 0.85 else rng.randrange(4)
            op = [10, o, nm]
            if nm in layers[o]:
                layers[o].discard(nm)
                last_removed = [9, o, nm, rng.randint(0, 1), []]
        elif r < 0.78:
            op = [11, o, _attrs(rng, 1.0)]
        elif r < 0.90:
            if len(layers) >= max_objs:
                continue
            op = [12, o]
            layers.append(set(layers[o]))
        else:
            if len(layers) >= max_objs:
                continue
            op = [13, o, bulk(sorted(rng.sample(range(N), rng.randint(1, N)))), flav()]
            layers.append(set(layers[o]))
        ops.append(op)
    return ops
