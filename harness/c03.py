"""C03 — PAG / CPDAG / AugmentedPAG / StationaryTimeSeries{PAG,CPDAG} never hold contradictory marks on a node pair.

Tie T: /verif/translator/guards.py regenerates coq/theories/Gen/Gen_{Guards,Orient}.v from $VERIF_REPO before every build
(pre_build); the generated tables are dumped by the extracted model (case kind "table") and compared cell by cell with
the real functions evaluated on two-node graphs.  Tie K: operation histories on the five classes.
extra(): the 64 x 2 x 5 cells (and orient / bulk / is_valid_mec_graph cells) are evaluated on the REAL classes against
the hand-stated invariant; the first bad cell of every kind is turned into a 1-2 operation history replayed through the
public API only."""
import itertools
import os
import subprocess
import sys

import framework as fw
import graphs as gr

PROP = "C03"
SPOT_N = 12
IMPL_TIMEOUT = 60

CLS_NAMES = ["PAG", "CPDAG", "AugmentedPAG", "StationaryTimeSeriesPAG", "StationaryTimeSeriesCPDAG"]
PAG_LIKE = [True, False, True, True, False]
TS = [False, False, False, True, True]
ET_NAMES = ["directed", "bidirected", "undirected", "circle", "all"]      # index = etype code of the model
LAYER_KEYS = {"directed": "D", "bidirected": "B", "undirected": "U", "circle": "C"}
OP_ADD, OP_ADDS, OP_REM, OP_REMS, OP_ORIENT, OP_CTOR, OP_ORIENTLAG = range(7)   # ORIENTLAG: orient(u, v) with u LATER than v
# harness-only entry points, mapped onto model ops by encode():
#   ADD_ATTR / ADDS_ATTR : add_edge(u, v, et, weight=1) / add_edges_from(es, et, weight=1)          -> AddEdge / AddEdges
#   UPD_LIST             : update(edges=<container of pairs>, edge_type=et)                         -> AddEdges
#   UPD_LIST_NODES       : update(edges=<container>, nodes=<all nodes>, edge_type=et)               -> AddEdges
#   UPD_NODES            : update(nodes=<all nodes>)                                                -> no edge change, must not raise
#   UPD_GRAPH            : update(edges=<networkx graph holding the pairs>, edge_type=et); only as LAST op of a history:
#                          accepted outcomes = raises with unchanged edge sets, or the guarded bulk insertion (AddEdges)
OP_ADD_ATTR, OP_ADDS_ATTR, OP_UPD_LIST, OP_UPD_LIST_NODES, OP_UPD_NODES, OP_UPD_GRAPH = range(7, 13)
MODEL_OP = {OP_ADD_ATTR: OP_ADD, OP_ADDS_ATTR: OP_ADDS, OP_UPD_LIST: OP_ADDS, OP_UPD_LIST_NODES: OP_ADDS, OP_UPD_GRAPH: OP_ADDS}
UPD_OPS = (OP_UPD_LIST, OP_UPD_LIST_NODES, OP_UPD_NODES, OP_UPD_GRAPH)
# ARGUMENT SPELLINGS.  [OP_SPELL, spelling, base] with base an ADD / ADDS / REM / REMS op (edge type never "all"):
#   "kw"      every argument by keyword (names taken from the method's own signature)      -> exactly the base op
#   "enum"    edge_type given as the pywhy_graphs.config.EdgeType member                    -> EITHER
#   "kwenum"  both                                                                          -> EITHER
#   "tuple3"  bulk ops: every edge as (u, v, {attribute dict})                              -> EITHER
#   "none"    edge_type=None                                                                -> must raise, graph unchanged
# EITHER (also OP_UPD_GRAPH) = the call raises and leaves the FULL snapshot unchanged, or it behaves exactly as the base op with
# the plain string (guards included); such an op is always the LAST op of its history.  An accepted spelling that by-passes a
# guard differs from the model's guarded base op and is reported.
# [OP_QUERY, u, v, et]: has_edge in every spelling (string / keyword / enum / no edge type); must agree with each other (the enum
# form may raise instead), and must not change the graph.
OP_SPELL, OP_QUERY = 13, 14
EITHER_SPELLINGS = ("enum", "kwenum", "tuple3")
BASE_METHOD = {OP_ADD: "add_edge", OP_ADDS: "add_edges_from", OP_REM: "remove_edge", OP_REMS: "remove_edges_from"}


def is_either(o):
    return o[0] == OP_UPD_GRAPH or (o[0] == OP_SPELL and o[1] in EITHER_SPELLINGS)


def model_op(o):
    if o[0] in (OP_UPD_NODES, OP_QUERY) or (o[0] == OP_SPELL and o[1] == "none"):
        return [OP_REMS, [], 0]
    if o[0] == OP_SPELL:
        return model_op(o[2])
    if o[0] == OP_CTOR:
        return list(o[:5])                    # which arguments were passed, and in which form, is the implementation's business
    return [MODEL_OP.get(o[0], o[0])] + list(o[1:])

RULE = ("histories of add_edge / add_edges_from (1-3 elements, also self-conflicting) / remove_edge / remove_edges_from / "
        "orient_uncertain_edge / constructor calls on the five classes; every op followed by all layers' edge sets, "
        "raised-or-not, is_valid_mec_graph, a direct check of the pair invariant on the real graph and (after a raise) "
        "snapshot equality with the pre-state. distinct by (class, op list); non-trivial = some op raised and some op "
        "changed the graph. Entry points: add_edge / add_edges_from also with keyword attributes, MixedEdgeGraph.update(edges=list|"
        "tuple|one-shot iterator|dict-keys, nodes=..., edge_type=...) = guarded bulk add, update(nodes=...) = no edge change, "
        "update(edges=<networkx graph>) as last op: accepted = raises with unchanged edge sets or the guarded insertion, never a "
        "contradictory graph, and after any raise the FULL snapshot (node set included) equals the pre-state; a stream with "
        "identity-hashed label objects. Constructor: every non-empty subset of the edge-list keyword arguments actually passed (the "
        "others left at None), as list / dict-of-dicts / networkx graph / generator (time-series: list / graph), first argument "
        "also positionally, contents every combination of the 2-node lists incl. self-contradicting and mutually contradicting "
        "ones: constructed iff the model's graph is valid. Argument spellings of add_edge / add_edges_from / remove_edge / remove_edges_from after every "
        "single-op prefix: all-keyword (names from the method's signature) = exactly the positional op; EdgeType enum member, "
        "keyword+enum, (u, v, {attrs}) 3-tuples in bulk ops = EITHER rejected with the full snapshot unchanged OR exactly the "
        "guarded op with the plain string; edge_type=None must raise with the snapshot unchanged; has_edge in string / keyword / "
        "enum / untyped spelling must agree and not change the graph. Alias stream: two objects built from the SAME constructor argument objects (networkx graph per layer / "
        "dict-of-dicts / edge lists), ops on either, both objects and the argument objects observed after every op; bulk list "
        "arguments snapshotted; explicitly empty and duplicate-element batches. Plus the generated-table case: 640+640 guard cells, 4x128 orient cells, 80 lagged-pair orient cells "
        "(both argument orders w.r.t. time), 5x64 mec cells.")
EXHAUSTIVE = {"quick": "all op sequences of length <= 2 over the 2-node alphabet (single/bulk add, remove, orient; every edge "
                       "type) for each of the 5 classes; all constructor edge-list combinations on 2 nodes; all 64 pair states x "
                       "2 directions x 5 edge types of both guards, all orient cells, on the real functions",
              "thorough": "same with length <= 3 for PAG and CPDAG"}
TRUSTED = ["/verif/translator/guards.py (Python-ast -> Gallina; its output is re-compared cell by cell with the real functions "
           "through the extracted model on every run)",
           "networkx Graph/DiGraph add_edge / remove_edge / has_edge taken at face value"]
ASSUMPTIONS = ["default edge-type names (the guards compare with the literals 'directed' ...)",
               "time-series classes: default max_lag=1, stationary=True; contemporaneous nodes (v, 0) in the general streams and one "
               "lagged pair ((x0,-1),(x1,0)) with insertions given as (earlier, later); only the named copy of every homologous "
               "edge family is compared; which insertions the time-series layers refuse on lagged pairs is C13's subject",
               "no self loops, no attribute dicts in edge tuples, edge types restricted to the layers the class has (+ 'all')",
               "int node labels (label families are C15's job)"]
TECHNIQUE = ("Coq proof (complete case analysis by vm_compute over all 64 pair states x 2 directions x 5 edge types x 5 classes "
             "of guard / orient / wrapper tables GENERATED from the source on every run, lifted to all histories by induction "
             "over operation lists) + translator tie (T, generated tables re-compared cell by cell with the real functions) + "
             "extracted-model correspondence (K) for the glue")
LEVEL_TEXT = ("proof. Unbounded theorems (all histories, all node counts) about the model: c03_reachable (every reachable graph "
              "has only valid pairs and is accepted by is_valid_mec_graph), c03_raise_atomic, c03_orient_one_mark, and -- for the "
              "as-is machine WITH edge_type='all' insertions -- c03_all_breaks_only_validity (a pair is contradictory only if an "
              "'all' insertion named it; is_valid_mec_graph stays exact; raising insertions/constructor leave the graph identical; "
              "frame; atomic raise and one-mark of orient on every still-valid pair, contemporaneous and lagged), "
              "c03_first_break_is_all, c03_all_insertion_breaks (which clauses), c03_all_reaches_every_pair_state and "
              "c03_orient_nonatomic_on_contradictory (what does not survive). Finite lemmas (complete case analyses on the "
              "generated tables): guard_inductive, guard_atomic, orient_only_one_mark, orient_atomic, orient_lag_reversed (lagged "
              "pair, u later than v: StationaryTimeSeriesCPDAG orients forward in time = the call (v,u)), mec_accepts_valid, "
              "mec_rejects_invalid, wrappers_conform, guard_union, tspag_asis_pinned. Scope: PAG, CPDAG, AugmentedPAG, "
              "StationaryTimeSeriesCPDAG; StationaryTimeSeriesPAG (unguarded; pinned as-is) and 'all' are recorded known findings. "
              "Guard / orient / wrapper-shape / mec-selection parts of the model are translated from the Python source on every "
              "run; the glue (pair map, op dispatch, bulk and constructor semantics) is observed by correspondence only.")
LEVEL_NOTE = ("On a tree without the bulk-add repair wrappers_conform does not compile and both the K tie and extra() exhibit "
              "add_edges_from([(0,1),(1,0)], 'directed'). Known-finding classification is per pair and backed by "
              "c03_pair_valid_unless_all / c03_first_break_is_all: a contradictory pair that no accepted 'all' insertion named (since "
              "it was last valid) is reported even in histories containing 'all'. Lagged pairs: both lagswap instances of the "
              "time-series orient functions are tied cell by cell on the pair states the layers can hold (marks from the earlier "
              "to the later node only) and by exhaustive length<=3 histories on one lagged pair. "
              "Trusted: translator/guards.py (its output is cross-checked cell by cell through the extracted model).")


# ------------------------------------------------------------------ cases
def et_codes(cls):
    return [0, 1, 2, 3, 4] if PAG_LIKE[cls] else [0, 2, 4]


def alphabet(cls, nodes, bulk_max=2):
    ordered = [(a, b) for a in nodes for b in nodes if a != b]
    ops = []
    for et in et_codes(cls):
        for a, b in ordered:
            ops.append([OP_ADD, a, b, et])
            ops.append([OP_REM, a, b, et])
        for k in range(1, bulk_max + 1):
            for es in itertools.product(ordered, repeat=k):
                ops.append([OP_ADDS, [list(e) for e in es], et])
        if et != 4:
            for a, b in ordered:
                ops.append([OP_ADD_ATTR, a, b, et])                  # keyword-attribute forms (same guard expected)
            ops.append([OP_ADDS_ATTR, [list(ordered[0]), list(ordered[-1])], et])
            ops.append([OP_UPD_LIST, [list(ordered[0])], et])        # update(edges=[...], edge_type=...) = guarded bulk add
        ops.append([OP_ADDS, [], et])                                # boundary: explicitly empty batches
        ops.append([OP_REMS, [], et])
        ops.append([OP_REMS, [list(ordered[0]), list(ordered[0])], et])   # the same edge listed twice
    for a, b in ordered:
        ops.append([OP_ORIENT, a, b])
    return ops


def ctor_ops(cls):
    d_opts = [[], [[0, 1]], [[1, 0]], [[0, 1], [1, 0]]]
    out = []
    if PAG_LIKE[cls]:
        for d, u, b, c in itertools.product(d_opts, repeat=4):
            out.append([OP_CTOR, d, u, b, c])
    else:
        for d, u in itertools.product(d_opts, repeat=2):
            out.append([OP_CTOR, d, u, [], []])
    return out


def ctor_subset_ops(cls):
    """every non-empty SUBSET of the constructor's edge-list keyword arguments (the others are not passed at all), every argument
    kind, contents = every combination of the four 2-node lists per given argument, including lists that contradict themselves
    ([(0,1),(1,0)] directed) and each other; plus the no-argument call and the first argument given positionally"""
    opts = [[], [[0, 1]], [[1, 0]], [[0, 1], [1, 0]]]
    bits = (1, 2, 4, 8) if PAG_LIKE[cls] else (1, 2)
    # the time-series layers document "Not implemented yet for incoming graph data" of type dict / generator
    kinds = ("list", "graph") if TS[cls] else ("list", "dict", "graph", "gen")
    out = [[OP_CTOR, [], [], [], [], 0, "list"]]
    for mask in range(1, 1 << len(bits)):
        given = [b for i, b in enumerate(bits) if mask >> i & 1]
        m = sum(given)
        for contents in itertools.product(opts, repeat=len(given)):
            lists = {b: c for b, c in zip(given, contents)}
            for kind in kinds:
                out.append([OP_CTOR, lists.get(1, []), lists.get(2, []), lists.get(4, []), lists.get(8, []), m, kind])
            if m & 1:
                out.append([OP_CTOR, lists.get(1, []), lists.get(2, []), lists.get(4, []), lists.get(8, []), m, "list", 1])
    return out


def random_op(rng, cls, n):
    ets = et_codes(cls)

    def pair():
        a = rng.randrange(n)
        b = rng.randrange(n - 1)
        return [a, b + (b >= a)]
    r = rng.random()
    et = rng.choice(ets[:-1]) if rng.random() < 0.985 else ets[-1]
    if et != 4 and rng.random() < 0.06:
        return [OP_QUERY] + pair() + [et]
    if et != 4 and rng.random() < 0.06:
        return [OP_SPELL, "kw", rng.choice([[OP_ADD] + pair() + [et], [OP_REM] + pair() + [et], [OP_ADDS, [pair(), pair()], et]])]
    if r < 0.40:
        if et != 4 and rng.random() < 0.2:
            return [OP_ADD_ATTR] + pair() + [et]
        return [OP_ADD] + pair() + [et]
    if r < 0.60:
        k = rng.randint(1, 3)
        es = [pair() for _ in range(k)]
        if k > 1 and rng.random() < 0.4:
            es[-1] = [es[0][1], es[0][0]]          # self-conflicting candidates
        return [rng.choice([OP_ADDS, OP_ADDS, OP_ADDS_ATTR, OP_UPD_LIST]) if et != 4 else OP_ADDS, es, et]
    if r < 0.73:
        return [OP_REM] + pair() + [et]
    if r < 0.78:
        return [OP_REMS, [pair() for _ in range(rng.randint(1, 3))], et]
    if r < 0.96:
        return [OP_ORIENT] + pair()
    ed = lambda p: [pair() for _ in range(rng.randint(0, 2))] if rng.random() < p else []  # noqa: E731
    if PAG_LIKE[cls]:
        return [OP_CTOR, ed(.7), ed(.3), ed(.4), ed(.7)]
    return [OP_CTOR, ed(.7), ed(.7), [], []]


def gen_cases(tier, rng):
    yield {"kind": "table"}
    for cls in range(5):
        cs = ctor_ops(cls)
        for i in range(0, len(cs), 16):
            yield {"kind": "ctor", "cls": cls, "ops": cs[i:i + 16]}
        cs = ctor_subset_ops(cls)
        for i in range(0, len(cs), 8):
            yield {"kind": "ctor_subset", "cls": cls, "ops": cs[i:i + 8]}
    for cls in range(5):
        al = alphabet(cls, [0, 1])
        depth = 3 if (tier == "thorough" and cls in (0, 1)) else 2
        for o in al:
            yield {"kind": "hist1", "cls": cls, "ops": [o]}
        for seq in itertools.product(al, repeat=2):
            yield {"kind": "hist2", "cls": cls, "ops": list(seq)}
        if depth == 3:
            for seq in itertools.product(al, repeat=3):
                yield {"kind": "hist3", "cls": cls, "ops": list(seq)}
    # three nodes: every single op after every single op involving the shared node (interference across pairs)
    for cls in range(5):
        al3 = [o for o in alphabet(cls, [0, 1, 2], bulk_max=1)]
        step = 1 if tier == "thorough" else 15
        seqs = list(itertools.product(al3, repeat=2))
        for seq in seqs[::step]:
            yield {"kind": "hist2n3", "cls": cls, "ops": list(seq)}
    # MixedEdgeGraph.update is a public mutation entry point the five classes inherit: every form, after every single-op
    # prefix, with every container type for the bulk arguments; the networkx-graph form only as last op (see OP_UPD_GRAPH)
    for cls in range(5):
        pre = [[]] + [[o] for o in alphabet(cls, [0, 1], bulk_max=1) if o[0] in (OP_ADD, OP_ORIENT) and o[-1] != 4]
        ets = et_codes(cls)[:-1]
        batches = [[[0, 1]], [[1, 0]], [[0, 1], [1, 0]], [[1, 0], [1, 0]], []]
        finals = [[k, es, et] for k in (OP_UPD_LIST, OP_UPD_LIST_NODES, OP_UPD_GRAPH, OP_ADDS_ATTR) for es in batches for et in ets]
        finals.append([OP_UPD_NODES])
        n = 0
        for pr in pre:
            for fin in finals:
                n += 1
                yield {"kind": "update", "cls": cls, "ops": pr + [fin], "cont": ["list", "tuple", "iter", "dictkeys"][n % 4]}
    # ARGUMENT SPELLINGS of every guarded entry point (see OP_SPELL / OP_QUERY), after every single-op prefix
    for cls in range(5):
        pre = [[]] + [[o] for o in alphabet(cls, [0, 1], bulk_max=1) if o[0] in (OP_ADD, OP_ORIENT) and o[-1] != 4]
        finals = []
        for et in et_codes(cls)[:-1]:
            singles = [[k, a, b, et] for k in (OP_ADD, OP_REM) for (a, b) in ((0, 1), (1, 0))]
            bulks = [[k, es, et] for k in (OP_ADDS, OP_REMS) for es in ([[0, 1]], [[0, 1], [1, 0]], [[1, 0], [1, 2]])]
            finals += [[OP_SPELL, sp, b] for b in singles for sp in ("kw", "enum", "kwenum", "none")]
            finals += [[OP_SPELL, sp, b] for b in bulks for sp in ("kw", "enum", "kwenum", "tuple3", "none")]
            finals += [[OP_QUERY, 0, 1, et], [OP_QUERY, 1, 0, et]]
        for pr in pre:
            for fin in finals:
                yield {"kind": "spell", "cls": cls, "ops": pr + [fin]}
    # identity-hashed label objects (the bulk add validates on self.copy(): a copy that re-creates labels would split nodes)
    for cls in range(5):
        for _ in range(30 if tier == "quick" else 200):
            ops = [random_op(rng, cls, 3) for _ in range(12)]
            yield {"kind": "rand_obj", "cls": cls, "_lab": "obj", "ops": [o for o in ops if o[0] != OP_CTOR or rng.random() < 0.3],
                   "cont": rng.choice(["list", "tuple", "iter"])}
    # ARGUMENT INTEGRITY / ALIASING: two objects P, Q built from the SAME constructor argument objects (networkx graph objects
    # per layer, dict-of-dicts, edge lists); every op goes to P or to Q; both objects and the argument objects are observed after
    # every op.  No "all" insertions here (known finding, exercised elsewhere).
    for cls in range(5):
        if PAG_LIKE[cls]:
            ctors = [[OP_CTOR, [], [], [], [[0, 1], [1, 0]]], [OP_CTOR, [[1, 0]], [], [], [[0, 1]]], [OP_CTOR, [[0, 1]], [[0, 1]], [], []],
                     [OP_CTOR, [], [], [[0, 1]], []], [OP_CTOR, [], [], [], []]]
        else:
            ctors = [[OP_CTOR, [], [[0, 1]], [], []], [OP_CTOR, [[0, 1]], [], [], []], [OP_CTOR, [], [], [], []]]
        al = [[k, a, b, et] for et in et_codes(cls)[:-1] for (a, b) in ((0, 1), (1, 0)) for k in (OP_ADD, OP_REM)]
        al += [[OP_ORIENT, 0, 1], [OP_ORIENT, 1, 0], [OP_ADDS, [[0, 1], [0, 1]], 0], [OP_REMS, [[0, 1]], 0]]
        tal = [[tgt, o] for tgt in (0, 1) for o in al]
        # (the time-series layers document dict-of-dicts input as not implemented)
        kinds = ("graph", "list") if TS[cls] else ("graph", "dict", "list")
        for ctor in ctors:
            for argkind in kinds:
                for x in tal:
                    yield {"kind": "alias1", "cls": cls, "ctor": ctor, "argkind": argkind, "ops": [x]}
            seqs = list(itertools.product(tal, repeat=2))
            for seq in (seqs if tier == "thorough" else seqs[::5]):
                yield {"kind": "alias2", "cls": cls, "ctor": ctor, "argkind": "graph", "ops": list(seq)}
        for _ in range(20 if tier == "quick" else 200):
            yield {"kind": "alias_rand", "cls": cls, "ctor": rng.choice(ctors), "argkind": rng.choice(kinds[:2] + ("graph",)),
                   "ops": [rng.choice(tal) for _ in range(12)]}
    # time-series classes on a LAGGED pair: node 0 = (x0, -1) earlier, node 1 = (x1, 0) later.  The layers only accept marks
    # given as (earlier, later), so insertions / removals name (0, 1); orient is called in both argument orders:
    # Orient 0 1 (u earlier: lagswap=false) and OrientLag 1 0 (u later: the lagswap=true instance of the generated function)
    for cls in (3, 4):
        al = []
        for et in et_codes(cls):
            al += [[OP_ADD, 0, 1, et], [OP_REM, 0, 1, et], [OP_ADDS, [[0, 1]], et]]
        al += [[OP_ORIENT, 0, 1], [OP_ORIENTLAG, 1, 0]]
        for n in (1, 2, 3):
            for seq in itertools.product(al, repeat=n):
                yield {"kind": "lagged%d" % n, "cls": cls, "lags": [-1, 0], "ops": list(seq)}
    nr, ln = (60, 25) if tier == "quick" else (400, 200)
    for cls in range(5):
        for _ in range(nr):
            yield {"kind": "rand", "cls": cls, "ops": [random_op(rng, cls, 3) for _ in range(ln)]}
        for _ in range(nr):   # valid-biased: mostly guarded single ops, so that long valid histories are reached
            ops = []
            for _ in range(ln):
                o = random_op(rng, cls, 3)
                while o[0] in (OP_ADDS, OP_CTOR) and rng.random() < 0.7:
                    o = random_op(rng, cls, 3)
                ops.append(o)
            yield {"kind": "rand", "cls": cls, "ops": ops}


def encode(case):
    if case["kind"] == "table":
        return [1]
    if case["kind"].startswith("alias"):
        return [2, case["cls"], case["ctor"], [[tgt, model_op(o)] for tgt, o in case["ops"]]]
    return [0, case["cls"], [model_op(o) for o in case["ops"]]]


def decode(case, v):
    if case["kind"] == "table":
        return {"table": v}
    obs = lambda s: {"raised": bool(s[0]), "mec": bool(s[1]), "D": s[2], "B": s[3], "U": s[4], "C": s[5]}  # noqa: E731
    if case["kind"].startswith("alias"):
        return {"steps2": [[obs(r[0]), obs(r[1])] for r in v]}
    return {"steps": [{"raised": bool(s[0]), "mec": bool(s[1]), "D": s[2], "B": s[3], "U": s[4], "C": s[5]} for s in v]}


# ------------------------------------------------------------------ real classes
def _classes():
    from pywhy_graphs import CPDAG, PAG
    from pywhy_graphs.classes.augmented import AugmentedPAG
    from pywhy_graphs.classes.timeseries import StationaryTimeSeriesCPDAG, StationaryTimeSeriesPAG
    return [PAG, CPDAG, AugmentedPAG, StationaryTimeSeriesPAG, StationaryTimeSeriesCPDAG]


def node_maps(cls, case=None):
    """time-series classes: node v is (label(v), lag) with lag 0, or case["lags"][v] for the lagged-pair histories"""
    lab, inv = gr.labeler(case)
    if TS[cls]:
        lags = (case or {}).get("lags") or [0, 0, 0]
        nd = lambda v: (lab(v), lags[v])  # noqa: E731
        keep = {nd(v) for v in range(len(lags))}
        inv2 = lambda x: inv(x[0])  # noqa: E731
        inv2.keep = keep
        return nd, inv2
    return lab, inv


def construct(cls, nd, d=(), u=(), b=(), c=()):
    K = _classes()[cls]
    m = lambda es: [(nd(x), nd(y)) for x, y in es]  # noqa: E731
    if PAG_LIKE[cls]:
        return K(incoming_directed_edges=m(d), incoming_undirected_edges=m(u), incoming_bidirected_edges=m(b),
                 incoming_circle_edges=m(c))
    return K(incoming_directed_edges=m(d), incoming_undirected_edges=m(u))


def observe(G, cls, inv):
    """per-layer edge sets among lag-0 nodes, plus the pair invariant evaluated directly on ALL real node pairs"""
    out = {"D": [], "B": [], "U": [], "C": []}
    marks = {}
    for name, lg in G.get_graphs().items():
        k = LAYER_KEYS[name]
        for a, b in lg.edges():
            p = (a, b) if repr(a) <= repr(b) else (b, a)
            bits = marks.setdefault(p, set())
            if k in "DC":
                bits.add(k + ("f" if (a, b) == p else "r"))
            else:
                bits.add(k)
            if TS[cls] and (a not in inv.keep or b not in inv.keep):
                continue                      # homologous copies of the compared edges
            x, y = inv(a), inv(b)
            if k in "BU":
                x, y = min(x, y), max(x, y)
            out[k].append([x, y])
    for k in out:
        out[k] = sorted(out[k])
    ok = True
    for bits in marks.values():
        if PAG_LIKE[cls]:
            if "B" in bits and bits & {"Df", "Dr", "Cf", "Cr"}:
                ok = False
            if {"Df", "Dr"} <= bits or {"Df", "Cf"} <= bits or {"Dr", "Cr"} <= bits:
                ok = False
        else:
            if "U" in bits and bits & {"Df", "Dr"}:
                ok = False
            if {"Df", "Dr"} <= bits:
                ok = False
    out["inv"] = ok
    return out


_CONT = ["list"]     # container type used for bulk arguments of the attr / update entry points (case["cont"])


def container(items):
    c = _CONT[0]
    if c == "tuple":
        return tuple(items)
    if c == "iter":
        return iter(items)              # a one-shot iterator: a wrapper that walks the batch twice sees nothing the second time
    if c == "dictkeys":
        return dict.fromkeys(items).keys()
    return list(items)


_ARG_MUTATED = []   # filled when a call changed a mutable argument (bulk list); read by run_history after every op


def apply_op(G, cls, nd, o):
    """returns the graph to continue with (a new object after a successful constructor call)"""
    k = o[0]
    if k == OP_ADD:
        if o[3] == 4 and o[1] % 2 == 0:
            G.add_edge(nd(o[1]), nd(o[2]))             # default edge_type
        else:
            G.add_edge(nd(o[1]), nd(o[2]), ET_NAMES[o[3]])
    elif k == OP_ADDS:
        arg = [(nd(a), nd(b)) for a, b in o[1]]
        keep = list(arg)
        try:
            G.add_edges_from(arg, ET_NAMES[o[2]])
        finally:
            if arg != keep:
                _ARG_MUTATED.append("add_edges_from")
    elif k == OP_REM:
        G.remove_edge(nd(o[1]), nd(o[2]), ET_NAMES[o[3]])
    elif k == OP_REMS:
        arg = [(nd(a), nd(b)) for a, b in o[1]]
        keep = list(arg)
        try:
            G.remove_edges_from(arg, ET_NAMES[o[2]])
        finally:
            if arg != keep:
                _ARG_MUTATED.append("remove_edges_from")
    elif k in (OP_ORIENT, OP_ORIENTLAG):
        G.orient_uncertain_edge(nd(o[1]), nd(o[2]))
    elif k == OP_ADD_ATTR:
        G.add_edge(nd(o[1]), nd(o[2]), ET_NAMES[o[3]], weight=1)
    elif k == OP_ADDS_ATTR:
        G.add_edges_from(container([(nd(a), nd(b)) for a, b in o[1]]), ET_NAMES[o[2]], weight=1)
    elif k == OP_UPD_LIST:
        G.update(edges=container([(nd(a), nd(b)) for a, b in o[1]]), edge_type=ET_NAMES[o[2]])
    elif k == OP_UPD_LIST_NODES:
        G.update(edges=container([(nd(a), nd(b)) for a, b in o[1]]), nodes=container([nd(v) for v in range(3)]),
                 edge_type=ET_NAMES[o[2]])
    elif k == OP_UPD_NODES:
        G.update(nodes=container([nd(v) for v in range(2)]))
    elif k == OP_SPELL:
        spelled_call(G, nd, o[1], o[2])
    elif k == OP_QUERY:
        bad = query_spellings(G, nd, o[1], o[2], ET_NAMES[o[3]])
        if bad:
            _ARG_MUTATED.append("has_edge:" + bad)
    elif k == OP_UPD_GRAPH:
        import networkx as nx
        H = (nx.DiGraph if o[2] in (0, 3) else nx.Graph)([(nd(a), nd(b)) for a, b in o[1]])
        G.update(edges=H, edge_type=ET_NAMES[o[2]])
    elif k == OP_CTOR:
        if len(o) > 5:
            kw = ctor_args(cls, nd, o, "list")
            if len(o) > 7 and o[7] and "incoming_directed_edges" in kw:      # first argument given positionally
                return _classes()[cls](kw.pop("incoming_directed_edges"), **kw)
            return _classes()[cls](**kw)
        return construct(cls, nd, o[1], o[2], o[3], o[4])
    return G


def spelled_call(G, nd, spelling, base):
    import inspect
    from pywhy_graphs.config import EdgeType
    name = ET_NAMES[base[-1]]
    et = EdgeType(name) if spelling in ("enum", "kwenum") else None if spelling == "none" else name
    f = getattr(G, BASE_METHOD[base[0]])
    if base[0] in (OP_ADD, OP_REM):
        args = [nd(base[1]), nd(base[2]), et]
    else:
        es = [(nd(a), nd(b)) for a, b in base[1]]
        if spelling == "tuple3":
            es = [(a, b, {"weight": 1}) for a, b in es]
        args = [es, et]
    if spelling in ("kw", "kwenum"):
        names = [n for n, p in inspect.signature(f).parameters.items() if p.kind == p.POSITIONAL_OR_KEYWORD][:len(args)]
        return f(**dict(zip(names, args)))
    return f(*args)


def query_spellings(G, nd, u, v, name):
    """has_edge(u, v, edge_type) spelled four ways; returns a description of the first inconsistency or None"""
    import inspect
    from pywhy_graphs.config import EdgeType
    u, v = nd(u), nd(v)
    before = gr.snapshot(G)
    ref = bool(G.has_edge(u, v, name))
    names = [n for n, p in inspect.signature(G.has_edge).parameters.items() if p.kind == p.POSITIONAL_OR_KEYWORD][:3]
    if bool(G.has_edge(**dict(zip(names, [u, v, name])))) != ref:
        return "keyword form differs"
    try:
        if bool(G.has_edge(u, v, EdgeType(name))) != ref:
            return "enum form differs"
    except Exception:  # noqa   (HEAD: ValueError)
        pass
    anyl = any(bool(G.has_edge(u, v, n)) for n in G.edge_types)
    if bool(G.has_edge(u, v)) != anyl:
        return "untyped form differs from the layers"
    if gr.snapshot(G) != before:
        return "query changed the graph"
    return None


def run_history(case):
    from pywhy_graphs.algorithms.generic import is_valid_mec_graph
    cls = case["cls"]
    nd, inv = node_maps(cls, case)
    _CONT[0] = case.get("cont", "list")
    G = _classes()[cls]()
    steps = []
    for o in case["ops"]:
        before = gr.snapshot(G)
        exc = None
        try:
            G = apply_op(G, cls, nd, o)
        except Exception as e:  # noqa
            exc = type(e).__name__
        st = observe(G, cls, inv)
        st["raised"] = exc is not None
        st["exc"] = exc
        if _ARG_MUTATED:
            st["argmut"] = list(_ARG_MUTATED)
            del _ARG_MUTATED[:]
        if exc is not None:
            st["atomic"] = gr.snapshot(G) == before
        try:
            st["mec"] = bool(is_valid_mec_graph(G))
        except RuntimeError:
            st["mec"] = False
        steps.append(st)
    return {"steps": steps}


# ---- two objects from the SAME constructor arguments (aliasing / argument integrity) ----
def ctor_args(cls, nd, o, argkind):
    """constructor keyword arguments for the Construct op o; argkind "graph": one networkx graph object per layer (DiGraph for
    directed / circle, Graph for undirected / bidirected), "list": edge lists, "dict": dict-of-dicts"""
    import networkx as nx
    m = lambda es: [(nd(x), nd(y)) for x, y in es]  # noqa: E731

    # extended Construct op [OP_CTOR, d, u, b, c, mask, kind]: only the keyword arguments in mask (1 directed, 2 undirected,
    # 4 bidirected, 8 circle) are PASSED at all (the others keep their default None); kind also "gen" (a generator of pairs)
    mask = o[5] if len(o) > 5 else 15
    if len(o) > 6:
        argkind = o[6]

    def mk(es, directed):
        es = m(es)
        if argkind == "list":
            return es
        if argkind == "gen":
            return (e for e in es)
        g = (nx.DiGraph if directed else nx.Graph)(es)
        if argkind == "dict":
            return nx.to_dict_of_dicts(g)
        return g
    kw = {}
    for bit, name, idx, directed in ((1, "incoming_directed_edges", 1, True), (2, "incoming_undirected_edges", 2, False),
                                     (4, "incoming_bidirected_edges", 3, False), (8, "incoming_circle_edges", 4, True)):
        if mask & bit and (PAG_LIKE[cls] or bit < 4):
            kw[name] = mk(o[idx], directed)
    return kw


def arg_snapshot(kw):
    out = {}
    for k, a in kw.items():
        if hasattr(a, "edges"):
            es = [tuple(e) if a.is_directed() else tuple(sorted(e, key=repr)) for e in a.edges()]
            out[k] = (type(a).__name__, sorted(map(repr, a.nodes)), sorted(map(repr, es)), repr(sorted(a.graph.items())))
        else:
            out[k] = repr(a)
    return out


def run_alias(case):
    """P and Q built from the same argument objects; every op goes to one of them; both and the arguments observed after each"""
    from pywhy_graphs.algorithms.generic import is_valid_mec_graph
    cls = case["cls"]
    nd, inv = node_maps(cls, case)
    K = _classes()[cls]
    kw = ctor_args(cls, nd, case["ctor"], case["argkind"])
    snap0 = arg_snapshot(kw)
    objs = [None, None]
    exc0 = None
    try:
        objs[0] = K(**kw)
        objs[1] = K(**kw)
    except Exception as e:  # noqa
        exc0 = type(e).__name__
        objs = [K(), K()]

    def both(raised_on=None, exc=None):
        row = []
        for i, G in enumerate(objs):
            st = observe(G, cls, inv)
            st["raised"] = raised_on == i
            st["exc"] = exc if raised_on == i else None
            try:
                st["mec"] = bool(is_valid_mec_graph(G))
            except RuntimeError:
                st["mec"] = False
            row.append(st)
        return row
    steps = [both()]
    if exc0 is not None:
        for st in steps[0]:
            st["raised"], st["exc"] = True, exc0
    args_ok = [arg_snapshot(kw) == snap0]
    for tgt, o in case["ops"]:
        before = gr.snapshot(objs[tgt])
        exc = None
        try:
            objs[tgt] = apply_op(objs[tgt], cls, nd, o)
        except Exception as e:  # noqa
            exc = type(e).__name__
        row = both(tgt if exc else None, exc)
        if exc is not None:
            row[tgt]["atomic"] = gr.snapshot(objs[tgt]) == before
        del _ARG_MUTATED[:]
        steps.append(row)
        args_ok.append(arg_snapshot(kw) == snap0)
    return {"steps2": steps, "args_ok": args_ok}


# ---- pair states on real two-node graphs (built through the layer objects directly) ----
BITS = [("directed", 0, 1), ("directed", 1, 0), ("circle", 0, 1), ("circle", 1, 0), ("bidirected", 0, 1), ("undirected", 0, 1)]


def class_mask(cls):
    return 63 if PAG_LIKE[cls] else (1 | 2 | 32)


def graph_in_state(cls, code, nd):
    G = _classes()[cls]()
    G.add_node(nd(0))
    G.add_node(nd(1))
    for i, (layer, a, b) in enumerate(BITS):
        if code >> i & 1:
            G.get_graphs(layer).add_edge(nd(a), nd(b))
    return G


def pair_code(G, cls, nd):
    c = 0
    for i, (layer, a, b) in enumerate(BITS):
        if layer in G.edge_types and G.has_edge(nd(a), nd(b), layer):
            c |= 1 << i
    return c


def valid_code(cls, c):
    duv, dvu, cuv, cvu, bi, un = [bool(c >> i & 1) for i in range(6)]
    if PAG_LIKE[cls]:
        return not (bi and (duv or dvu or cuv or cvu)) and not (duv and dvu) and not (duv and cuv) and not (dvu and cvu)
    return not ((duv or dvu) and un) and not (duv and dvu)


def ctor_lists(code):
    """edge lists (d, u, b, c) that put the pair (0,1) into the state"""
    d = [[0, 1]] * (code & 1) + [[1, 0]] * (code >> 1 & 1)
    c = [[0, 1]] * (code >> 2 & 1) + [[1, 0]] * (code >> 3 & 1)
    b = [[0, 1]] * (code >> 4 & 1)
    u = [[0, 1]] * (code >> 5 & 1)
    return [OP_CTOR, d, u, b, c]


def raises(f, *a):
    try:
        f(*a)
        return False
    except Exception:  # noqa
        return True


def real_tables():
    """the same structure as Model.tables, computed from the real functions"""
    from pywhy_graphs.algorithms.generic import _check_adding_cpdag_edge, _check_adding_pag_edge, is_valid_mec_graph
    order = [(a << 0 | b << 1 | c << 2 | d << 3 | e << 4 | f << 5)
             for a in (0, 1) for b in (0, 1) for c in (0, 1) for d in (0, 1) for e in (0, 1) for f in (0, 1)]
    nd = lambda v: v  # noqa: E731
    tsnd = lambda v: (v, 0)  # noqa: E731

    def guard_table(fn, cls):
        rows = []
        for code in order:
            G = graph_in_state(cls, code & class_mask(cls), nd)
            cells = []
            for (u, v) in ((0, 1), (1, 0)):
                for et in ET_NAMES:
                    cells.append(int(raises(fn, G, u, v, et)))
            rows.append([code, cells])
        return rows

    def orient_table(cls):
        f = tsnd if TS[cls] else nd
        rows = []
        for code in order:
            cells = []
            for sw in (0, 1):
                for (u, v) in ((0, 1), (1, 0)):
                    if sw or code & ~class_mask(cls):
                        cells.append(None)      # not tied: lagged pairs / marks the class has no layer for
                        continue
                    G = graph_in_state(cls, code, f)
                    r = raises(G.orient_uncertain_edge, f(u), f(v))
                    cells.append([pair_code(G, cls, f), int(r)])
            rows.append([code, cells])
        return rows

    def mec_table(cls):
        f = tsnd if TS[cls] else nd
        rows = []
        for code in order:
            if code & ~class_mask(cls):
                rows.append([code, None])
                continue
            rows.append([code, int(not raises(is_valid_mec_graph, graph_in_state(cls, code, f)))])
        return rows

    def orient_lag_table(cls):
        """time-series classes on lagged pairs: cell (sw, d): the call is orient(cu, cv) with (cu, cv) = (0,1) for Fw, (1,0) for
        Bw; sw=1: cu is LATER than cv (the sort by lag exchanges them: lagswap=true), sw=0: cu is earlier.  Pair states that
        the layers refuse to hold on such a pair (any mark from the later to the earlier node) are not comparable: None"""
        rows = []
        for code in order:
            cells = []
            for sw in (0, 1):
                for (cu, cv) in ((0, 1), (1, 0)):
                    if code & ~class_mask(cls):
                        cells.append(None)
                        continue
                    lag = {cu: 0 if sw else -1, cv: -1 if sw else 0}
                    f = lambda v: (v, lag[v])  # noqa: E731
                    G = _classes()[cls]()
                    G.add_node(f(0))
                    G.add_node(f(1))
                    try:
                        for i, (layer, a, b) in enumerate(BITS):
                            if code >> i & 1:
                                if layer in ("bidirected", "undirected") and lag[a] > lag[b]:
                                    a, b = b, a
                                G.get_graphs(layer).add_edge(f(a), f(b))
                    except Exception:  # noqa
                        cells.append(None)
                        continue
                    if pair_code(G, cls, f) != code:
                        cells.append(None)
                        continue
                    r = raises(G.orient_uncertain_edge, f(cu), f(cv))
                    cells.append([pair_code(G, cls, f), int(r)])
            rows.append([code, cells])
        return rows

    return {"guard_pag": guard_table(_check_adding_pag_edge, 0), "guard_cpdag": guard_table(_check_adding_cpdag_edge, 1),
            "orient": [orient_table(c) for c in (0, 1, 3, 4)], "mec": [mec_table(c) for c in range(5)],
            "orient_lag": [orient_lag_table(c) for c in (3, 4)]}


def run_impl(case):
    if case["kind"] == "table":
        return real_tables()
    if case["kind"].startswith("alias"):
        return run_alias(case)
    return run_history(case)


# ------------------------------------------------------------------ comparison
def compare_tables(impl, model):
    t = model["table"]
    n = 0
    for name, idx in (("guard_pag", 0), ("guard_cpdag", 1)):
        for (c1, cells1), (c2, cells2) in zip(impl[name], t[idx]):
            if c1 != c2 or len(cells1) != len(cells2):
                return "T:table-order"
            for j, (x, y) in enumerate(zip(cells1, cells2)):
                n += 1
                if x != y:
                    return "T:%s:state=%d:dir=%d:et=%s" % (name, c1, j // 5, ET_NAMES[j % 5])
    for k, name in enumerate(("orient_pag", "orient_cpdag", "orient_tspag", "orient_tscpdag")):
        for (c1, cells1), (c2, cells2) in zip(impl["orient"][k], t[2 + k]):
            if c1 != c2:
                return "T:table-order"
            for j, (x, y) in enumerate(zip(cells1, cells2)):
                if x is None:
                    continue
                n += 1
                # a raise before anything was touched is compared on the flag and the state; both must agree
                if list(x) != list(y):
                    return "T:%s:state=%d:dir=%d" % (name, c1, j % 2)
    nlag = 0
    for k, name in enumerate(("orient_tspag", "orient_tscpdag")):
        for (c1, cells1), (c2, cells2) in zip(impl["orient_lag"][k], t[4 + k]):
            if c1 != c2:
                return "T:table-order"
            for j, (x, y) in enumerate(zip(cells1, cells2)):
                if x is None:
                    continue
                n += 1
                nlag += 1
                if list(x) != list(y):
                    return "T:%s:lagged-pair:state=%d:lagswap=%d:dir=%d" % (name, c1, j // 2, j % 2)
    compare_tables.lag_cells = nlag
    for k in range(5):
        for (c1, x), (c2, y) in zip(impl["mec"][k], t[8][k]):
            if c1 != c2:
                return "T:table-order"
            if x is None:
                continue
            n += 1
            if x != y:
                return "T:mec_%s:state=%d" % (CLS_NAMES[k], c1)
    compare_tables.cells = n
    return None


def compare(case, impl, model, ignore_inv=False):
    if "exc" in impl:
        return "harness-exception"
    if case["kind"] == "table":
        return compare_tables(impl, model)
    if case["kind"].startswith("alias"):
        return compare_alias(case, impl, model)
    if len(impl["steps"]) != len(model["steps"]):
        return "harness-step-count"
    broken = False
    for i, (a, m, o) in enumerate(zip(impl["steps"], model["steps"], case["ops"])):
        if a.get("argmut"):
            return "has_edge-spelling" if o[0] == OP_QUERY else "argument-mutated"
        if not a["inv"] and not ignore_inv:
            return "invariant-broken"
        # (classification only) once a contradictory state exists, a raise half-way through orient_uncertain_edge is a
        # consequence of it; the as-is model must still reproduce the resulting edge sets exactly
        # every entry point, update() included: a raise must leave the FULL snapshot (nodes, every layer, attributes) as it was
        if a["raised"] and not a.get("atomic", True) and not (ignore_inv and broken):
            return "update-raise-not-atomic" if o[0] in UPD_OPS else "spelling-raise-not-atomic" if o[0] == OP_SPELL \
                else "raise-not-atomic"
        broken = broken or not a["inv"]
        if is_either(o) and a["raised"]:
            # accepted outcome 1: the call is rejected (HEAD: unsupported form) and leaves the graph as it was (full snapshot
            # checked above); outcome 2 (below): exactly the guarded base op
            prev = impl["steps"][i - 1] if i else {"D": [], "B": [], "U": [], "C": []}
            if any(a[k] != prev[k] for k in "DBUC"):
                return "either-raise-not-atomic"
            if i != len(case["ops"]) - 1:
                return "harness-either-op-not-last"
            continue
        if o[0] == OP_SPELL and o[1] == "none" and not a["raised"]:
            return "edge_type-None-accepted"
        for k in "DBUC":
            if a[k] != m[k]:
                return "edges"
        if o[0] == OP_UPD_NODES and a["raised"]:
            return "raised"
        base = o[2][0] if o[0] == OP_SPELL else o[0]
        if o[0] == OP_QUERY and a["raised"]:
            return "raised"
        if base not in (OP_REM, OP_REMS, OP_UPD_NODES, OP_QUERY) and not (o[0] == OP_SPELL and o[1] == "none") \
                and a["raised"] != m["raised"]:
            return "raised"
        if a["raised"] and a["exc"] not in ("RuntimeError", "NetworkXError") and not (o[0] == OP_SPELL and o[1] == "none"):
            return "exception-class"
        if a["mec"] != m["mec"]:
            return "is_valid_mec_graph"
    return None


def compare_alias(case, impl, model):
    """two objects built from the same argument objects: each must evolve exactly as an independent copy of the model, the
    untouched one must not change, the argument objects must stay as they were given"""
    if len(impl["steps2"]) != len(model["steps2"]):
        return "harness-step-count"
    ops = [None] + [o for _, o in case["ops"]]
    for i, (rows, mrows) in enumerate(zip(impl["steps2"], model["steps2"])):
        if not impl["args_ok"][i]:
            return "constructor-argument-mutated"
        for a, m in zip(rows, mrows):
            for k in "DBUC":
                if a[k] != m[k]:
                    return "alias-edges"
            if not a["inv"] and case["cls"] != 3:
                return "alias-invariant-broken"
            if a["mec"] != m["mec"]:
                return "alias-is_valid_mec_graph"
            if a["raised"] and not a.get("atomic", True) and case["cls"] != 3:
                return "alias-raise-not-atomic"
            if (i == 0 or ops[i][0] not in (OP_REM, OP_REMS)) and a["raised"] != m["raised"]:
                return "alias-raised"
    return None


KEY_TSPAG = "StationaryTimeSeriesPAG:no-insertion-guard"
KEY_ALL = "add_edge:edge_type-all-inserts-into-every-layer"


def classify(case, impl, model):
    """Known classes.  Both are recognised mechanically: the as-is model (generated guards / wrapper shapes) reproduces
    every observable of the implementation, and the only failure is the pair invariant evaluated on the real graph.
      KEY_ALL   : the FIRST contradictory state appears right after an accepted insertion with edge_type "all"
                  (c03_reachable excludes exactly those insertions, so nothing else can be the origin in the model)
      KEY_TSPAG : the class is StationaryTimeSeriesPAG, whose insertions are unguarded (wrapper shape GNone; the class is
                  excluded from the theorems)"""
    if case.get("kind") == "table" or case.get("kind", "").startswith("alias") or "exc" in impl or "steps" not in impl:
        return None
    if compare(case, impl, model) != "invariant-broken" or compare(case, impl, model, ignore_inv=True) is not None:
        return None
    if case["cls"] == 3:
        return KEY_TSPAG
    # KEY_ALL, per pair (Coq: c03_pair_valid_unless_all, c03_first_break_is_all): at EVERY step, every contradictory pair of
    # the real graph must have been named by an accepted "all" insertion of the history so far.  A contradictory pair that
    # no "all" insertion named is a different failure, even in a history that also contains "all" insertions.
    named = set()
    for a, o in zip(impl["steps"], case["ops"]):
        if o[0] == OP_CTOR and not a["raised"]:
            named = set()                                     # a new object
        if o[0] in (OP_ADD, OP_ADDS) and o[-1] == 4 and not a["raised"]:
            named |= {frozenset(e) for e in ([o[1:3]] if o[0] == OP_ADD else o[1])}
        bad = contradictory_pairs(a, case["cls"])
        if not bad <= named or (not a["inv"] and not bad):
            return None
        named &= bad        # a pair that is valid again (e.g. after removals) needs a fresh "all" insertion to break (step_pair)
    return KEY_ALL


def contradictory_pairs(step, cls):
    """pairs of the observed real edge sets that violate the class invariant"""
    marks = {}
    for k in "DBUC":
        for x, y in step[k]:
            p = frozenset((x, y))
            marks.setdefault(p, set()).add(k if k in "BU" else k + ("f" if x < y else "r"))
    bad = set()
    for p, bits in marks.items():
        if PAG_LIKE[cls]:
            if ("B" in bits and bits & {"Df", "Dr", "Cf", "Cr"}) or {"Df", "Dr"} <= bits or {"Df", "Cf"} <= bits \
                    or {"Dr", "Cr"} <= bits:
                bad.add(p)
        elif ("U" in bits and bits & {"Df", "Dr"}) or {"Df", "Dr"} <= bits:
            bad.add(p)
    return bad


def nontrivial(case, model):
    if case["kind"] == "table":
        return True
    if case["kind"].startswith("alias"):
        s2 = model["steps2"]
        return any(any(r[j][k] != s2[i - 1][j][k] for k in "DBUC") for i, r in enumerate(s2) if i for j in (0, 1))
    st = model["steps"]
    changed = any(i == 0 and any(s[k] for k in "DBUC") or i > 0 and any(s[k] != st[i - 1][k] for k in "DBUC")
                  for i, s in enumerate(st))
    return changed and any(s["raised"] for s in st)


def key(case):
    return repr((case.get("cls"), case.get("ctor"), case.get("argkind"), case.get("lags"), case.get("ops")))


def shrink(case):
    if case["kind"] == "table":
        return
    ops = case["ops"]
    if case["kind"].startswith("alias"):
        for i in range(len(ops) - 1, -1, -1):
            yield dict(case, ops=ops[:i] + ops[i + 1:])
        return
    for i in range(len(ops) - 1, -1, -1):
        yield dict(case, ops=ops[:i] + ops[i + 1:], kind="shrunk")
    for i, o in enumerate(ops):
        if o[0] in (OP_ADDS, OP_REMS, OP_ADDS_ATTR, OP_UPD_LIST, OP_UPD_LIST_NODES, OP_UPD_GRAPH) and len(o[1]) > 1:
            for j in range(len(o[1])):
                yield dict(case, ops=ops[:i] + [[o[0], o[1][:j] + o[1][j + 1:], o[2]]] + ops[i + 1:], kind="shrunk")
        if o[0] == OP_CTOR:
            for li in range(1, 5):
                for j in range(len(o[li])):
                    o2 = list(o)
                    o2[li] = o[li][:j] + o[li][j + 1:]
                    yield dict(case, ops=ops[:i] + [o2] + ops[i + 1:], kind="shrunk")


# ------------------------------------------------------------------ translator hook
def pre_build(ctx):
    sys.path.insert(0, os.path.join(fw.VERIF, "translator"))
    import guards
    problems = []
    changed, prob = guards.regenerate(ctx["repo"])
    ctx["gen_changed"] = changed
    if prob:
        problems.append("translator rejects the source (fail closed): " + prob)
    # the executable model must exist even when a proof about the generated tables no longer compiles
    with fw.Lock():
        fw.ensure_makefile()
        p = subprocess.run(["make", "-j4", "theories/C03/Model.vo"], cwd=fw.COQ, env=fw.ENV, timeout=1800,
                           stdout=subprocess.PIPE, stderr=subprocess.STDOUT, text=True)
        if p.returncode != 0:
            problems.append("C03 model does not build: " + p.stdout[-300:])
        elif subprocess.run([os.path.join(fw.VERIF, "build_models.sh"), PROP], env=fw.ENV, stdout=subprocess.PIPE,
                            stderr=subprocess.STDOUT, text=True, timeout=1800).returncode != 0:
            problems.append("C03 extraction failed")
    return problems


# ------------------------------------------------------------------ search over the cells on the real classes
def _replay(cls, ops):
    case = {"kind": "cell", "cls": cls, "ops": ops}
    return case, run_history(case)


def extra(ctx, pool):
    """evaluate every cell on the real classes against the invariant; first bad cell of each kind -> replayed history"""
    from pywhy_graphs.algorithms.generic import is_valid_mec_graph
    out = []
    seen_kinds = set()
    known = {k["key"] for k in fw.load_known(PROP) if k.get("status") == "known"}

    def report(kind, cls, what, ops):
        if (kind, cls) in seen_kinds:
            return
        if kind.endswith("-all") and KEY_ALL in known:
            return                      # recorded known finding (the K tie reports it as KNOWN-FINDING)
        if cls == 3 and KEY_TSPAG in known and kind in ("add-inductive", "bulk-inductive", "orient-inductive"):
            return
        seen_kinds.add((kind, cls))
        case, impl = _replay(cls, ops)
        last = impl["steps"][-1]
        reproduced = (not last["inv"]) or (last["raised"] and not last.get("atomic", True)) or kind in ("mec", "orient-mark")
        if kind == "mec":
            reproduced = last["mec"] != last["inv"] or last["raised"] == last["inv"]
        out.append({"reason": "%s: %s" % (CLS_NAMES[cls], what), "found_input": bool(reproduced), "case": case, "impl": impl,
                    "cell_kind": kind, "broken": "generated-table lemma / invariant on the real class",
                    "how_to_replay": "cd /verif && ./check C03 --replay <this file>"})

    for cls in range(5):
        nd, _ = node_maps(cls)
        mask = class_mask(cls)
        states = [c for c in range(64) if c & ~mask == 0]
        for code in states:
            valid = valid_code(cls, code)
            # is_valid_mec_graph / constructor accept exactly the valid states
            G = graph_in_state(cls, code, nd)
            if (not raises(is_valid_mec_graph, G)) != valid:
                report("mec", cls, "is_valid_mec_graph %s pair state %d which is %s" % (
                    "rejects" if valid else "accepts", code, "valid" if valid else "contradictory"), [ctor_lists(code)])
            if not valid:
                continue
            for (u, v) in ((0, 1), (1, 0)):
                for et in et_codes(cls):
                    G = graph_in_state(cls, code, nd)
                    before = gr.snapshot(G)
                    r = raises(G.add_edge, nd(u), nd(v), ET_NAMES[et])
                    after = pair_code(G, cls, nd)
                    if r and gr.snapshot(G) != before:
                        report("add-atomic", cls, "add_edge(%d,%d,%s) in pair state %d raises but changes the graph" % (
                            u, v, ET_NAMES[et], code), [ctor_lists(code), [OP_ADD, u, v, et]])
                    if not r and not valid_code(cls, after):
                        report("add-inductive" + ("-all" if et == 4 else ""), cls,
                               "add_edge(%d,%d,%s) accepted in valid pair state %d gives contradictory state %d" % (
                                   u, v, ET_NAMES[et], code, after), [ctor_lists(code), [OP_ADD, u, v, et]])
                    # bulk: two-element batches on the pair
                    for (a, b) in ((0, 1), (1, 0)):
                        G = graph_in_state(cls, code, nd)
                        before = gr.snapshot(G)
                        r = raises(G.add_edges_from, [(nd(u), nd(v)), (nd(a), nd(b))], ET_NAMES[et])
                        after = pair_code(G, cls, nd)
                        if r and gr.snapshot(G) != before:
                            report("bulk-atomic", cls, "add_edges_from raises but changes the graph (state %d)" % code,
                                   [ctor_lists(code), [OP_ADDS, [[u, v], [a, b]], et]])
                        if not r and not valid_code(cls, after):
                            report("bulk-inductive" + ("-all" if et == 4 else ""), cls,
                                   "add_edges_from([(%d,%d),(%d,%d)],%s) accepted in valid pair state %d gives contradictory "
                                   "state %d" % (u, v, a, b, ET_NAMES[et], code, after),
                                   [ctor_lists(code), [OP_ADDS, [[u, v], [a, b]], et]])
                # orient
                G = graph_in_state(cls, code, nd)
                before = gr.snapshot(G)
                r = raises(G.orient_uncertain_edge, nd(u), nd(v))
                after = pair_code(G, cls, nd)
                if r and gr.snapshot(G) != before:
                    report("orient-atomic", cls, "orient_uncertain_edge(%d,%d) in state %d raises but changes the graph" % (u, v, code),
                           [ctor_lists(code), [OP_ORIENT, u, v]])
                if not r and not valid_code(cls, after):
                    report("orient-inductive", cls, "orient_uncertain_edge(%d,%d) in valid state %d gives contradictory state %d" % (
                        u, v, code, after), [ctor_lists(code), [OP_ORIENT, u, v]])
                if not r and valid_code(cls, after) and not orient_one_mark(cls, code, after, (u, v) == (1, 0)):
                    report("orient-mark", cls, "orient_uncertain_edge(%d,%d) in state %d -> %d changes more than the one mark" % (
                        u, v, code, after), [ctor_lists(code), [OP_ORIENT, u, v]])
    return out


def orient_one_mark(cls, before, after, swapped):
    """the end mark at v goes from circle (PAG) / tail of an undirected edge (CPDAG) to an arrowhead, the mark at u stays"""
    def flip(c):
        return (c >> 1 & 1) | (c & 1) << 1 | (c >> 3 & 1) << 2 | (c >> 2 & 1) << 3 | (c & 48)
    if swapped:
        before, after = flip(before), flip(after)
    b = [bool(before >> i & 1) for i in range(6)]
    if PAG_LIKE[cls]:
        if not b[2]:
            return False
        want = before & ~4
        if b[1]:                       # u <-o v  =>  u <-> v
            want = (want & ~2) | 16
        else:                          # u o-o v => u o-> v ;  u -o v => u -> v
            want |= 1
        return after == want
    if not b[5]:
        return False
    return after == ((before & ~32) | 1)


def coverage_extra(ctx):
    return {"translator_cells_compared": getattr(compare_tables, "cells", 0),
            "translator_lagged_orient_cells_compared": getattr(compare_tables, "lag_cells", 0),
            "generated_files_rewritten": ctx.get("gen_changed", [])}
