"""C04 — dag_to_cpdag returns the essential graph (nodes, skeleton, compelled edges) of the DAG."""
import graphs as gr

PROP = "C04"
RULE = ("every labelled DAG(n), n<=4 quick / n<=5 thorough, each under the given and 2 seeded random node/edge insertion "
        "orders; seeded random DAGs n<=9 (quick) / n<=12 (thorough), 30% with isolated nodes and several components forced; "
        "the model is run at networkx's actual topological order of the very DiGraph handed to the code; brute-force "
        "oracle (all orientations of the skeleton) when |E|<=12. distinct by canonical DAG; non-trivial = the CPDAG has "
        "both a directed and an undirected edge, or an isolated node")
EXHAUSTIVE = {"quick": "all labelled DAGs on n<=4 nodes (543+25+3+1) x 3 insertion orders",
              "thorough": "all labelled DAGs on n<=5 nodes (29281+...) x 3 insertion orders"}
TRUSTED = ["networkx DiGraph / topological_sort / predecessors / in_edges taken at face value",
           "closed form of order_edges' numbering (targets from last to first in the topological order, sources ascending) "
           "read off the loop by hand"]
ASSUMPTIONS = ["input is a networkx.DiGraph that is acyclic", "int labels (label families: C15)"]
TECHNIQUE = ("Coq proof (termination + structure unbounded; essential-graph clause by kernel computation over all DAGs n<=4 x all "
             "topological orders; oracle reflection and 'equal essential graphs iff Markov equivalent' unbounded) + extracted-model correspondence")
LEVEL_TEXT = ("Unbounded theorems: cpdag_total (the labelling loop never exhausts its fuel, any graph, any node order); cpdag_structure "
              "(for every DAG and every topological order the result has exactly the DAG's nodes, directed and undirected edges are "
              "disjoint subsets of the DAG's edges covering all of them, i.e. same skeleton, directed edges keep the DAG's orientation); "
              "essential_oracle_correct (the brute-force oracle over all orientations of the skeleton decides 'a->b is in every "
              "Markov-equivalent DAG'); essential_classifies (equal essential graphs iff Markov equivalent, about the spec). "
              "Bounded: cpdag_essential_bounded_4 (kernel computation): for all 543 labelled DAGs on 4 nodes (and all on fewer; "
              "enumeration proved complete, dags_enumeration_complete) and EVERY topological order, directed edges = essential edges. "
              "Beyond n=4 the clause 'directed iff essential' is observed by correspondence only (model = oracle = implementation on "
              "every generated case with |E|<=12, incl. all 29281 five-node DAGs in the thorough tier).")
LEVEL_NOTE = ("Chickering's correctness proof (paper-length induction over the edge order) is not formalised; the full statement is "
              "kept as cpdag_essential_stmt in C04/Spec.v. n=5 by kernel computation was estimated at hours of CPU and left out. "
              "The bounded theorem is stated for the canonical edge list of each DAG on nodes 0..n-1. order_edges is modelled by its "
              "closed form (targets from last to first in the topological order, sources ascending), label_edges loop by loop with fuel. "
              "acyclic is stated as existence of a topological numbering. The implementation is tied to the model at networkx's actual "
              "topological order of the very DiGraph it receives.")


def _maybe_orders(g, tag):
    yield {"kind": tag, "g": g}
    yield {"kind": tag, "g": g, "_order": 1}
    yield {"kind": tag, "g": g, "_order": 2}


def random_dag(rng, n, p):
    order = list(range(n))
    rng.shuffle(order)
    D = []
    for i in range(n):
        for j in range(i + 1, n):
            if rng.random() < p:
                D.append([order[i], order[j]])
    rng.shuffle(D)
    return gr.G(range(n), D=D)


def components_dag(rng, n):
    """several components + isolated nodes"""
    k = rng.randint(1, max(1, n // 3))           # isolated nodes
    nodes = list(range(n))
    rng.shuffle(nodes)
    iso, rest = nodes[:k], nodes[k:]
    cut = rng.randint(1, max(1, len(rest) - 1)) if len(rest) > 1 else len(rest)
    D = []
    for part in (rest[:cut], rest[cut:]):
        for i in range(len(part)):
            for j in range(i + 1, len(part)):
                if rng.random() < 0.5:
                    D.append([part[i], part[j]])
    rng.shuffle(D)
    return gr.G(range(n), D=D)


def gen_cases(tier, rng):
    nmax = 4 if tier == "quick" else 5
    for n in range(1, nmax + 1):
        for g in gr.enum_dag(n):
            yield from _maybe_orders(g, "dag%d" % n)
    nr = 400 if tier == "quick" else 4000
    for i in range(nr):
        n = rng.randint(5, 9 if tier == "quick" else 12)
        if rng.random() < 0.3:
            g = components_dag(rng, n)
        else:
            g = random_dag(rng, n, rng.choice([0.15, 0.3, 0.45, 0.6]))
        c = {"kind": "rand", "g": g}
        if rng.random() < 0.5:
            c["_order"] = rng.randint(3, 10 ** 6)
        yield c


def topo_order(case):
    import networkx as nx
    Dg, lab, inv = gr.to_digraph(case["g"], case)
    return [inv(v) for v in nx.topological_sort(Dg)]


def oracle_on(case):
    return len(case["g"]["D"]) <= 12


def encode(case):
    return [0 if oracle_on(case) else 1, gr.enc(case["g"]), topo_order(case)]


def decode(case, v):
    return {"ok": v[0], "nodes": v[1], "directed": v[2], "undirected": v[3], "topo_ok": v[4],
            "oracle": v[5] if oracle_on(case) else None}


def run_impl(case):
    from pywhy_graphs.algorithms import dag_to_cpdag
    Dg, lab, inv = gr.to_digraph(case["g"], case)
    C = dag_to_cpdag(Dg)
    return {"nodes": sorted(inv(v) for v in C.nodes),
            "directed": sorted([inv(a), inv(b)] for a, b in C.directed_edges),
            "undirected": sorted(sorted((inv(a), inv(b))) for a, b in C.undirected_edges),
            "extra_layers": sorted(n for n, lg in C.get_graphs().items()
                                   if n not in ("directed", "undirected") and lg.number_of_edges())}


def compare(case, impl, model):
    if model["ok"] != 1 or model["topo_ok"] != 1:
        return "model-precondition"          # fuel exhausted / networkx order not topological: machinery problem
    if model["oracle"] is not None and model["oracle"] != model["directed"]:
        return "model-vs-oracle"
    if "exc" in impl:
        return "exception"
    if impl["nodes"] != model["nodes"]:
        return "nodes"
    if impl["directed"] != model["directed"]:
        return "directed"
    if impl["undirected"] != model["undirected"]:
        return "undirected"
    if impl["extra_layers"]:
        return "extra-layers"
    return None


def nontrivial(case, model):
    iso = set(case["g"]["V"]) - {v for e in case["g"]["D"] for v in e}
    return bool(model.get("directed") and model.get("undirected")) or bool(iso)


def key(case):
    return gr.canon(case["g"])


def classify(case, impl, model):
    return None


def shrink(case):
    for h in gr.shrink_graph(case["g"]):
        yield dict(case, g=h)
