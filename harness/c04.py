"""C04 — dag_to_cpdag returns the essential graph (nodes, skeleton, compelled edges) of the DAG."""
import graphs as gr

PROP = "C04"
RULE = ("every labelled DAG(n), n<=4 quick / n<=5 thorough, each under the given and 2 seeded random node/edge insertion "
        "orders; seeded random DAGs n<=9 (quick) / n<=12 (thorough), 30% with isolated nodes and several components forced; "
        "a repeat stream (every DAG(n) n<=4 + random: dag_to_cpdag called on a first graph, 1-2 edges added and/or one removed on "
        "the SAME DiGraph object, second result compared with the model of the final DAG) and an attrs stream (edges/nodes carry "
        "pre-existing 'order'/'label' attributes with arbitrary values incl. the EDGELABELS members); "
        "a retmut stream (the returned CPDAG is edited in place — orient / remove edge / remove node — and an equal fresh DAG is "
        "converted again) and a label-family stream (str/tuple/bigint/frozenset/int257: equal but not identical label objects); "
        "an input-kind stream (nx.freeze-d DiGraph, G.subgraph / nx.subgraph_view views hiding a surplus node or edge, a DiGraph "
        "subclass: same expected result; the input's nodes, edges and all attributes other than the edge attributes 'order' and "
        "'label' — the only things HEAD writes — must be unchanged); attrs now include weight 0/None/nan/negative; identity-hashed "
        "('obj') and mixed labels; 300 dense (p=0.7-0.9) 6-8 node DAGs; 6 long DAGs (150-220 nodes: chain / ladder / collider chain "
        "+ side branches) run with the recursion limit lowered to depth+120 (HEAD is iterative); "
        "UNIT level: order_edges and label_edges called directly on every DAG(n<=4), 200 sparse and some time-series DAGs — the "
        "edge order (Chickering Alg. 4, pinned by the repo's tests) is compared with order_model, the labels with label_model; "
        "400 sparse DAGs n=7..16 with many isolated/root nodes (planted a->x<-b, x->y); 80 StationaryTimeSeriesDiGraph inputs "
        "(abstract graph read off the built object); attribute keys that are not str on nodes/edges/graph; "
        "the model is run at networkx's actual topological order of the very DiGraph handed to the code; brute-force "
        "oracle (all orientations of the skeleton) when |E|<=12 (random cases of the quick tier: |E|<=9). distinct by canonical DAG; non-trivial = the CPDAG has "
        "both a directed and an undirected edge, or an isolated node")
EXHAUSTIVE = {"quick": "all labelled DAGs on n<=4 nodes (543+25+3+1) x 3 insertion orders",
              "thorough": "all labelled DAGs on n<=5 nodes (29281+...) x 3 insertion orders"}
TRUSTED = ["networkx DiGraph / topological_sort / predecessors / in_edges taken at face value",
           "closed form of order_edges' numbering (targets from last to first in the topological order, sources ascending) "
           "read off the loop by hand"]
SPOT_N = 10   # the oracle over up to 4096 orientations is slow under vm_compute
ASSUMPTIONS = ["input is a networkx.DiGraph that is acyclic", "int labels (label families: C15)"]
TECHNIQUE = ("Coq proof, all clauses unbounded: model = essential graph (Chickering's theorem for Algorithm 4/5, all sizes), "
             "structure, classification of Markov equivalence; independent kernel re-computation for n<=5; "
             "+ extracted-model correspondence")
LEVEL_TEXT = ("All clauses of the property are unbounded theorems about the model, for every DAG and EVERY topological order: "
              "cpdag_total (no fuel exhaustion); cpdag_structure (exactly the DAG's nodes; directed and undirected edges partition the "
              "DAG's edge set = same skeleton; directed edges keep the DAG's orientation); cpdag_essential (an edge is directed iff it "
              "lies in every Markov-equivalent DAG, i.e. Chickering's theorem for the order+label algorithms: cpdag_compelled_sound + "
              "cpdag_reversible_not_essential); cpdag_classifies (two DAGs receive equal CPDAGs iff they are Markov equivalent, whatever "
              "topological orders are used). Supporting unbounded theorems: cpdag_compelled_iff_derivable (the labelling computes exactly "
              "the closure of the v-structure edges under four orientation rules), essential_iff_derivable (model-free), "
              "cpdag_vstructs, cpdag_model_invariant (edge-list order irrelevant), essential_oracle_correct, essential_classifies. "
              "Independent cross-check by kernel computation: cpdag_essential_bounded_5 (all 29 281 DAGs on 5 nodes and all smaller, "
              "every topological order, table-driven, 8 shards ~75 CPU-s).")
LEVEL_NOTE = ("Proof route for 'undirected => reversible': compelled parents are shared along non-compelled edges (chain-graph lemma, by "
              "induction along the node order on a per-node description of the final labels), the reversed topological order is a "
              "perfect elimination ordering of the non-compelled layer, C08/Chordal.v (peo_last: a PEO with any vertex last; this C04 "
              "cone therefore depends on that stdlib-only file of the C08 builder) and re-orientation by that PEO. order_edges is "
              "modelled by its closed form (targets from last to first in the topological order, sources ascending), label_edges loop by "
              "loop with fuel. acyclic is stated as existence of a topological numbering. The implementation is tied to the model by "
              "correspondence at networkx's actual topological order of the very DiGraph it receives.")


LAB_FAMILIES = ["str", "tuple", "bigint", "frozenset", "int257", "obj", "mixed"]


def sparse_roots_dag(rng, n):
    """few edges, many isolated / root nodes: a planted compelled chain (a -> x <- b, x -> y, optionally more parents of y that
    are parents of x) or a sparse random DAG, the other nodes isolated or roots of single edges"""
    nodes = list(range(n))
    rng.shuffle(nodes)
    D = []
    if rng.random() < 0.6:
        a, b, x, y = nodes[:4]
        D = [[a, x], [b, x], [x, y]]
        rest = nodes[4:]
        if rng.random() < 0.3:
            D.append([a, y])
        if rest and rng.random() < 0.4:
            z = rest[0]
            D += [[x, z]] if rng.random() < 0.5 else [[y, z]]
        for _ in range(rng.randint(0, 2)):
            if len(rest) >= 2:
                u, v = rng.sample(rest, 2)
                if [v, u] not in D and [u, v] not in D and gr.is_acyclic(n, D + [[u, v]]):
                    D.append([u, v])
    else:
        m = rng.randint(2, 7)
        for _ in range(m):
            u, v = rng.sample(nodes, 2)
            if nodes.index(u) > nodes.index(v):
                u, v = v, u
            if [u, v] not in D:
                D.append([u, v])
    rng.shuffle(D)
    return gr.G(range(n), D=D)


def long_dag(rng, n):
    """a long DAG the algorithm has to walk end to end: chain / ladder / chain of colliders, with a few side branches"""
    shape = rng.choice(["chain", "ladder", "colliders"])
    D = []
    if shape == "chain":
        D = [[i, i + 1] for i in range(n - 1)]
    elif shape == "ladder":
        for i in range(0, n - 2, 2):
            D += [[i, i + 2], [i + 1, i + 3] if i + 3 < n else [i, i + 1], [i, i + 1]]
    else:
        for i in range(0, n - 2, 2):
            D += [[i, i + 1], [i + 2, i + 1]]
    D = [list(e) for e in {tuple(e) for e in D} if e[1] < n]
    for _ in range(5):
        a = rng.randrange(n - 1)
        b = rng.randrange(a + 1, n)
        if [a, b] not in D and [b, a] not in D and gr.is_acyclic(n, D + [[a, b]]):
            D.append([a, b])
    rng.shuffle(D)
    return gr.G(range(n), D=D)


def _maybe_orders(g, tag):
    yield {"kind": tag, "g": g}
    yield {"kind": tag, "g": g, "_order": 1}
    yield {"kind": tag, "g": g, "_order": 2}


def random_dag(rng, n, p):
    order = list(range(n))
    rng.shuffle(order)
    D = []
    for i in range(n):
        for j in range(i + 1, n):
            if rng.random() < p:
                D.append([order[i], order[j]])
    rng.shuffle(D)
    return gr.G(range(n), D=D)


def components_dag(rng, n):
    """several components + isolated nodes"""
    k = rng.randint(1, max(1, n // 3))           # isolated nodes
    nodes = list(range(n))
    rng.shuffle(nodes)
    iso, rest = nodes[:k], nodes[k:]
    cut = rng.randint(1, max(1, len(rest) - 1)) if len(rest) > 1 else len(rest)
    D = []
    for part in (rest[:cut], rest[cut:]):
        for i in range(len(part)):
            for j in range(i + 1, len(part)):
                if rng.random() < 0.5:
                    D.append([part[i], part[j]])
    rng.shuffle(D)
    return gr.G(range(n), D=D)


def repeat_variant(rng, g):
    """second-call case: final DAG g; some of its edges are added only after the first call, and possibly one extra
    edge (forward w.r.t. a topological order of g, so every intermediate graph is acyclic) exists at the first call only"""
    D = [list(e) for e in g["D"]]
    if D and rng.random() < 0.5:
        # neighbour with the same node and edge counts (one edge reversed or moved), morphed in place into g
        g0 = gr.perturb(g, rng)
        if g0 is not None and len(g0["D"]) == len(D):
            d0 = [list(e) for e in g0["D"]]
            return {"g": g, "drop": [e for e in D if e not in d0], "extra": [e for e in d0 if e not in D], "repeat": True}
    k = rng.randint(1, 2) if D else 0
    drop = rng.sample(D, min(k, len(D)))
    extra = []
    if rng.random() < 0.4 or not drop:
        import networkx as nx
        H = nx.DiGraph()
        H.add_nodes_from(g["V"])
        H.add_edges_from(map(tuple, D))
        order = list(nx.topological_sort(H))
        cand = [[order[i], order[j]] for i in range(len(order)) for j in range(i + 1, len(order))
                if [order[i], order[j]] not in D]
        if cand:
            extra = [rng.choice(cand)]
    return {"g": g, "drop": drop, "extra": extra, "repeat": True}


def gen_cases(tier, rng):
    nmax = 4 if tier == "quick" else 5
    for n in range(1, nmax + 1):
        for g in gr.enum_dag(n):
            yield from _maybe_orders(g, "dag%d" % n)
    # second call on the same DiGraph object after edges were added / removed; pre-existing "order"/"label" attributes
    for n in range(2, 5):
        for g in gr.enum_dag(n):
            for rep in range(2 if n == 4 else 3):
                yield dict(repeat_variant(rng, g), kind="repeat%d" % n)
            yield {"kind": "attrs%d" % n, "g": g, "attrs": rng.randint(0, 10 ** 6)}
    # returned CPDAG edited in place, equal fresh DAG converted again; label families whose labels are equal but not
    # identical objects (every lab(v) call builds a new object: node insertion vs. edge endpoints)
    i = 0
    for n in range(1, 5):
        for g in gr.enum_dag(n):
            i += 1
            if n < 4 or i % 3 == 0:
                yield {"kind": "retmut%d" % n, "g": g, "retmut": rng.randint(0, 10 ** 6)}
            if n < 4 or i % 3 == 1:
                yield {"kind": "lab%d" % n, "g": g, "_lab": LAB_FAMILIES[i % len(LAB_FAMILIES)]}
    # input object kinds: frozen DiGraph, subgraph views hiding a surplus node / edge, a DiGraph subclass
    i = 0
    for n in range(1, 5):
        for g in gr.enum_dag(n):
            i += 1
            if n < 4 or i % 2 == 0:
                c = {"kind": "input%d" % n, "g": g, "input": INPUT_KINDS[i % len(INPUT_KINDS)]}
                if i % 3 == 0:
                    c["attrs"] = rng.randint(0, 10 ** 6)
                if i % 7 == 0:
                    c["_lab"] = LAB_FAMILIES[i % len(LAB_FAMILIES)]
                yield c
    # dense 6-8 node DAGs; long DAGs under a lowered recursion limit (HEAD is iterative throughout)
    for i in range(300 if tier == "quick" else 1500):
        c = {"kind": "dense", "g": random_dag(rng, rng.randint(6, 8), rng.choice([0.7, 0.8, 0.9])), "orc": 9}
        r = rng.random()
        if r < 0.15:
            c["input"] = rng.choice(INPUT_KINDS)
        elif r < 0.3:
            c["attrs"] = rng.randint(0, 10 ** 6)
        elif r < 0.4:
            c["_lab"] = rng.choice(LAB_FAMILIES)
        yield c
    # UNIT level: order_edges / label_edges called directly; the edge order (Chickering Alg. 4) and the labels are compared
    # with the model's order_model / label_model on every small DAG and on sparse larger ones
    for n in range(1, 5):
        for g in gr.enum_dag(n):
            yield {"kind": "unit%d" % n, "g": g, "unit": True}
    # sparse DAGs with many isolated / root nodes, n = 8..16 (packed sort keys, radix slips); time-series DiGraphs
    for i in range(400 if tier == "quick" else 2000):
        c = {"kind": "sparse", "g": sparse_roots_dag(rng, rng.randint(7, 16)), "_order": rng.randint(3, 10 ** 6), "orc": 4}
        if i % 2 == 0:
            c["unit"] = True
            c["kind"] = "sparse-unit"
        elif i % 7 == 1:
            c["attrs"] = rng.randint(0, 10 ** 6)
        yield c
    for i in range(80 if tier == "quick" else 400):
        c = {"kind": "tsdag", "ts": ts_template(rng), "g": gr.G([0]), "orc": 6}
        if i % 3 == 0:
            c["unit"] = True
        if i % 4 == 0:
            c["_order"] = rng.randint(3, 10 ** 6)
        yield c
    for i in range(6 if tier == "quick" else 20):
        yield {"kind": "deep", "g": long_dag(rng, rng.randint(150, 220)), "orc": -1, "_reclimit": 120}
    nr = 400 if tier == "quick" else 4000
    for i in range(nr):
        n = rng.randint(5, 9 if tier == "quick" else 12)
        if rng.random() < 0.3:
            g = components_dag(rng, n)
        else:
            g = random_dag(rng, n, rng.choice([0.15, 0.3, 0.45, 0.6]))
        c = {"kind": "rand", "g": g}
        r = rng.random()
        if r < 0.25:
            c = dict(repeat_variant(rng, g), kind="randrepeat")
        elif r < 0.4:
            c["attrs"] = rng.randint(0, 10 ** 6)
            c["kind"] = "randattrs"
        elif r < 0.55:
            c["retmut"] = rng.randint(0, 10 ** 6)
            c["kind"] = "randretmut"
        elif r < 0.7:
            c["_lab"] = rng.choice(LAB_FAMILIES)
            c["kind"] = "randlab"
        if rng.random() < 0.5:
            c["_order"] = rng.randint(3, 10 ** 6)
        if tier == "quick":
            c["orc"] = 9      # keeps the vm_compute spot check of the quick tier short (2^9 orientations at most)
        yield c


ATTR_VALUES = [None, 0, 1, 7, -3, "compelled", "reversible", "unknown", "x", "ENUM_C", "ENUM_R", "ENUM_U"]


def _attr_value(r):
    v = r.choice(ATTR_VALUES)
    if isinstance(v, str) and v.startswith("ENUM_"):
        from pywhy_graphs.algorithms.cpdag import EDGELABELS
        return {"C": EDGELABELS.COMPELLED, "R": EDGELABELS.REVERSIBLE, "U": EDGELABELS.UNKNOWN}[v[-1]]
    return v


def decorate(Dg, seed):
    """pre-existing node/edge attributes named like the algorithm's own ("order", "label") with arbitrary values"""
    import random as _r
    r = _r.Random("attrs:%s" % seed)
    for u, v in Dg.edges:
        for name in ("order", "label"):
            if r.random() < 0.7:
                Dg[u][v][name] = _attr_value(r)
        # attribute names networkx helpers give a meaning to: an edge with weight 0 / None / nan is still an edge
        if r.random() < 0.7:
            Dg[u][v]["weight"] = r.choice([0, 0, 0.0, -1, None, float("nan"), False, 2.5])
        if r.random() < 0.2:
            Dg[u][v][r.choice(["capacity", "directed", "compelled", "reversible"])] = r.choice([0, None, "x"])
    for n in Dg.nodes:
        for name in ("order", "label"):
            if r.random() < 0.3:
                Dg.nodes[n][name] = _attr_value(r)
        # attribute KEYS that are not str (a `**d` expansion of such a dict raises TypeError)
        if r.random() < 0.4:
            Dg.nodes[n][r.choice([0, 7, ("k", 1), None, 2.5])] = r.choice([0, "v", None])
    for u, v in Dg.edges:
        if r.random() < 0.3:
            Dg[u][v][r.choice([0, 7, ("k", 1), None])] = r.choice([0, "v", None])
    try:
        if r.random() < 0.5:
            Dg.graph[r.choice([0, ("g", 2), "name"])] = r.choice([0, "v", None])
    except Exception:      # frozen / view graphs share or protect the graph dict
        pass


def mutate_returned(C, seed):
    """in-place edits a caller may apply to a CPDAG it got back: orient an undirected edge, remove an edge, remove a node"""
    import random as _r
    r = _r.Random("retmut:%s" % seed)
    und = list(C.undirected_edges)
    dire = list(C.directed_edges)
    done = 0
    if und and r.random() < 0.7:
        u, v = r.choice(und)
        if r.random() < 0.5:
            u, v = v, u
        C.orient_uncertain_edge(u, v)
        done += 1
    if dire and r.random() < 0.6:
        u, v = r.choice(dire)
        C.remove_edge(u, v, C.directed_edge_name)
        done += 1
    nodes = list(C.nodes)
    if nodes and (done == 0 or r.random() < 0.3):
        C.remove_node(r.choice(nodes))


INPUT_KINDS = ["frozen", "subgraph", "subgraph_view", "edge_view", "subclass"]


def wrap_input(case, g0, lab):
    """the object handed to the code for case["input"]: a frozen DiGraph, views that hide a surplus node / edge of a larger
    graph (read-only structure, shared attribute dicts), or a DiGraph subclass.  Returns the object representing g0."""
    import networkx as nx
    kind = case.get("input")
    n = len(g0["V"])
    extra_node = max(g0["V"], default=-1) + 1
    if kind == "subclass":
        class MyDiGraph(nx.DiGraph):
            pass
        base = MyDiGraph()
    else:
        base = nx.DiGraph()
    for v in gr.ordered(case, g0["V"], "V"):
        base.add_node(lab(v))
    for a, b in gr.ordered(case, g0["D"], "E"):
        base.add_edge(lab(a), lab(b))
    if kind in ("subgraph", "subgraph_view"):
        x = lab(extra_node)
        base.add_node(x)
        for v in g0["V"][: max(1, n // 2)]:
            base.add_edge(x, lab(v))
        for v in g0["V"][max(1, n // 2):]:
            base.add_edge(lab(v), x)      # may even close a cycle through x: x is hidden
        keep = [lab(v) for v in g0["V"]]
        if kind == "subgraph":
            return base.subgraph(keep)
        return nx.subgraph_view(base, filter_node=lambda nd: nd is not x and nd != x)
    if kind == "edge_view":
        order = list(nx.topological_sort(base))
        cand = [(order[i], order[j]) for i in range(len(order)) for j in range(i + 1, len(order))
                if not base.has_edge(order[i], order[j])]
        if cand:
            hide = cand[len(cand) // 2]
            base.add_edge(*hide)
            return nx.subgraph_view(base, filter_edge=lambda u, v: (u, v) != hide)
        return nx.subgraph_view(base)
    if kind == "frozen":
        return nx.freeze(base)
    return base


def structure(Dg):
    """what dag_to_cpdag must leave alone: nodes, edges and every attribute except the two it documents writing
    (edge attributes 'order' and 'label')"""
    return (sorted((repr(n), repr(sorted(d.items(), key=repr))) for n, d in Dg.nodes(data=True)),
            sorted((repr(u), repr(v), repr(sorted(((k, x) for k, x in d.items() if k not in ("order", "label")), key=repr)))
                   for u, v, d in Dg.edges(data=True)), repr(sorted(Dg.graph.items(), key=repr)))


def ts_template(rng, undirected=False):
    """template of a stationary time-series graph: variables 0..k-1, max_lag L; directed template edges [x, lag, y] meaning
    (x, -lag) -> (y, 0) (lag 0: x before y in a fixed variable order, so the graph is acyclic); undirected contemporaneous [x, y]"""
    k = rng.randint(2, 4)
    L = rng.randint(1, 2)
    D, U, used = [], [], set()
    for x in range(k):
        for y in range(k):
            for lag in range(0, L + 1):
                if lag == 0 and x >= y:
                    continue
                if rng.random() < (0.3 if lag else 0.4):
                    if lag == 0:
                        if undirected and rng.random() < 0.5:
                            U.append([x, y])
                        else:
                            D.append([x, 0, y])
                        used.add((x, y))
                    else:
                        D.append([x, lag, y])
    return {"k": k, "L": L, "D": D, "U": U}


def ts_abstract(obj):
    """abstract graph {V,D,U} over ints of a time-series object, with the label table"""
    nodes = list(obj.nodes)
    num = {n: i for i, n in enumerate(nodes)}
    if hasattr(obj, "get_graphs"):
        Dl = obj.get_graphs("directed").edges
        Ul = obj.get_graphs("undirected").edges
    else:
        Dl, Ul = obj.edges, []
    g = gr.G(range(len(nodes)), D=sorted([num[a], num[b]] for a, b in Dl), U=sorted(sorted((num[a], num[b])) for a, b in Ul))
    return g, (lambda v: nodes[v]), (lambda x: num[x])


def ts_digraph(case):
    from pywhy_graphs.classes.timeseries import StationaryTimeSeriesDiGraph
    t = case["ts"]
    Dg = StationaryTimeSeriesDiGraph(max_lag=t["L"])
    Dg.add_variables_from(["v%d" % i for i in range(t["k"])])
    for x, lag, y in gr.ordered(case, t["D"], "E"):
        Dg.add_edge(("v%d" % x, -lag), ("v%d" % y, 0))
    return Dg


def graph_of(case):
    """the abstract DAG of a case (time-series cases carry a template; their graph is read off the built object)"""
    if "ts" in case:
        return ts_abstract(ts_digraph(case))[0]
    return case["g"]


def build(case, first_call=None):
    """the DiGraph handed to the code.  case["drop"]: edges of g added only AFTER a first call; case["extra"]: edges
    present at the first call and removed before the second; case["attrs"]: seed of pre-existing attributes.
    first_call(Dg) is run on the initial graph (only by run_impl; it does not change nodes/edges, so the
    topological order computed by encode() without it is the one the code sees)."""
    if "ts" in case:
        Dg = ts_digraph(case)
        _, lab, inv = ts_abstract(Dg)
        return Dg, lab, inv
    g = case["g"]
    drop = [list(e) for e in case.get("drop", [])]
    extra = [list(e) for e in case.get("extra", [])]
    g0 = dict(g, D=[e for e in g["D"] if e not in drop] + extra)
    if case.get("input"):
        lab, inv = gr.labeler(case)
        Dg = wrap_input(case, g0, lab)
        if case.get("attrs") is not None:
            decorate(Dg, case["attrs"])
        return Dg, lab, inv
    Dg, lab, inv = gr.to_digraph(g0, case)
    if case.get("attrs") is not None:
        decorate(Dg, case["attrs"])
    if drop or extra or case.get("repeat"):
        if first_call is not None:
            first_call(Dg)
        for a, b in extra:
            Dg.remove_edge(lab(a), lab(b))
        for a, b in drop:
            Dg.add_edge(lab(a), lab(b))
    return Dg, lab, inv


def topo_order(case):
    import networkx as nx
    Dg, lab, inv = build(case)
    return [inv(v) for v in nx.topological_sort(Dg)]


def oracle_on(case):
    return len(graph_of(case)["D"]) <= case.get("orc", 12)


def encode(case):
    return [0 if oracle_on(case) else 1, gr.enc(graph_of(case)), topo_order(case)]


def decode(case, v):
    out = {"ok": v[0], "nodes": v[1], "directed": v[2], "undirected": v[3], "topo_ok": v[4],
           "oracle": v[5] if oracle_on(case) else None}
    if case.get("unit"):
        out["order"] = v[6]
    return out


def run_impl(case):
    from pywhy_graphs.algorithms import dag_to_cpdag
    if case.get("unit"):
        # the two helpers called directly: Chickering's total order on the edges (Alg. 4) and the labels (Alg. 5)
        from pywhy_graphs.algorithms import label_edges, order_edges
        from pywhy_graphs.algorithms.cpdag import EDGELABELS
        Dg, lab, inv = build(case)
        before = structure(Dg)
        G1 = order_edges(Dg)
        nums = sorted(G1.edges[e]["order"] for e in G1.edges)
        order = [[inv(u), inv(v)] for u, v in sorted(G1.edges, key=lambda e: G1.edges[e]["order"])]
        G2 = label_edges(G1)
        if structure(Dg) != before:
            return {"input_changed": True}
        labs = {(u, v): G2.edges[u, v]["label"] for u, v in G2.edges}
        return {"nodes": sorted(inv(v) for v in G2.nodes),
                "directed": sorted([inv(a), inv(b)] for (a, b), l in labs.items() if l == EDGELABELS.COMPELLED),
                "undirected": sorted(sorted((inv(a), inv(b))) for (a, b), l in labs.items() if l == EDGELABELS.REVERSIBLE),
                "extra_layers": [repr(l) for l in set(labs.values()) - {EDGELABELS.COMPELLED, EDGELABELS.REVERSIBLE}],
                "order": order, "order_numbers_ok": nums == list(range(len(nums))), "same_object": G1 is Dg and G2 is Dg}
    Dg, lab, inv = build(case, first_call=dag_to_cpdag)
    if case.get("retmut") is not None:
        # the caller edits the RETURNED CPDAG in place, then converts an equal fresh DAG: the second result is judged
        mutate_returned(dag_to_cpdag(Dg), case["retmut"])
        Dg, lab, inv = build(case)
    before = structure(Dg)
    C = dag_to_cpdag(Dg)
    if structure(Dg) != before:
        return {"input_changed": True}
    return {"nodes": sorted(inv(v) for v in C.nodes),
            "directed": sorted([inv(a), inv(b)] for a, b in C.directed_edges),
            "undirected": sorted(sorted((inv(a), inv(b))) for a, b in C.undirected_edges),
            "extra_layers": sorted(n for n, lg in C.get_graphs().items()
                                   if n not in ("directed", "undirected") and lg.number_of_edges())}


def compare(case, impl, model):
    if model["ok"] != 1 or model["topo_ok"] != 1:
        return "model-precondition"          # fuel exhausted / networkx order not topological: machinery problem
    if model["oracle"] is not None and model["oracle"] != model["directed"]:
        return "model-vs-oracle"
    if "exc" in impl:
        return "exception"
    if impl.get("input_changed"):
        return "input-changed"
    if impl["nodes"] != model["nodes"]:
        return "nodes"
    if impl["directed"] != model["directed"]:
        return "directed"
    if impl["undirected"] != model["undirected"]:
        return "undirected"
    if impl["extra_layers"]:
        return "extra-layers"
    if "order" in impl:
        if impl["order"] != model["order"]:
            return "edge-order"
        if not impl["order_numbers_ok"]:
            return "edge-order-numbers"
    return None


def nontrivial(case, model):
    g = graph_of(case)
    iso = set(g["V"]) - {v for e in g["D"] for v in e}
    return bool(model.get("directed") and model.get("undirected")) or bool(iso)


def key(case):
    return (gr.canon(graph_of(case)), bool(case.get("unit")), tuple(map(tuple, case.get("drop", []))), tuple(map(tuple, case.get("extra", []))),
            case.get("attrs"), case.get("retmut"), case.get("_lab"), case.get("input"))


def classify(case, impl, model):
    return None


def shrink(case):
    if "ts" in case:
        t = case["ts"]
        for f in ("D", "U"):
            for i in range(len(t[f])):
                yield dict(case, ts=dict(t, **{f: t[f][:i] + t[f][i + 1:]}))
        return
    for h in gr.shrink_graph(case["g"]):
        c = dict(case, g=h)
        vs = set(h["V"])
        if "drop" in case:
            c["drop"] = [e for e in case["drop"] if e in h["D"]]
            c["extra"] = [e for e in case["extra"] if e[0] in vs and e[1] in vs and e not in h["D"]]
            if not gr.is_acyclic(h["V"], [e for e in h["D"] if e not in c["drop"]] + c["extra"]):
                continue
        yield c
    for f in ("drop", "extra"):
        for i in range(len(case.get(f, []))):
            yield dict(case, **{f: case[f][:i] + case[f][i + 1:]})
