"""C05 — pdag_to_dag returns a consistent extension exactly when one exists; argument unchanged;
consequences: pdag_to_cpdag(cpdag(D)) = cpdag(D), pdag_to_dag(dag_to_cpdag(D)) Markov equivalent to D."""
import contextlib
import io
import os
import subprocess

import graphs as gr
import sx as sxmod
import c04

PROP = "C05"
RULE = ("every PDAG(n) (per pair: none, ->, <-, --; cyclic directed layers included), n<=3 quick / n<=4 thorough (4096), "
        "patterns of all DAG(4) quick / DAG(5) thorough; seeded random PDAGs n<=8 (free kinds; DAG with a random subset of "
        "non-v-structure edges undirected; DAG with arbitrary edges undirected); consequences on every DAG(n) n<=4 quick / "
        "n<=5 thorough and random DAGs n<=9; repeat streams (pdag_to_dag / pdag_to_cpdag / dag_to_cpdag called before on the SAME "
        "object, for cons cases with edges added/removed in between) and pre-existing 'order'/'label' edge attributes; returned objects edited in place between calls; "
        "P.copy() judged after a warm-up on P; mixed UNORDERABLE labels (ints and strs) on all PDAG(n<=3), 25% of the shaped and 20% "
        "of the random PDAGs (exception class must stay ValueError); 300 (quick) shaped 5-6 node PDAGs (2-3 parents into an "
        "undirected clique of 2-3); quick also runs the consequences on all DAG(5) with >=9 edges and 700 sampled DAG(5); identity-hashed ('obj') and other label "
        "families on all PDAG(n<=3), 120 shaped PDAGs and 60 DAG round trips; 300 dense (p=0.7-0.9) 6-8 node PDAGs / DAG round trips; "
        "4 long PDAGs (90-110 nodes, recursion limit lowered to depth+60, HEAD is iterative; for these only raises-or-not, nodes, "
        "acyclicity, skeleton and kept directed edges are checked — the v-structure check is cubic); edge attributes incl. weight "
        "0/None/nan and non-str attribute keys; 250 StationaryTimeSeriesCPDAG / StationaryTimeSeriesMixedEdgeGraph inputs (template + "
        "homologous edges, abstract graph read off the built object; HEAD accepts them), plain MixedEdgeGraphs with the layers "
        "created as (undirected, directed) or (directed, undirected) and a CPDAG whose directed layer was removed and re-added, on "
        "all PDAG(n<=3) and 150 shaped PDAGs. Oracle (all orientations of the undirected edges) when |U|<=12. "
        "distinct by canonical graph; non-trivial = PDAG has an undirected and a directed edge")
EXHAUSTIVE = {"quick": "all PDAG(n) n<=3; patterns and consequences of all DAG(n) n<=4",
              "thorough": "all 4096 PDAG(4) and smaller; patterns and consequences of all DAG(n) n<=5"}
TRUSTED = ["networkx Graph/DiGraph views taken at face value",
           "the validity of the implementation's returned DAG is decided by the extracted Coq checker consistent_extb / meqb "
           "(bin/c05 modes 2,3) called from the worker"]
ASSUMPTIONS = ["input is a pywhy_graphs.CPDAG object (directed + undirected layers), at most one edge per pair, int labels"]
TECHNIQUE = ("Coq proof, all clauses unbounded (soundness, completeness, termination of the Dor-Tarsi model; both consequences via "
             "C04's all-sizes Chickering theorem; witness checkers reflected; refutation of the formerly coded clique test) "
             "+ extracted-model correspondence")
LEVEL_TEXT = ("All clauses are unbounded theorems about the model with Dor-Tarsi's neighbourhood test, for every PDAG with at most one edge "
              "per pair (directed layer not assumed acyclic): pdag_sound (a returned graph is a DAG on the same nodes, same skeleton, keeps "
              "every directed edge, has exactly the PDAG's v-structures), pdag_complete (failure only if no consistent extension exists), "
              "pdag_total (fuel = |V| never decides). Consequences, for EVERY DAG d and topological order: roundtrip_equiv "
              "(pdag_to_dag(dag_to_cpdag d) succeeds, is a consistent extension of the CPDAG and Markov equivalent to d), cpdag_fixpoint "
              "(pdag_to_cpdag(cpdag d) = cpdag d for every topological order of the returned DAG), roundtrip_all (the same with the "
              "model's own order some_topo, proved topological). consistent_ext_checker_correct / meq_checker_correct: the boolean "
              "checkers applied to the implementation's output decide the Props. pdag_complete_code_refuted: the clique test the code "
              "had before the fix rejects the extendable PDAG 0->2,0->3,1->2,1->3,2-3.")
LEVEL_NOTE = ("acyclic is stated as existence of a topological numbering. The implementation's witness is never compared by identity, "
              "only checked for validity by the extracted, proved-correct checker; which qualifying sink is chosen is not modelled "
              "(every choice is covered by the theorems). 'ValueError' is the only exception class accepted as 'no extension'. "
              "The fixpoint clause rests on C04/Essential.v (cpdag_classifies_thm), whose cone uses C08/Chordal.v.")
BIN = "/verif/bin/c05"
SPOT_N = 15


def coq_eval(vals):
    """evaluate sx values through the extracted run_case (witness checkers, modes 2 and 3)"""
    p = subprocess.run([BIN], input="\n".join(sxmod.dumps(v) for v in vals) + "\n", stdout=subprocess.PIPE,
                       text=True, env=dict(os.environ, OCAMLRUNPARAM="s=4M"))
    return [sxmod.loads(l) for l in p.stdout.split("\n") if l]


def to_cpdag_mixed(g, case):
    """CPDAG whose labels are mutually UNORDERABLE (ints and strs mixed): nothing in the property allows sorting labels"""
    from pywhy_graphs import CPDAG
    f = lambda v: v if v % 2 == 0 else "s%d" % v  # noqa: E731
    table = {f(v): v for v in g["V"]}
    P = CPDAG()
    for v in gr.ordered(case, g["V"], "V"):
        P.add_node(f(v))
    es = [(k, a, b) for k in "DU" for a, b in g[k]]
    for k, a, b in gr.ordered(case, es, "E"):
        P.add_edge(f(a), f(b), {"D": "directed", "U": "undirected"}[k])
    return P, f, (lambda x: table[x])


def ts_cpdag(case):
    """StationaryTimeSeriesCPDAG / StationaryTimeSeriesMixedEdgeGraph (layers in either order) from a template: add_edge adds the
    homologous edges at every lag, the layers are time-series graph classes whose .copy() keeps that class"""
    from pywhy_graphs.classes.timeseries import (StationaryTimeSeriesCPDAG, StationaryTimeSeriesDiGraph,
                                                 StationaryTimeSeriesGraph, StationaryTimeSeriesMixedEdgeGraph)
    t = case["ts"]
    L = t["L"]
    if case.get("cls") == "tsmixed":
        gs = [StationaryTimeSeriesGraph(max_lag=L), StationaryTimeSeriesDiGraph(max_lag=L)]
        P = StationaryTimeSeriesMixedEdgeGraph(graphs=gs, edge_types=["undirected", "directed"], max_lag=L)
    elif case.get("cls") == "tsmixed_du":
        gs = [StationaryTimeSeriesDiGraph(max_lag=L), StationaryTimeSeriesGraph(max_lag=L)]
        P = StationaryTimeSeriesMixedEdgeGraph(graphs=gs, edge_types=["directed", "undirected"], max_lag=L)
    else:
        P = StationaryTimeSeriesCPDAG(max_lag=L)
    P.add_variables_from(["v%d" % i for i in range(t["k"])])
    es = [("directed", ("v%d" % x, -lag), ("v%d" % y, 0)) for x, lag, y in t["D"]]
    es += [("undirected", ("v%d" % x, 0), ("v%d" % y, 0)) for x, y in t["U"]]
    for name, a, b in gr.ordered(case, es, "E"):
        P.add_edge(a, b, edge_type=name)
    return P


def mixed_pdag(g, case):
    """a plain MixedEdgeGraph with exactly the two layers, created in the order the case says (edge_types is a list)"""
    import networkx as nx
    import pywhy_graphs.networkx as pywhy_nx
    lab, inv = gr.labeler(case)
    if case["cls"] == "mixed_ud":
        M = pywhy_nx.MixedEdgeGraph(graphs=[nx.Graph(), nx.DiGraph()], edge_types=["undirected", "directed"])
    elif case["cls"] == "mixed_du":
        M = pywhy_nx.MixedEdgeGraph(graphs=[nx.DiGraph(), nx.Graph()], edge_types=["directed", "undirected"])
    else:   # "readd": a CPDAG whose directed layer was removed and added again through the public API
        from pywhy_graphs import CPDAG
        M = CPDAG()
        M.remove_edge_type("directed")
        M.add_edge_type(nx.DiGraph(), "directed")
    for v in gr.ordered(case, g["V"], "V"):
        M.add_node(lab(v))
    es = [("directed", a, b) for a, b in g["D"]] + [("undirected", a, b) for a, b in g["U"]]
    for name, a, b in gr.ordered(case, es, "E"):
        M.add_edge(lab(a), lab(b), name)
    return M, lab, inv


def graph_of(case):
    if "ts" in case:
        return c04.ts_abstract(ts_cpdag(case))[0]
    return case["g"]


def shaped_pdag(rng, n):
    """the shapes the sink test branches on: a sink-able node with several parents (adjacent or not) and several
    undirected neighbours forming a clique, parents pointing into all of the clique; plus noise"""
    nodes = list(range(n))
    rng.shuffle(nodes)
    k = rng.randint(2, 3)
    m = rng.randint(2, min(3, n - k))
    parents, clique, rest = nodes[:k], nodes[k:k + m], nodes[k + m:]
    D, U = [], []
    for p in parents:
        for c in clique:
            if rng.random() < 0.92:
                D.append([p, c])
    for i in range(len(clique)):
        for j in range(i + 1, len(clique)):
            if rng.random() < 0.92:
                U.append([clique[i], clique[j]])
    for i in range(len(parents)):
        for j in range(i + 1, len(parents)):
            r = rng.random()
            if r < 0.2:
                D.append([parents[i], parents[j]])
            elif r < 0.3:
                U.append([parents[i], parents[j]])
    for v in rest:
        for w in rng.sample(parents + clique, rng.randint(0, 2)):
            r = rng.random()
            if r < 0.5:
                D.append([w, v])
            else:
                U.append([w, v])
    return gr.G(range(n), D=D, U=U)


def pattern_of(g):
    """skeleton + v-structure edges directed, everything else undirected"""
    D = {tuple(e) for e in g["D"]}
    adj = lambda a, b: (a, b) in D or (b, a) in D  # noqa: E731
    keep = set()
    for (a, c) in D:
        for (b, c2) in D:
            if c2 == c and a != b and not adj(a, b):
                keep.add((a, c))
                keep.add((b, c))
    return gr.G(g["V"], D=sorted(keep), U=sorted(e for e in D if e not in keep))


def gen_cases(tier, rng):
    nmax = 3 if tier == "quick" else 4
    for n in range(1, nmax + 1):
        for g in gr.enum_pdag(n, acyclic=False):
            yield {"kind": "pdag%d" % n, "mode": "pdag", "g": g}
    dmax = 4 if tier == "quick" else 5
    seen = set()
    for n in range(1, dmax + 1):
        for g in gr.enum_dag(n):
            yield {"kind": "cons%d" % n, "mode": "cons", "g": g}
            if n == dmax:
                yield {"kind": "cons%d" % n, "mode": "cons", "g": g, "_order": 7}
            p = pattern_of(g)
            k = gr.canon(p)
            if k not in seen and p["U"]:
                seen.add(k)
                yield {"kind": "pattern%d" % n, "mode": "pdag", "g": p}
    nr = 400 if tier == "quick" else 4000
    for i in range(nr):
        n = rng.randint(4, 8)
        r = rng.random()
        if r < 0.35:
            g = gr.random_kinds_graph(rng, n, gr.PDAG_KINDS, p_edge=rng.choice([0.2, 0.3, 0.45]))
        else:
            d = c04.random_dag(rng, n, rng.choice([0.25, 0.4, 0.55]))
            pat = pattern_of(d)
            if r < 0.7:      # extendable by construction: pattern + some more edges oriented as in d
                und = [e for e in pat["U"] if rng.random() < 0.6]
            else:            # arbitrary edges undirected (v-structures may get lost: still extendable; or shielded changes)
                und = [e for e in d["D"] if rng.random() < 0.5]
                if rng.random() < 0.5 and und:   # flip one directed edge to make non-extendable cases likely
                    k = rng.randrange(len(d["D"]))
                    d = dict(d, D=[e if j != k else [e[1], e[0]] for j, e in enumerate(d["D"])])
                    und = [e for e in und if e in d["D"]]
            g = gr.G(d["V"], D=[e for e in d["D"] if e not in und], U=und)
        c = {"kind": "rand", "mode": "pdag", "g": g}
        if rng.random() < 0.5:
            c["_order"] = rng.randint(3, 10 ** 6)
        if rng.random() < 0.3:
            c["repeat"] = True
        if rng.random() < 0.3:
            c["attrs"] = rng.randint(0, 10 ** 6)
        r2 = rng.random()
        if r2 < 0.2:
            c["mixed"] = True
        elif r2 < 0.35:
            c["copy"] = True
        yield c
    for i in range(nr // 2):
        n = rng.randint(5, 9)
        g = c04.components_dag(rng, n) if rng.random() < 0.3 else c04.random_dag(rng, n, rng.choice([0.2, 0.35, 0.5]))
        c = {"kind": "randcons", "mode": "cons", "g": g}
        r = rng.random()
        if r < 0.3:
            c = dict(c04.repeat_variant(rng, g), kind="randcons-repeat", mode="cons")
        elif r < 0.5:
            c["attrs"] = rng.randint(0, 10 ** 6)
        yield c
    for g in gr.enum_dag(4):
        yield dict(c04.repeat_variant(rng, g), kind="cons4-repeat", mode="cons")
    # mixed unorderable labels: the exception class for "no extension" must stay ValueError
    for n in (2, 3):
        for g in gr.enum_pdag(n, acyclic=False):
            yield {"kind": "pdag%d-mixed" % n, "mode": "pdag", "g": g, "mixed": True}
    # size: 5-6 node PDAGs of the shapes the test branches on; dense DAG(5) (all with >= 9 edges) + a seeded sample
    for i in range(300 if tier == "quick" else 2000):
        c = {"kind": "shaped", "mode": "pdag", "g": shaped_pdag(rng, rng.randint(5, 6))}
        if i % 4 == 0:
            c["mixed"] = True
        if i % 5 == 0:
            c["repeat"] = True
        if i % 7 == 0:
            c["copy"] = True
        yield c
    if tier == "quick":
        d5 = list(gr.enum_dag(5))
        dense = [g for g in d5 if len(g["D"]) >= 9]
        for g in dense + rng.sample(d5, 700):
            yield {"kind": "cons5-sample", "mode": "cons", "g": g}
    # OTHER INPUT CLASSES the API accepts: stationary time-series CPDAGs / mixed-edge graphs (layer classes whose add_edge adds
    # homologous edges), plain MixedEdgeGraphs with the layers in either order, a CPDAG whose directed layer was re-added
    for i in range(250 if tier == "quick" else 1200):
        c = {"kind": "ts", "mode": "pdag", "g": gr.G([0]), "ts": c04.ts_template(rng, undirected=True), "orc": 8,
             "cls": ["tscpdag", "tscpdag", "tsmixed", "tsmixed_du"][i % 4]}
        if i % 5 == 0:
            c["repeat"] = True
        if i % 3 == 0:
            c["_order"] = rng.randint(3, 10 ** 6)
        yield c
    i = 0
    for n in (2, 3):
        for g in gr.enum_pdag(n, acyclic=False):
            i += 1
            yield {"kind": "cls%d" % n, "mode": "pdag", "g": g, "cls": ["mixed_ud", "mixed_du", "readd"][i % 3]}
    for i in range(150 if tier == "quick" else 700):
        c = {"kind": "shaped-cls", "mode": "pdag", "g": shaped_pdag(rng, rng.randint(5, 6)),
             "cls": ["mixed_ud", "readd", "mixed_du"][i % 3]}
        if i % 4 == 0:
            c["_lab"] = rng.choice(c04.LAB_FAMILIES)
        if i % 5 == 0:
            c["attrs"] = rng.randint(0, 10 ** 6)
        yield c
    # identity-hashed / other label families (pdag_to_dag copies the graph: a deep copy of the labels would change the nodes)
    i = 0
    for n in (2, 3):
        for g in gr.enum_pdag(n, acyclic=False):
            i += 1
            yield {"kind": "pdag%d-lab" % n, "mode": "pdag", "g": g, "_lab": "obj" if i % 2 else c04.LAB_FAMILIES[i % 7]}
    for i in range(120 if tier == "quick" else 600):
        c = {"kind": "shaped-lab", "mode": "pdag", "g": shaped_pdag(rng, rng.randint(5, 6)),
             "_lab": "obj" if i % 2 else rng.choice(c04.LAB_FAMILIES)}
        if i % 3 == 0:
            c["repeat"] = True
        yield c
    for i in range(60 if tier == "quick" else 300):
        g = c04.random_dag(rng, rng.randint(4, 7), rng.choice([0.3, 0.5]))
        yield {"kind": "cons-lab", "mode": "cons", "g": g, "_lab": "obj" if i % 2 else rng.choice(c04.LAB_FAMILIES)}
    # dense 6-8 node PDAGs (p = 0.7-0.9): a dense DAG with part of its non-v-structure edges undirected (extendable), or with
    # arbitrary edges undirected / one edge flipped; consequences on dense DAGs
    for i in range(300 if tier == "quick" else 1500):
        d = c04.random_dag(rng, rng.randint(6, 8), rng.choice([0.7, 0.8, 0.9]))
        if i % 3 == 2:
            yield {"kind": "dense-cons", "mode": "cons", "g": d}
            continue
        pat = pattern_of(d)
        if i % 3 == 0:
            und = [e for e in pat["U"] if rng.random() < 0.6]
        else:
            und = [e for e in d["D"] if rng.random() < 0.4]
            if und and rng.random() < 0.5:
                k = rng.randrange(len(d["D"]))
                d = dict(d, D=[e if j != k else [e[1], e[0]] for j, e in enumerate(d["D"])])
                und = [e for e in und if e in d["D"]]
        yield {"kind": "dense", "mode": "pdag", "orc": 8, "g": gr.G(d["V"], D=[e for e in d["D"] if e not in und], U=und)}
    # long PDAGs under a lowered recursion limit (HEAD is iterative): model only, no validity re-check (cubic in n)
    for i in range(4 if tier == "quick" else 12):
        d = c04.long_dag(rng, rng.randint(90, 110))    # the extracted model is ~n^4 on Peano nats: keep n around 100
        und = [e for e in pattern_of(d)["U"] if rng.random() < 0.7]
        yield {"kind": "deep", "mode": "pdag", "deep": True, "_reclimit": 60,
               "g": gr.G(d["V"], D=[e for e in d["D"] if e not in und], U=und)}
    for g in gr.enum_pdag(3, acyclic=False):
        yield {"kind": "pdag3-repeat", "mode": "pdag", "g": g, "repeat": True, "attrs": rng.randint(0, 10 ** 6)}


def oracle_on(case):
    return len(graph_of(case)["U"]) <= case.get("orc", 12)


def encode(case):
    if case.get("deep"):
        return [5, gr.enc(case["g"])]
    if case["mode"] == "pdag":
        return [0 if oracle_on(case) else 1, gr.enc(graph_of(case))]
    return [4, gr.enc(case["g"]), c04.topo_order(case)]


def decode(case, v):
    if case.get("deep"):
        return {"raises": v[0] == 0, "model_valid": 1, "oracle": 2, "wf": 1, "code_raises": None}
    if case["mode"] == "pdag":
        return {"raises": v[0] == 0, "model_valid": v[1], "oracle": v[2], "wf": v[3], "code_raises": v[4] == 0}
    return {"fix": v[0], "equiv": v[1]}


def _dag_abs(R, inv):
    return gr.G(sorted(inv(v) for v in R.nodes), D=sorted([inv(a), inv(b)] for a, b in R.edges()))


def run_impl(case):
    from pywhy_graphs.algorithms import dag_to_cpdag, pdag_to_cpdag, pdag_to_dag
    g = case["g"]
    sink = io.StringIO()
    if case["mode"] == "pdag":
        if "ts" in case:
            P = ts_cpdag(case)
            g, lab, inv = c04.ts_abstract(P)
        elif case.get("cls"):
            P, lab, inv = mixed_pdag(g, case)
        else:
            P, lab, inv = to_cpdag_mixed(g, case) if case.get("mixed") else gr.to_cpdag(g, case)
        if case.get("attrs") is not None:      # pre-existing edge attributes named like dag_to_cpdag's own
            for lg in P.get_graphs().values():
                c04.decorate(lg, case["attrs"])
        before = gr.snapshot(P)
        if case.get("repeat"):                 # a first call on the same object must not influence the second
            with contextlib.redirect_stdout(sink):
                for f in (pdag_to_dag, pdag_to_cpdag):
                    try:
                        R0 = f(P)
                        # the caller edits what it got back; that must not leak into later calls
                        if R0.number_of_nodes():
                            R0.remove_node(next(iter(R0.nodes)))
                    except ValueError:
                        pass
        if case.get("copy"):                   # a copy made after (or without) a warm-up is judged instead
            P0, P = P, P.copy()
            before = gr.snapshot(P)
        try:
            with contextlib.redirect_stdout(sink):
                R = pdag_to_dag(P)
        except ValueError:
            return {"raises": True, "mutated": gr.snapshot(P) != before}
        out = {"raises": False, "mutated": gr.snapshot(P) != before}
        d = _dag_abs(R, inv)
        out["nodes"] = d["V"]
        if case.get("deep"):     # the checker is cubic in n: for the long graphs check acyclicity, skeleton and kept edges here
            E = {tuple(e) for e in d["D"]}
            skel = {frozenset(e) for e in g["D"]} | {frozenset(e) for e in g["U"]}
            out["valid"] = int(gr.is_acyclic(d["V"], d["D"]) and {frozenset(e) for e in E} == skel and len(E) == len(skel)
                               and all(tuple(e) in E for e in g["D"]))
        else:
            out["valid"] = coq_eval([[2, gr.enc(g), gr.enc(d)]])[0][0]
        return out
    Dg, lab, inv = c04.build(case, first_call=dag_to_cpdag)
    with contextlib.redirect_stdout(sink):
        Cg = dag_to_cpdag(Dg)
        before = gr.snapshot(Cg)
        C2 = pdag_to_cpdag(Cg)
        if case.get("repeat"):
            C2 = pdag_to_cpdag(Cg)
            pdag_to_dag(Cg)
        R = pdag_to_dag(Cg)
    a, b = gr.from_mixed(Cg, inv), gr.from_mixed(C2, inv)
    return {"fix": int(a == b), "equiv": coq_eval([[3, gr.enc(g), gr.enc(_dag_abs(R, inv))]])[0][0],
            "mutated": gr.snapshot(Cg) != before}


def compare(case, impl, model):
    if case["mode"] == "pdag":
        if model["wf"] == 1:
            if (not model["raises"]) and model["model_valid"] != 1:
                return "model-vs-oracle"
            if model["oracle"] != 2 and (model["oracle"] == 1) == model["raises"]:
                return "model-vs-oracle"
        if "exc" in impl:
            return "exception"
        if impl["mutated"]:
            return "argument-mutated"
        if impl["raises"] != model["raises"]:
            return "raises-although-extension-exists" if impl["raises"] else "returns-although-no-extension"
        if not impl["raises"]:
            if impl["nodes"] != sorted(graph_of(case)["V"]):
                return "nodes"
            if impl["valid"] != 1:
                return "invalid-extension"
        return None
    if model["fix"] != 1 or model["equiv"] != 1:
        return "model-vs-oracle"
    if "exc" in impl:
        return "exception"
    if impl["mutated"]:
        return "argument-mutated"
    if impl["fix"] != 1:
        return "pdag_to_cpdag-not-identity-on-cpdag"
    if impl["equiv"] != 1:
        return "roundtrip-not-markov-equivalent"
    return None


def nontrivial(case, model):
    g = graph_of(case)
    return bool(g["U"] and g["D"]) if case["mode"] == "pdag" else len(g["D"]) >= 2


def key(case):
    return (case["mode"], gr.canon(graph_of(case)), case.get("cls"), bool(case.get("repeat")), case.get("attrs"), bool(case.get("mixed")),
            case.get("_lab"),
            bool(case.get("copy")),
            tuple(map(tuple, case.get("drop", []))), tuple(map(tuple, case.get("extra", []))))


def classify(case, impl, model):
    return None


def shrink(case):
    if "ts" in case:
        yield from c04.shrink(case)
        return
    if "drop" in case:
        yield from c04.shrink(case)
        return
    for h in gr.shrink_graph(case["g"]):
        yield dict(case, g=h)
