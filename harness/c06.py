"""C06 — inducing_path decides existence of an inducing path (and returns one); dag_to_mag keeps every observed node,
adjacency = inseparability by observed subsets given S, m-separation in the result = d-separation given S in the DAG."""
import itertools
import graphs as gr

PROP = "C06"
FAMILIES = ["bigint", "int257", "tuple", "frozenset", "str", "char"]
RULE = ("every DAG(n) n<=4 with every disjoint (L,S) (3^n assignments) and every ordered node pair (both tiers); "
        "6 seeded (L,S) for each of the 29281 DAGs on 5 nodes (thorough); the same n<=3 stream under each "
        "of the six non-default label families (labels rebuilt at every use, so equal but not identical objects); every "
        "ADMG(n) n<=3 with every (L,S) for inducing_path (ADMG(4) sampled in thorough); the 120 relabellings of a 5-node witness of "
        "the visit-order dependence; seeded random DAGs/ADMGs 5<=n<=8 "
        "(where the order dependence of the shared visited set shows). distinct by (canonical graph, L, S, label family); "
        "non-trivial = some returned inducing path has an inner node. "
        "repeat stream (same object): every ADMG(n<=3) x every single directed-edge edit (add/remove/reverse) x 8 (L,S), plus 300 "
        "(3000) random n<=6 graphs with 1-2 edits: all pairs are queried (and dag_to_mag called) on G0, results discarded, G0 is "
        "edited in place and the judged calls run on the same object against the model of the final graph. "
        "size stream: latent dead-end shapes with 5-9 nodes (a latent 3/4/5-clique, DAG-oriented or bidirected, feeding x or a latent "
        "hub, next to the short inducing path) under every rotation of the integer labels, 6 (40) random relabellings and "
        "alternating insertion orders. argument kinds: L,S as frozensets on every DAG(n<=3) x (L,S); one node labelled '' or () "
        "(falsy) - label 0 is a node of every case. boundary stream: the empty graph (fresh / emptied in place by remove_nodes_from with "
        "a duplicate in the bulk argument), isolated nodes only (n<=5) with L or S = all nodes, L and S omitted instead of explicit "
        "empty sets, a node dropped in place after a warm-up, and x == y / absent x or y (ValueError as the code documents). "
        "union stream: 160 (2000) disjoint unions of 2-3 planted graphs (10-20 nodes) in every part order, interleaved labels, per-part and "
        "cross-part queries, dag_to_mag on the DAG ones. planted stream (unit level for inducing_path / _shortest_valid_path): 900 (6000) graphs with a planted inducing path of 3-6 inner nodes "
        "(non-colliders latent, colliders ancestors of x / y / S directly or through an intermediate node, or selected themselves), chords to "
        "earlier path nodes, latent dead-end decoy branches, under random relabellings, insertion orders and label families, queried (x,y), "
        "(y,x) and two random observed pairs. nested labels: two nodes labelled by the pair / frozenset of the labels of two other adjacent nodes (a fixed 8-node shape under 24 "
        "relabellings + 300 random graphs). dense stream: 250 random DAGs/ADMGs with 6-8 nodes and edge density 0.7-0.9. deep stream: "
        "chains and bidirected collider chains of 45-60 nodes with latent forks, 30 frames of recursion head-room (inducing_path only; "
        "its DFS depth is the length of the explored path, kept <= 4 by the shapes). identity-hashed label objects (family obj). "
        "argument integrity on every case: graph snapshot and the L, S objects (the same two objects for all calls) unchanged")
EXHAUSTIVE = {"quick": "DAG(n) x all disjoint (L,S) x all ordered pairs, n<=4 (n<=3 under all 7 label families); ADMG(n) n<=3 likewise",
              "thorough": "same as quick, plus every DAG(5) with 6 seeded (L,S)"}
TRUSTED = ["networkx ancestors / predecessors / all_neighbors taken at face value",
           "validity of a returned path = membership in the model's list of all inducing paths of that pair"]
ASSUMPTIONS = ["default edge-type names", "graph passed as pywhy_graphs.ADMG (what dag_to_mag's own tests pass)",
               "judged queries: x != y both nodes of the graph (x == y / absent nodes only checked to raise ValueError); directed layer acyclic"]
SPOT_N = 15


def all_ls(nodes):
    for assign in itertools.product((0, 1, 2), repeat=len(nodes)):
        yield ([v for v, a in zip(nodes, assign) if a == 1], [v for v, a in zip(nodes, assign) if a == 2])


def opairs(nodes):
    return [[a, b] for a in nodes for b in nodes if a != b]


def mk(kind, g, L, S, dag, lab=None, oracle=None):
    c = {"kind": kind, "g": g, "L": L, "S": S, "qs": opairs(g["V"]), "dag": dag,
         "oracle": (len(g["V"]) <= 5) if oracle is None else oracle}
    if lab:
        c["_lab"] = lab
    return c


def single_edits(g):
    """all graphs reached from g by adding / removing / reversing ONE directed edge (directed part stays acyclic)"""
    D = [tuple(e) for e in g["D"]]
    out = []
    for a in g["V"]:
        for b in g["V"]:
            if a != b and (a, b) not in D and (b, a) not in D:
                out.append(D + [(a, b)])
    for e in D:
        rest = [f for f in D if f != e]
        out.append(rest)
        out.append(rest + [(e[1], e[0])])
    return [dict(g, D=[list(e) for e in d]) for d in out if gr.is_acyclic(g["V"], d)]


def random_edit(rng, g, bidir=True):
    """1-2 random edits (add / remove / reverse a directed edge, toggle a bidirected one)"""
    h = g
    for _ in range(rng.randint(1, 2)):
        if bidir and rng.random() < 0.25 and len(h["V"]) >= 2:
            a, b = sorted(rng.sample(h["V"], 2))
            B = [e for e in h["B"] if sorted(e) != [a, b]]
            h = dict(h, B=B if len(B) < len(h["B"]) else B + [[a, b]])
        else:
            c = single_edits(h)
            if c:
                h = rng.choice(c)
    return h


def apply_edits(A, lab, g0, g):
    """turn the object built from g0 into g IN PLACE (removals first, so a reversal is remove + add)"""
    gone = [v for v in g0["V"] if v not in g["V"]]
    if gone:
        A.remove_nodes_from([lab(v) for v in gone] + [lab(gone[0])])      # a duplicate inside the bulk argument is legal
        g0 = {"V": [v for v in g0["V"] if v in g["V"]], **{k: [e for e in g0[k] if e[0] in g["V"] and e[1] in g["V"]] for k in "DBUC"}}
    for v in g["V"]:
        if v not in g0["V"]:
            A.add_node(lab(v))
    for k, name, sym in (("D", "directed", False), ("B", "bidirected", True), ("U", "undirected", True)):
        norm = (lambda e: tuple(sorted(e))) if sym else tuple
        old, new = {norm(e) for e in g0[k]}, {norm(e) for e in g[k]}
        for a, b in sorted(old - new):
            A.remove_edge(lab(a), lab(b), name)
        for a, b in sorted(new - old):
            A.add_edge(lab(a), lab(b), name)


def repeat_cases(tier, rng):
    """same-object stream: queries on G0 are run and discarded, G0 is edited in place to G, the judged queries run on
    the SAME object and are compared with the model of G (a stale cache keyed by graph identity shows here only)"""
    for n in (2, 3):
        for g0 in gr.enum_admg(n):
            lss = list(all_ls(g0["V"]))
            for g in single_edits(g0):
                for L, S in [lss[0]] + rng.sample(lss[1:], 7 if n == 3 else 3):
                    c = mk("repeat%d" % n, g, L, S, not g["B"])
                    c["g0"] = g0
                    yield c
    for i in range(300 if tier == "quick" else 3000):
        n = rng.randint(4, 6)
        dag = rng.random() < 0.5
        g0 = gr.random_kinds_graph(rng, n, gr.DAG_KINDS if dag else ["none", "->", "<-", "<->"], p_edge=rng.choice([0.3, 0.5]))
        g = random_edit(rng, g0, bidir=not dag)
        a = [rng.choice((0, 0, 0, 1, 1, 2)) for _ in g["V"]]
        c = mk("repeat-rand", g, [v for v in g["V"] if a[v] == 1], [v for v in g["V"] if a[v] == 2], dag)
        c["g0"] = g0
        yield c


def clique(ds):
    return [(a, b) for i, a in enumerate(ds) for b in ds[i + 1:]]


def size_shapes():
    """'latent dead-end' shapes: a DAG-oriented (or bidirected) latent k-clique that a backtracking search enters before
    the short inducing path; (name, graph, L, S, dag)"""
    for k in (3, 4, 5):
        d = list(range(k))
        x, y = k, k + 1
        yield ("A%d" % k, gr.G(range(k + 2), D=clique(d) + [(i, x) for i in d] + [(x, y)]), d, [], True)
        yield ("Ar%d" % k, gr.G(range(k + 2), D=clique(d) + [(i, x) for i in d] + [(y, x)]), d, [], True)
        h, x, y = k, k + 1, k + 2
        yield ("B%d" % k, gr.G(range(k + 3), D=clique(d) + [(i, h) for i in d] + [(h, x), (h, y)]), d + [h], [], True)
        s_ = k + 3
        yield ("Bs%d" % k, gr.G(range(k + 4), D=clique(d) + [(i, h) for i in d] + [(h, x), (h, y), (x, s_), (y, s_)]),
               d + [h], [s_], True)
        x, y = k, k + 1
        yield ("C%d" % k, gr.G(range(k + 2), D=[(i, x) for i in d] + [(i, y) for i in d], B=clique(d) + [(x, y)]), d, [], False)


def size_cases(tier, rng):
    """SIZE stream: each shape under every rotation of the integer labels (set iteration of small ints is numeric, so the
    rotation decides whether the dead-end region is entered first), random relabellings and insertion orders"""
    for name, g, L, S, dag in size_shapes():
        n = len(g["V"])
        perms = [[(v + r) % n for v in range(n)] for r in range(n)]
        for _ in range(6 if tier == "quick" else 40):
            q = list(range(n))
            rng.shuffle(q)
            perms.append(q)
        for j, perm in enumerate(perms):
            h = gr.relabel(g, lambda v: perm[v])
            if j % 2:
                h["V"] = sorted(h["V"])
            c = mk("size-" + name, h, [perm[v] for v in L], [perm[v] for v in S], dag, oracle=(n <= 6))
            if j % 3 == 2:
                c["_order"] = j
            yield c


def argkind_cases(tier, rng):
    """ARGUMENT KINDS: L and S passed as frozensets; a falsy label ("" or ()) standing for one node (0 is a node anyway)"""
    for n in (2, 3):
        for g in gr.enum_dag(n):
            lss = list(all_ls(g["V"]))
            for L, S in lss:
                c = mk("frozen%d" % n, g, L, S, True)
                c["_argkind"] = "frozenset"
                yield c
            for v in g["V"]:
                for fk in ("str", "tuple"):
                    for L, S in [lss[0]] + rng.sample(lss[1:], 3):
                        c = mk("falsy%d" % n, g, L, S, True)
                        c["_falsy"] = [v, fk]
                        yield c
    for g in gr.enum_admg(3):
        if g["B"]:
            lss = list(all_ls(g["V"]))
            for L, S in rng.sample(lss, 2):
                c = mk("falsy-admg3", g, L, S, False)
                c["_falsy"] = [rng.choice(g["V"]), rng.choice(("str", "tuple"))]
                c["_argkind"] = "frozenset"
                yield c


def build(case, g):
    """ADMG for g under the case's label family; case["_falsy"] = [node, kind] relabels that node "" / ()"""
    if not case.get("_falsy") and not case.get("_nest"):
        return gr.to_admg(g, case)
    from pywhy_graphs import ADMG
    flab, finv = gr.labeler(case)
    if case.get("_nest"):
        # NESTED labels: node v is labelled by the pair (tuple) / frozenset of the labels of two OTHER nodes u, w
        nest = {int(v): spec for v, spec in case["_nest"].items()}

        def lab(v):
            if v in nest:
                kind, u, w = nest[v]
                return (flab(u), flab(w)) if kind == "tuple" else frozenset({flab(u), flab(w)})
            return flab(v)
        table = {}

        def inv(t):
            if not table:
                for v in set(case["g"]["V"]) | set((case.get("g0") or case["g"])["V"]):
                    table[lab(v)] = v
            return table[t]
    else:
        node, kind = case["_falsy"]
        special = "" if kind == "str" else ()
        lab = lambda v: special if v == node else flab(v)          # noqa: E731
        inv = lambda t: node if (t == special and type(t) is type(special)) else finv(t)   # noqa: E731
    A = ADMG()
    for v in gr.ordered(case, g["V"], "V"):
        A.add_node(lab(v))
    es = [(k, a, b) for k in "DBU" for a, b in g[k]]
    names = {"D": "directed", "B": "bidirected", "U": "undirected"}
    for k, a, b in gr.ordered(case, es, "E"):
        A.add_edge(lab(a), lab(b), names[k])
    return A, lab, inv


def boundary_cases(tier, rng):
    """BOUNDARY: the empty graph (fresh, and emptied in place with remove_nodes_from), single nodes, isolated nodes only, L or S
    = all nodes (also in the exhaustive stream), L / S omitted (None) instead of an explicit empty set, and the malformed
    queries for which the code documents ValueError: x == y, x or y not a node"""
    empty = gr.G([])
    yield mk("empty", empty, [], [], True)
    yield dict(mk("empty-none", empty, [], [], True), _none=True, bad=[[0, 1], [0, 0]])
    for n in (1, 2, 3):
        for g0 in gr.enum_dag(n):
            yield dict(mk("emptied%d" % n, empty, [], [], True), g0=g0, bad=[[0, 1]])
    for n in (1, 2, 3, 4, 5):
        iso = gr.G(range(n))
        for L, S in ([([], [])] + ([(list(range(n)), []), ([], list(range(n))), ([0], list(range(1, n)))])):
            yield dict(mk("isolated%d" % n, iso, L, S, True), bad=[[0, 0], [0, n], [n + 1, 0]])
        yield dict(mk("isolated%d-none" % n, iso, [], [], True), _none=True)
    for n in (2, 3):
        for g in gr.enum_dag(n):
            yield dict(mk("none%d" % n, g, [], [], True), _none=True, bad=[[0, 0], [0, n], [n, 0], [n, n + 1]])
            if g["D"]:   # drop one node in place after a warm-up
                v = rng.choice(g["V"])
                h = {"V": [w for w in g["V"] if w != v], **{k: [e for e in g[k] if v not in e] for k in "DBUC"}}
                c = mk("dropnode%d" % n, h, [], [], True)
                c["g0"] = g
                yield c


def nest_cases(tier, rng):
    """NESTED label stream: some node labels are the pair (tuple) or the frozenset of the labels of two other, adjacent nodes
    (a search that stores step pairs (prev, cur) next to node labels confuses them).  First the shape 5 <- U <- 6 -> 4 -> T -> 9,
    6 -> 2, 4 -> 3 with L = {6, 4, T, U}, T = (6, 2), U = (4, 3) under relabellings, then random graphs."""
    # nodes: 0:'5' 1:U 2:'6' 3:'4' 4:T 5:'9' 6:'2' 7:'3'
    w = gr.G(range(8), D=[(1, 0), (2, 1), (2, 3), (3, 4), (4, 5), (2, 6), (3, 7)])
    for j in range(24 if tier == "quick" else 120):
        perm = list(range(8))
        if j:
            rng.shuffle(perm)
        h = gr.relabel(w, lambda v: perm[v])
        if j % 2:
            h["V"] = sorted(h["V"])
        for kind in ("tuple", "frozenset"):
            c = mk("nest-w", h, [perm[v] for v in (2, 3, 4, 1)], [], True, oracle=False)
            c["_nest"] = {str(perm[4]): [kind, perm[2], perm[6]], str(perm[1]): [kind, perm[3], perm[7]]}
            yield c
    for i in range(300 if tier == "quick" else 3000):
        n = rng.randint(6, 8)
        dag = rng.random() < 0.6
        g = gr.random_kinds_graph(rng, n, gr.DAG_KINDS if dag else ["none", "->", "<-", "<->"], p_edge=rng.choice([0.3, 0.45]))
        edges = [e for k in "DB" for e in g[k]]
        if len(edges) < 2:
            continue
        nest, used = {}, set()
        for _ in range(rng.randint(1, 3)):
            u, v2 = rng.choice(edges)
            if rng.random() < 0.5:
                u, v2 = v2, u
            cand = [t for t in g["V"] if t not in (u, v2) and t not in nest and t not in used]
            if not cand or (u, v2) in [(a, b) for _, a, b in nest.values()]:
                continue
            t = rng.choice(cand)
            if any(t in (a, b) for _, a, b in nest.values()):
                continue
            nest[t] = [rng.choice(("tuple", "tuple", "frozenset")), u, v2]
            used.update((u, v2))
        if not nest or len({(k2, frozenset((a, b))) if k2 == "frozenset" else (k2, a, b) for k2, a, b in nest.values()}) < len(nest):
            continue
        a = [rng.choice((0, 1, 1, 1, 2)) for _ in g["V"]]
        obs_ = rng.sample(g["V"], 2)
        c = mk("nest-rand", g, [v for v in g["V"] if a[v] == 1 and v not in obs_], [v for v in g["V"] if a[v] == 2 and v not in obs_],
               dag, oracle=False)
        c["_nest"] = {str(t): spec for t, spec in nest.items()}
        yield c


def dense_cases(tier, rng):
    """dense random graphs (edge density 0.7-0.9) with 6-8 nodes"""
    for i in range(250 if tier == "quick" else 2500):
        n = rng.randint(6, 8)
        dag = rng.random() < 0.5
        g = gr.random_kinds_graph(rng, n, gr.DAG_KINDS if dag else ["none", "->", "<-", "<->"], p_edge=rng.choice([0.7, 0.8, 0.9]))
        a = [rng.choice((0, 0, 1, 1, 1, 2)) for _ in g["V"]]
        yield mk("dense-dag" if dag else "dense-admg", g, [v for v in g["V"] if a[v] == 1], [v for v in g["V"] if a[v] == 2],
                 dag, oracle=(n <= 6))


def deep_cases(tier, rng):
    """DEEP stream: long chains / collider chains (45-60 nodes: the model's naive closure is O(n^4), 100 nodes already cost 30 s per case) with side
    branches, run with 30 frames of head-room.
    inducing_path's DFS legitimately recurses once per node of the path it explores, so the shapes keep every explored path
    short (observed chain nodes block, latent side branches have length <= 3); everything else (ancestors, neighbours,
    sub-graph construction) must not recurse per node.  Only inducing_path is judged (dag_to_mag would need n^2 searches)."""
    for n in (45, 60):
        D = [(i, i + 1) for i in range(n - 1)]
        side, L = n, []
        for i in range(5, n - 5, 17):                 # latent forks i <- l -> i+2 and latent 2-chains
            D += [(side, i), (side, i + 2)]
            L.append(side)
            side += 1
        g = gr.G(range(side), D=D)
        qs = [[0, 1], [0, n - 1], [n - 1, 0], [5, 7], [7, 5], [22, 24], [6, 40], [n // 2, n // 2 + 1]]
        c = {"kind": "deep-chain", "g": g, "L": L, "S": [n - 1], "qs": qs, "dag": False, "oracle": False, "_reclimit": 30}
        yield c
        B = [(i, i + 1) for i in range(n - 1)]       # long collider chain: every inner node a collider, ancestor of the far end
        g2 = gr.G(range(n), D=[(i, n - 1) for i in range(1, n - 2, 15)], B=B)
        yield {"kind": "deep-bi", "g": g2, "L": [], "S": [], "qs": [[0, 2], [0, n - 1], [1, 3], [n - 3, n - 1]], "dag": False,
               "oracle": False, "_reclimit": 30}


def obj_cases(tier, rng):
    """identity-hashed label objects (graphs.labeler family "obj")"""
    for g in gr.enum_dag(3):
        for L, S in rng.sample(list(all_ls(g["V"])), 4):
            c = mk("obj3", g, L, S, True)
            c["_lab"] = "obj"
            yield c
    for i in range(60):
        n = rng.randint(4, 7)
        g = gr.random_kinds_graph(rng, n, ["none", "->", "<-", "<->"], p_edge=0.4)
        a = [rng.choice((0, 0, 1, 1, 2)) for _ in g["V"]]
        c = mk("obj-rand", g, [v for v in g["V"] if a[v] == 1], [v for v in g["V"] if a[v] == 2], not g["B"], oracle=False)
        c["_lab"] = "obj"
        yield c


def planted_graph(rng, k, dag):
    """a PLANTED inducing path x = 0, 1..k, y = k+1: random edge kinds on the path; the inner nodes that come out as
    non-colliders are made latent, every collider is made an ancestor of x / y / a selected node (directly or through an
    intermediate node) or is selected itself; then chords from inner nodes to earlier path nodes, latent decoy branches
    that are dead ends, and a few extra selected nodes.  None if the result is cyclic."""
    x, y = 0, k + 1
    D, B, L, S = [], [], [], []
    kinds = []
    for i in range(k + 1):
        kd = rng.choice(("->", "<-") if dag else ("->", "<-", "<->", "<->"))
        kinds.append(kd)
        (B if kd == "<->" else D).append((i, i + 1) if kd != "<-" else (i + 1, i))
    nxt = k + 2
    for v in range(1, k + 1):
        left_arrow = kinds[v - 1] in ("->", "<->")          # arrowhead at v on the edge (v-1, v)
        right_arrow = kinds[v] in ("<-", "<->")
        if not (left_arrow and right_arrow):
            L.append(v)
            continue
        how = rng.choice(("x", "y", "s", "inS", "via"))
        if how == "inS":
            S.append(v)
        elif how == "s":
            D.append((v, nxt)); S.append(nxt); nxt += 1
        elif how == "via":
            D.append((v, nxt)); D.append((nxt, rng.choice((x, y)))); nxt += 1   # intermediate stays observed
        else:
            D.append((v, x if how == "x" else y))
    have = {frozenset(e) for e in D + B}
    for _ in range(rng.randint(0, 3)):                      # chords back to earlier path nodes
        v = rng.randint(2, k + 1)
        u = rng.randint(0, v - 2)
        if frozenset((u, v)) in have or {u, v} == {x, y}:
            continue
        have.add(frozenset((u, v)))
        kd = rng.choice(("->", "<-") if dag else ("->", "<-", "<->"))
        (B if kd == "<->" else D).append((u, v) if kd != "<-" else (v, u))
    for _ in range(rng.randint(1, 3)):                      # latent decoy branches (dead ends)
        at = rng.randint(0, k + 1)
        ln = rng.randint(1, 2)
        prev = at
        for _ in range(ln):
            kd = rng.choice(("->", "<-") if dag else ("->", "<-", "<->"))
            (B if kd == "<->" else D).append((prev, nxt) if kd != "<-" else (nxt, prev))
            L.append(nxt)
            prev = nxt
            nxt += 1
    if rng.random() < 0.5:                                  # an extra selected node hanging off a decoy or the path
        D.append((rng.randint(0, nxt - 1), nxt)); S.append(nxt); nxt += 1
    g = gr.G(range(nxt), D=D, B=B)
    if not gr.is_acyclic(g["V"], g["D"]):
        return None
    return g, sorted(set(L)), sorted(set(S)), x, y


def planted_cases(tier, rng):
    """unit-level stream for inducing_path / _shortest_valid_path: planted inducing paths with 3..6 inner nodes, chords, decoys,
    L and S non-empty, each under several relabellings, insertion orders and label families, queried as (x,y) and (y,x)"""
    want = 900 if tier == "quick" else 6000
    made = 0
    fams = [None, None, None, "str", "tuple", "bigint", "frozenset", "char"]
    while made < want:
        k = rng.randint(3, 6)
        dag = rng.random() < 0.35
        r = planted_graph(rng, k, dag)
        if r is None:
            continue
        g, L, S, x, y = r
        n = len(g["V"])
        for rep in range(3):
            perm = list(range(n))
            rng.shuffle(perm)
            h = gr.relabel(g, lambda v: perm[v])
            if rep == 1:
                h["V"] = sorted(h["V"])
            qs = [[perm[x], perm[y]], [perm[y], perm[x]]]
            obs_ = [v for v in g["V"] if v not in L and v not in S]
            for _ in range(2):
                a, b = rng.sample(obs_, 2) if len(obs_) >= 2 else (x, y)
                qs.append([perm[a], perm[b]])
            c = {"kind": "planted%d" % k, "g": h, "L": [perm[v] for v in L], "S": [perm[v] for v in S], "qs": qs,
                 "dag": bool(dag and n <= 8), "oracle": False}
            fam = fams[(made + rep) % len(fams)]
            if fam and not (fam == "char" and n > 20):
                c["_lab"] = fam
            if rep == 2:
                c["_order"] = made
            made += 1
            yield c


def union_cases(tier, rng):
    """DISJOINT UNIONS for inducing_path / dag_to_mag: 2-3 planted graphs (each >= 5 nodes) relabelled apart and interleaved, L and S
    the unions; queries: each part's (x,y), (y,x) and cross-part pairs (always False); every order of the parts"""
    made, want = 0, (160 if tier == "quick" else 2000)
    while made < want:
        dag = rng.random() < 0.4
        parts = []
        for _ in range(rng.randint(2, 3)):
            r = None
            while r is None:
                r = planted_graph(rng, rng.randint(3, 4), dag)
            parts.append(r)
        if sum(len(r[0]["V"]) for r in parts) > 20:
            continue
        for od in itertools.permutations(parts):
            V, D, B, L, S, ends = [], [], [], [], [], []
            off = 0
            for g, Lp, Sp, x, y in od:
                V += [off + v for v in g["V"]]
                D += [(off + a, off + b) for a, b in g["D"]]
                B += [(off + a, off + b) for a, b in g["B"]]
                L += [off + v for v in Lp]
                S += [off + v for v in Sp]
                ends.append((off + x, off + y))
                off += len(g["V"])
            perm = list(range(off))
            if made % 3:
                rng.shuffle(perm)
            h = gr.relabel(gr.G(V, D=D, B=B), lambda v: perm[v])
            if made % 3 == 2:
                rng.shuffle(h["V"])
            qs = []
            for x, y in ends:
                qs += [[perm[x], perm[y]], [perm[y], perm[x]]]
            qs += [[perm[ends[0][0]], perm[ends[1][1]]], [perm[ends[1][0]], perm[ends[0][1]]]]
            yield {"kind": "union%d" % len(od), "g": h, "L": [perm[v] for v in L], "S": [perm[v] for v in S], "qs": qs,
                   "dag": bool(dag and off <= 14), "oracle": False}
            made += 1


def gen_cases(tier, rng):
    quick = tier == "quick"
    yield from boundary_cases(tier, rng)
    yield from union_cases(tier, rng)
    yield from planted_cases(tier, rng)
    yield from nest_cases(tier, rng)
    yield from dense_cases(tier, rng)
    yield from deep_cases(tier, rng)
    yield from obj_cases(tier, rng)
    yield from repeat_cases(tier, rng)
    yield from size_cases(tier, rng)
    yield from argkind_cases(tier, rng)
    for n in (1, 2, 3, 4):
        for g in gr.enum_dag(n):
            for L, S in all_ls(g["V"]):
                yield mk("dag%d" % n, g, L, S, True)
    for fam in FAMILIES:
        for n in (2, 3):
            for g in gr.enum_dag(n):
                for L, S in all_ls(g["V"]):
                    yield mk("dag%d-%s" % (n, fam), g, L, S, True, lab=fam)
    for n in (2, 3):
        for g in gr.enum_admg(n):
            if not g["B"]:
                continue
            for L, S in all_ls(g["V"]):
                yield mk("admg%d" % n, g, L, S, False)
    # visit-order stream: every relabelling of a 5-node graph on which a DFS that never un-marks [visited] misses the
    # inducing path 1 <- 4 <-> 3 <-> 0 (L = {4}) for some neighbour orders
    w = gr.G(range(5), D=[(2, 0), (4, 1), (3, 2)], B=[(0, 3), (2, 4), (3, 4)])
    for perm in itertools.permutations(range(5)):
        yield mk("perm5", gr.relabel(w, lambda v: perm[v]), [perm[4]], [], False)
    if not quick:
        for g in gr.enum_dag(5):
            for _ in range(6):
                a = [rng.choice((0, 0, 1, 2)) for _ in g["V"]]
                yield mk("dag5", g, [v for v in g["V"] if a[v] == 1], [v for v in g["V"] if a[v] == 2], True)
        for g in gr.enum_admg(4):
            if g["B"] and rng.random() < 0.25:
                a = [rng.choice((0, 0, 1, 2)) for _ in g["V"]]
                yield mk("admg4", g, [v for v in g["V"] if a[v] == 1], [v for v in g["V"] if a[v] == 2], False)
    for i in range(700 if quick else 8000):
        n = rng.randint(5, 8)
        dag = rng.random() < 0.6
        g = gr.random_kinds_graph(rng, n, gr.DAG_KINDS if dag else ["none", "->", "<-", "<->"],
                                  p_edge=rng.choice([0.25, 0.4, 0.55]))
        a = [rng.choice((0, 0, 0, 1, 1, 2)) for _ in g["V"]]
        c = mk("rand-dag" if dag else "rand-admg", g, [v for v in g["V"] if a[v] == 1],
               [v for v in g["V"] if a[v] == 2], dag, oracle=(n <= 6))
        if i % 5 == 4:
            c["_lab"] = FAMILIES[(i // 5) % len(FAMILIES)]
        yield c


def encode(case):
    return [(1 if case["dag"] else 0) + (2 if case["oracle"] else 0), gr.enc(case["g"]), case["L"], case["S"], case["qs"]]


def decode(case, v):
    out = {"ind": [[r[0], r[1]] for r in v[0]], "allp": [r[2] for r in v[0]], "mag": None, "oracle": None}
    if case["dag"]:
        m = v[1]
        out["mag"] = {"V": m[0], "D": m[1], "B": m[2], "U": m[3], "C": m[4]}
        if case["oracle"]:
            out["oracle"] = v[2]
    return out


def run_impl(case):
    from pywhy_graphs.algorithms import generic
    if case.get("g0") is not None:
        A, lab, inv = build(case, case["g0"])
        for x, y in opairs(case["g0"]["V"]):          # warm-up on G0 (all its ordered pairs), results discarded
            try:
                generic.inducing_path(A, lab(x), lab(y), {lab(v) for v in case["L"]}, {lab(v) for v in case["S"]})
            except Exception:  # noqa
                pass
        if case["dag"] and not case["g0"]["B"]:
            try:
                generic.dag_to_mag(A, {lab(v) for v in case["L"]}, {lab(v) for v in case["S"]})
            except Exception:  # noqa
                pass
        apply_edits(A, lab, case["g0"], case["g"])    # same object from here on
    else:
        A, lab, inv = build(case, case["g"])
    mkset = frozenset if case.get("_argkind") == "frozenset" else set
    Lset, Sset = mkset(lab(v) for v in case["L"]), mkset(lab(v) for v in case["S"])      # the SAME objects for every call
    Lcopy, Scopy = set(Lset), set(Sset)
    none = bool(case.get("_none")) and not case["L"] and not case["S"]
    before = gr.snapshot(A)
    ind = []
    for x, y in case["qs"]:
        try:
            ok, path = generic.inducing_path(A, lab(x), lab(y)) if none else generic.inducing_path(A, lab(x), lab(y), Lset, Sset)
            ind.append([int(bool(ok)), [inv(v) for v in path]])
        except Exception as e:  # noqa
            ind.append("exc:" + type(e).__name__)
    bad = []
    for x, y in case.get("bad", []):
        try:
            bad.append(repr(generic.inducing_path(A, lab(x), lab(y), Lset, Sset)))
        except Exception as e:  # noqa
            bad.append("exc:" + type(e).__name__)
    mag = None
    if case["dag"]:
        try:
            M = generic.dag_to_mag(A) if none else generic.dag_to_mag(A, Lset, Sset)
            try:
                mag = gr.from_mixed(M, inv)
            except KeyError:
                mag = "foreign-node-labels"
        except Exception as e:  # noqa
            mag = "exc:" + type(e).__name__
    out = {"ind": ind, "mag": mag, "bad": bad}
    if gr.snapshot(A) != before or set(Lset) != Lcopy or set(Sset) != Scopy:
        out["mutated"] = True
    return out


def compare(case, impl, model):
    if "exc" in impl:
        return "exception"
    if impl.get("mutated"):
        return "argument-mutated"
    if any(r != "exc:ValueError" for r in impl.get("bad", [])):
        return "malformed-query-not-ValueError"
    if model["oracle"] is not None and model["oracle"] != [1, 1]:
        return "model-vs-oracle"
    for r, m, allp in zip(impl["ind"], model["ind"], model["allp"]):
        if isinstance(r, str):
            return "inducing-exception"
        if r[0] != m[0]:
            return "inducing-boolean"
        if r[0] and r[1] not in allp:
            return "inducing-path-invalid"
        if not r[0] and r[1]:
            return "inducing-path-invalid"
    if case["dag"]:
        if isinstance(impl["mag"], str):
            return "mag-" + impl["mag"].replace(":", "-")
        if impl["mag"]["V"] != model["mag"]["V"]:
            return "mag-nodes"
        if impl["mag"] != model["mag"]:
            return "mag-edges"
    return None


def classify(case, impl, model):
    """no known findings are recorded for C06 (all four defects have fix proposals); the key only keeps the
    shrinker on the observable it started from - it matches no KNOWN_FINDINGS entry, so it is still a VIOLATION"""
    r = compare(case, impl, model)
    return None if r is None else "unrecognised:" + r


def nontrivial(case, model):
    return any(r[0] and len(r[1]) > 2 for r in model["ind"])


def json_key(x):
    import json
    return json.dumps(x, sort_keys=True)


def key(case):
    return (gr.canon(case["g"]), gr.canon(case["g0"]) if case.get("g0") else None, tuple(case["L"]), tuple(case["S"]),
            case.get("_lab", "int"), case.get("_argkind"), tuple(case.get("_falsy") or ()), case.get("_order"),
            json_key(case.get("_nest")))


def shrink_repeat(case):
    """keep g0 and g on one node set: drop a node from both, or an edge from either"""
    g0, g = case["g0"], case["g"]
    for v in g["V"]:
        f = lambda h: {"V": [w for w in h["V"] if w != v], **{k: [e for e in h[k] if v not in e] for k in "DBUC"}}  # noqa
        yield dict(case, g0=f(g0), g=f(g), L=[w for w in case["L"] if w != v], S=[w for w in case["S"] if w != v],
                   qs=[q for q in case["qs"] if v not in q])
    for which in ("g0", "g"):
        for k in "DB":
            for i in range(len(case[which][k])):
                h = dict(case[which])
                h[k] = h[k][:i] + h[k][i + 1:]
                if which == "g" and case["dag"] and h["B"]:
                    continue
                yield dict(case, **{which: h})
    for v in case["L"]:
        yield dict(case, L=[w for w in case["L"] if w != v])
    for v in case["S"]:
        yield dict(case, S=[w for w in case["S"] if w != v])
    if case["dag"]:
        yield dict(case, dag=False)
    elif len(case["qs"]) > 1:
        for q in case["qs"]:
            yield dict(case, qs=[q])


def shrink(case):
    if case.get("g0") is not None:
        yield from shrink_repeat(case)
        return
    for h in gr.shrink_graph(case["g"]):
        vs = set(h["V"])
        yield dict(case, g=h, L=[v for v in case["L"] if v in vs], S=[v for v in case["S"] if v in vs],
                   qs=[q for q in case["qs"] if q[0] in vs and q[1] in vs])
    for v in case["L"]:
        yield dict(case, L=[w for w in case["L"] if w != v])
    for v in case["S"]:
        yield dict(case, S=[w for w in case["S"] if w != v])
    if case["dag"]:
        yield dict(case, dag=False)
    if len(case["qs"]) > 1 and not case["dag"]:
        for q in case["qs"]:
            yield dict(case, qs=[q])
    if case.get("_lab"):
        yield {k: v for k, v in case.items() if k != "_lab"}


LEVEL_TEXT = ("Coq proof + correspondence. ALL clauses of the property are proved for ALL sizes: mag_full (= Spec.mag_full_stmt): for every DAG and "
              "disjoint L, S the model MAG has x, y adjacent iff no set of other observed nodes d-separates them given S (mag_adjacency_all) and "
              "m-separation given Z in the MAG iff d-separation given Z u S in the DAG (mag_independence_all = mag_independence_fwd + "
              "mag_independence_bwd, Richardson-Spirtes Thm 4.18 both directions, at walk level via Graph/Walks.open_walk_to_path; the model MAG "
              "is proved ancestral); inducing_iff_inseparable (Verma-Pearl / Richardson-Spirtes for every D/B graph with acyclic directed layer, "
              "bows and non-ancestral graphs included); inducing_exact / inducing_witness (the model's search returns True iff an inducing path "
              "relative to <L,S> exists, and the returned node list is one); node_level_exact (the code's node-level _is_collider test decides "
              "the same edge-level definition on acyclic D/B graphs); mag_nodes, mag_marks. The bounded theorems (all DAGs on <= 4 nodes, "
              "kernel computation) are kept as independent checks. The implementation is tied to the model by correspondence on the cases "
              "of `rule`, incl. label families, same-object repeats, boundary, size, nested-label, dense and deep streams.")
LEVEL_NOTE = ("Nothing of the property text remains bounded. The theorems are about the model (dag_to_mag_model / inducing_model, the repaired "
              "algorithm); the implementation is tied to it by the differential correspondence only. Hypotheses of mag_full: wf DAG (only the "
              "directed layer non-empty, acyclic), L and S disjoint subsets of the nodes; x <> y observed, Z a set of other observed nodes. "
              "Paths are edge-level (a step names its layer); that the code's node-level collider test decides the same definition is "
              "node_level_exact (fails with a 2-cycle: node_level_needs_acyclic).")
TECHNIQUE = "Coq proof (all clauses unbounded: enumeration exactness, Richardson-Spirtes marginalisation theorem at walk level; n<=4 kernel computations kept as cross-checks) + extracted-model correspondence"


# tie (T) for the local predicates (translator/predicates.py -> Gen/Gen_Preds.v -> Tie/Preds_Cxx.v): pre_build, extra, replay of cells
import tie_preds  # noqa: E402
tie_preds.install(globals(), PROP)
