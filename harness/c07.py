"""C07 — valid_mag / is_maximal / has_adc decide the MAG definition (one edge per pair, acyclic, ancestral, maximal)."""
import itertools
import graphs as gr

PROP = "C07"
RULE = ("every graph on n<=3 nodes over the 9 per-pair kinds {none,->,<-,<->,->&<->,<-&<->,->&<- (2-cycle),--,<->&--} "
        "(cyclic ones included) and every ADMG(4) incl. bows (quick); additionally every 4-node graph over the kinds with an "
        "undirected edge or a 2-cycle on at most one pair (thorough); the 240 relabellings of two 5-node witnesses of the visit-order dependence of the search; seeded random ADMGs 5<=n<=7, half of them ancestral and "
        "bow-free so that valid MAGs are frequent. repeat stream (same object): every ADMG(n<=3) x every single directed-edge edit, plus 300 (3000) random n<=6 "
        "ADMGs with 1-2 edits: the three functions are called on G0 and discarded, G0 is edited in place, the judged calls run on the "
        "same object against the model of the final graph. boundary stream: the empty graph (fresh / emptied in place by remove_nodes_from after a warm-up), isolated nodes only "
        "(n<=5), a node dropped in place, each with L, S omitted and with explicit empty sets (every ADMG(n<=3) also with explicit empty "
        "sets); argument integrity on every case (graph snapshot, the two set objects stay empty). union stream: 420 (4000) disjoint unions of 2-4 parts (8-16 nodes, at least two parts with >= 4 nodes: non-maximal / maximal / complete "
        "districts of equal and different sizes, almost directed cycles, random ancestral and non-ancestral parts, DAG parts whose nodes are "
        "singleton districts), every order of the parts, labels interleaved or contiguous, model only. chain stream: 400 (5000) planted all-bidirected collider chains x <-> c1 <-> .. <-> ck <-> y with k = 4..6 (n = 6..8), each collider an "
        "ancestor of x only / y only / both (interleaved at random, directly or through an intermediate), ancestral and non-maximal by "
        "construction, relabelled and with varied insertion order. shaped stream: 350 (4000) ancestral graphs with 6-8 nodes built around an inducing path x <-> c1 <-> .. <-> ck <-> y whose colliders "
        "reach x / y through directed paths of length 1-3, with random decorations and relabellings (most are non-maximal; the model decides). "
        "dense stream: 250 random ADMGs with 6-8 nodes and edge density 0.7-0.9; 40 graphs with identity-hashed label objects. "
        "size stream: collider dead-end shapes with 7-14 nodes (a bidirected 3/4/5-clique "
        "of admissible colliders next to the true inducing path x <-> c1 <-> c2 <-> y; one- and two-sided) under rotations of the integer "
        "labels, random relabellings and alternating insertion orders (model only, oracle off above 6 nodes). distinct by canonical graph (pair); non-trivial = acyclic, no undirected edge and "
        "at least one non-adjacent pair (maximality is not vacuous)")
EXHAUSTIVE = {"quick": "all graphs over 9 pair kinds n<=3; all acyclic ADMG(4)", "thorough": "same + 4-node graphs with one undirected/2-cycle pair"}
TRUSTED = ["networkx find_cycle / ancestors / descendants / all_neighbors taken at face value"]
ASSUMPTIONS = ["default edge-type names, L = S = None (defaults)", "int labels here; label families are exercised by C06 (same search) and C15",
               "is_maximal is compared only where the graph has no undirected edge and the directed layer is acyclic"]
SPOT_N = 15

KINDS = {
    "none": {}, "->": {"D": [(0, 1)]}, "<-": {"D": [(1, 0)]}, "<->": {"B": [(0, 1)]},
    "->&<->": {"D": [(0, 1)], "B": [(0, 1)]}, "<-&<->": {"D": [(1, 0)], "B": [(0, 1)]},
    "->&<-": {"D": [(0, 1), (1, 0)]}, "--": {"U": [(0, 1)]}, "<->&--": {"B": [(0, 1)], "U": [(0, 1)]},
}
ODD = ["->&<-", "--", "<->&--"]


def build(n, ks):
    g = {"V": list(range(n)), "D": [], "B": [], "U": [], "C": []}
    for (a, b), k in zip(gr.pairs(n), ks):
        for layer, es in KINDS[k].items():
            for (i, j) in es:
                g[layer].append([(a, b)[i], (a, b)[j]])
    return g


def repeat_cases(tier, rng):
    """same-object stream: the three functions are called on G0 (results discarded), G0 is edited in place to G and the
    judged calls run on the SAME object against the model of G"""
    import c06
    for n in (2, 3):
        for g0 in gr.enum_admg(n):
            for g in c06.single_edits(g0):
                yield {"kind": "repeat%d" % n, "g0": g0, "g": g, "oracle": True}
    for i in range(300 if tier == "quick" else 3000):
        n = rng.randint(4, 6)
        g0 = gr.random_kinds_graph(rng, n, ["none", "->", "<-", "<->"] if i % 2 else gr.ADMG_KINDS, p_edge=rng.choice([0.2, 0.35, 0.5]))
        yield {"kind": "repeat-rand", "g0": g0, "g": c06.random_edit(rng, g0), "oracle": True}


def size_shapes():
    """'collider dead-end' shapes (L = S = {}): a bidirected k-clique d of spouses of x, every d_i -> y, so every d_i is an
    admissible collider but the clique never reaches y; the true inducing path is x <-> c1 <-> c2 <-> y (c1 -> y, c2 -> x),
    x and y are not adjacent, the graph is ancestral and NOT maximal.  M2: the mirror clique e on the side of y as well."""
    import c06
    for k in (3, 4, 5):
        d = list(range(k))
        x, y, c1, c2 = k, k + 1, k + 2, k + 3
        B = c06.clique(d) + [(x, i) for i in d] + [(x, c1), (c1, c2), (c2, y)]
        D = [(i, y) for i in d] + [(c1, y), (c2, x)]
        yield "M%d" % k, gr.G(range(k + 4), D=D, B=B)
        if k == 5:
            e = list(range(k + 4, 2 * k + 4))
            yield "MM%d" % k, gr.G(range(2 * k + 4), D=D + [(i, x) for i in e], B=B + c06.clique(e) + [(y, i) for i in e])


def size_cases(tier, rng):
    for name, g in size_shapes():
        n = len(g["V"])
        perms = [[(v + r) % n for v in range(n)] for r in range(n)]
        for _ in range(6 if tier == "quick" else 30):
            q = list(range(n))
            rng.shuffle(q)
            perms.append(q)
        for j, perm in enumerate(perms):
            h = gr.relabel(g, lambda v: perm[v])
            if j % 2:
                h["V"] = sorted(h["V"])
            c = {"kind": "size-" + name, "g": h, "oracle": n <= 6}
            if j % 3 == 2:
                c["_order"] = j
            yield c


def boundary_cases(tier, rng):
    """BOUNDARY: the empty graph (fresh, and emptied in place with remove_nodes_from after a warm-up), single nodes, isolated
    nodes only, a node dropped in place; every one also with L = S = set() passed explicitly (same two objects for the three
    calls, checked to stay empty) instead of omitted"""
    empty = gr.G([])
    for ex in (False, True):
        yield {"kind": "empty", "g": empty, "oracle": True, "_explicit": ex}
        for n in (1, 2, 3, 4, 5):
            yield {"kind": "isolated%d" % n, "g": gr.G(range(n)), "oracle": True, "_explicit": ex}
        for n in (1, 2, 3):
            for g0 in gr.enum_admg(n):
                yield {"kind": "emptied%d" % n, "g0": g0, "g": empty, "oracle": True, "_explicit": ex}
                if n == 3:
                    v = rng.choice(g0["V"])
                    h = {"V": [w for w in g0["V"] if w != v], **{k: [e for e in g0[k] if v not in e] for k in "DBUC"}}
                    yield {"kind": "dropnode3", "g0": g0, "g": h, "oracle": True, "_explicit": ex}
    for n in (2, 3):       # explicit empty sets on every small graph
        for g in gr.enum_admg(n):
            yield {"kind": "explicit%d" % n, "g": g, "oracle": True, "_explicit": True}


def is_ancestral(g):
    """acyclic, no bow, no bidirected edge between a node and one of its ancestors"""
    if not gr.is_acyclic(g["V"], g["D"]):
        return False
    anc = {v: set() for v in g["V"]}
    changed = True
    while changed:
        changed = False
        for a, b in g["D"]:
            new = ({a} | anc[a]) - anc[b]
            if new:
                anc[b] |= new
                changed = True
    return all(a not in anc[b] and b not in anc[a] for a, b in g["B"])


def shaped_cases(tier, rng):
    """ancestral NON-maximal shapes with 6-8 nodes: an inducing path x <-> c1 <-> ... <-> ck <-> y (k = 2, 3) whose colliders reach
    x or y only through directed paths of length 1-3 via intermediate nodes, plus decorations (extra spouses / children / parents of
    the end points, colliders and intermediates), under random relabellings.  Graphs that are not ancestral after decoration are
    dropped; the model decides (maximal_is_separable_all makes its answer authoritative at any size)."""
    want = 350 if tier == "quick" else 4000
    made, tries = 0, 0
    while made < want and tries < want * 40:
        tries += 1
        k = rng.choice((2, 2, 3))
        x, y = 0, 1
        cs = list(range(2, 2 + k))
        nxt = 2 + k
        B = [(x, cs[0])] + [(cs[i], cs[i + 1]) for i in range(k - 1)] + [(cs[-1], y)]
        D = []
        inter = []
        for c in cs:
            tgt = rng.choice((x, y))
            ln = rng.choice((1, 2, 2, 2, 3))
            prev = c
            for _ in range(ln - 1):
                if nxt >= 8:
                    break
                D.append((prev, nxt))
                inter.append(nxt)
                prev = nxt
                nxt += 1
            D.append((prev, tgt))
        n = min(8, max(6, nxt + rng.randint(0, 2)))
        V = list(range(n))
        for _ in range(rng.randint(0, 4)):           # decorations
            a, b = rng.sample(V, 2)
            if {a, b} == {x, y} or any({a, b} == set(e) for e in B + D):
                continue
            if rng.random() < 0.5:
                B.append((a, b))
            else:
                D.append((a, b))
        g = gr.G(V, D=D, B=B)
        if not is_ancestral(g):
            continue
        perm = list(range(n))
        rng.shuffle(perm)
        h = gr.relabel(g, lambda v: perm[v])
        if made % 2:
            h["V"] = sorted(h["V"])
        made += 1
        yield {"kind": "shaped%d" % n, "g": h, "oracle": n <= 6}
    # the two demo shapes and the minimal 6-node witness, under rotations
    demos = [gr.G(range(6), D=[(2, 4), (4, 1), (3, 5), (5, 0)], B=[(0, 2), (2, 3), (3, 1)]),
             gr.G(range(8), D=[(2, 4), (4, 1), (3, 5), (5, 0)], B=[(0, 2), (2, 3), (3, 1), (0, 6), (6, 4)]),
             gr.G(range(7), D=[(2, 4), (4, 1), (3, 5), (5, 0), (6, 1)], B=[(0, 2), (2, 3), (3, 1), (0, 6)])]
    for g in demos:
        n = len(g["V"])
        for r in range(n):
            yield {"kind": "shaped-demo", "g": gr.relabel(g, lambda v: (v + r) % n), "oracle": n <= 6}


def dense_cases(tier, rng):
    """dense random ADMGs (edge density 0.7-0.9) with 6-8 nodes, half of them bow-free"""
    for i in range(250 if tier == "quick" else 2500):
        n = rng.randint(6, 8)
        g = gr.random_kinds_graph(rng, n, ["none", "->", "<-", "<->"] if i % 2 else gr.ADMG_KINDS, p_edge=rng.choice([0.7, 0.8, 0.9]))
        yield {"kind": "dense", "g": g, "oracle": n <= 6}
    for i in range(40):
        n = rng.randint(4, 7)
        yield {"kind": "obj", "g": gr.random_kinds_graph(rng, n, ["none", "->", "<-", "<->"], p_edge=0.4), "oracle": False, "_lab": "obj"}


def chain_cases(tier, rng):
    """planted all-bidirected collider chains x <-> c1 <-> ... <-> ck <-> y, k = 4..6 (n = 6..8, intermediates while there is room):
    every collider is an ancestor of x only / y only / both (c1 never of x, ck never of y: the graph stays ancestral), directly or
    through an intermediate node; x, y are sinks and not adjacent, so the graph is ancestral and NOT maximal by construction
    (the proved model decides).  Optional decoration edges; dropped when not ancestral.  Random relabellings / insertion orders."""
    want = 400 if tier == "quick" else 5000
    made = 0
    while made < want:
        k = rng.randint(4, 6)
        x, y = 0, 1
        cs = list(range(2, 2 + k))
        nxt = 2 + k
        B = [(x, cs[0])] + [(cs[i], cs[i + 1]) for i in range(k - 1)] + [(cs[-1], y)]
        D = []
        for i, c in enumerate(cs):
            opts = ["x", "y", "both"]
            if i == 0:
                opts = ["y"]
            if i == k - 1:
                opts = ["x"]
            how = rng.choice(opts)
            for tgt in ([x] if how == "x" else [y] if how == "y" else [x, y]):
                if nxt < 8 and rng.random() < 0.5:
                    D += [(c, nxt), (nxt, tgt)]
                    nxt += 1
                else:
                    D.append((c, tgt))
        n = nxt
        V = list(range(n))
        for _ in range(rng.randint(0, 2)):
            a, b = rng.sample(V, 2)
            if {a, b} == {x, y} or any({a, b} == set(e) for e in B + D) or a in (x, y):
                continue
            (B if rng.random() < 0.5 else D).append((a, b))
        g = gr.G(V, D=D, B=B)
        if not is_ancestral(g):
            continue
        perm = list(range(n))
        rng.shuffle(perm)
        h = gr.relabel(g, lambda v: perm[v])
        if made % 2:
            h["V"] = sorted(h["V"])
        c = {"kind": "chain%d" % k, "g": h, "oracle": n <= 6}
        if made % 3 == 2:
            c["_order"] = made
        made += 1
        yield c


def disjoint_union(parts, rng, interleave=True):
    """relabel the parts apart; with interleave the labels of all parts are permuted together and the node order shuffled,
    so that the components interleave in every iteration order"""
    V, D, B, U = [], [], [], []
    off = 0
    for g in parts:
        m = {v: off + i for i, v in enumerate(g["V"])}
        V += [m[v] for v in g["V"]]
        D += [(m[a], m[b]) for a, b in g["D"]]
        B += [(m[a], m[b]) for a, b in g["B"]]
        U += [(m[a], m[b]) for a, b in g["U"]]
        off += len(g["V"])
    g = gr.G(V, D=D, B=B, U=U)
    if interleave:
        perm = list(range(off))
        rng.shuffle(perm)
        g = gr.relabel(g, lambda v: perm[v])
        rng.shuffle(g["V"])
    return g


NM4 = gr.G(range(4), D=[(1, 3), (2, 0)], B=[(0, 1), (1, 2), (2, 3)])     # x<->a<->b<->y, a->y, b->x: ancestral, NOT maximal
M4 = gr.G(range(4), B=[(0, 1), (1, 2), (2, 3)])                           # the same district without the directed edges: maximal
NM6 = gr.G(range(6), D=[(2, 4), (4, 1), (3, 5), (5, 0)], B=[(0, 2), (2, 3), (3, 1)])
ADC4 = gr.G(range(4), D=[(0, 1), (1, 2)], B=[(0, 2), (2, 3)])             # almost directed cycle
K4 = gr.G(range(4), B=[(0, 1), (0, 2), (0, 3), (1, 2), (1, 3), (2, 3)])   # one complete district: maximal


def union_parts(rng, pool4):
    """2-4 parts, at least two of them with >= 4 nodes; equal and different sizes; one district or several; (non-)maximal, (non-)ancestral"""
    def big():
        r = rng.random()
        if r < 0.25:
            return NM4
        if r < 0.4:
            return M4
        if r < 0.5:
            return K4
        if r < 0.58:
            return ADC4
        if r < 0.68:
            return NM6
        if r < 0.8:
            return gr.random_kinds_graph(rng, rng.randint(4, 6), ["none", "->", "<-", "<->"], p_edge=rng.choice([0.3, 0.5, 0.7]))
        if r < 0.9:
            return gr.random_kinds_graph(rng, rng.randint(4, 5), gr.DAG_KINDS, p_edge=0.5)     # every node its own district
        return rng.choice(pool4)
    parts = [big(), big()]
    for _ in range(rng.randint(0, 2)):
        parts.append(big() if rng.random() < 0.4 else gr.random_kinds_graph(rng, rng.randint(1, 3), gr.ADMG_KINDS, p_edge=0.5))
    return parts


def union_cases(tier, rng):
    """DISJOINT UNIONS (8-16 nodes): several non-trivial connected components / districts at once; every order of the parts;
    interleaved and contiguous labellings (model only: the brute-force oracles are off)"""
    pool4 = [g for g in gr.enum_admg(4) if len(g["B"]) >= 2 and rng.random() < 0.02]
    made, want = 0, (420 if tier == "quick" else 4000)
    # the critical pairs first: a non-maximal part next to a maximal one of EQUAL size, in both orders
    for a, b in ((NM4, M4), (NM4, K4), (NM4, NM4), (M4, M4), (NM4, ADC4), (NM6, NM4), (NM6, gr.G(range(6), B=[(i, i + 1) for i in range(5)]))):
        for parts in ([a, b], [b, a], [a, b, gr.G(range(2), D=[(0, 1)])], [gr.G([0]), b, a]):
            for inter in (False, True, True):
                yield {"kind": "union-crit", "g": disjoint_union(parts, rng, inter), "oracle": False}
    while made < want:
        parts = union_parts(rng, pool4)
        if sum(len(g["V"]) for g in parts) > 16:
            continue
        orders = list(itertools.permutations(parts)) if len(parts) <= 3 else [parts, parts[::-1]]
        for od in orders:
            c = {"kind": "union%d" % len(parts), "g": disjoint_union(list(od), rng, made % 4 != 0), "oracle": False}
            if made % 5 == 4:
                c["_order"] = made
            made += 1
            yield c


def gen_cases(tier, rng):
    quick = tier == "quick"
    yield from boundary_cases(tier, rng)
    yield from union_cases(tier, rng)
    yield from chain_cases(tier, rng)
    yield from shaped_cases(tier, rng)
    yield from dense_cases(tier, rng)
    yield from repeat_cases(tier, rng)
    yield from size_cases(tier, rng)
    for n in (1, 2, 3):
        for ks in itertools.product(list(KINDS), repeat=len(gr.pairs(n))):
            yield {"kind": "all%d" % n, "g": build(n, ks), "oracle": True}
    for g in gr.enum_admg(4):
        yield {"kind": "admg4", "g": g, "oracle": True}
    # visit-order stream: all relabellings of two 5-node graphs on which the as-found search (shared, never un-marked
    # visited set) misses an inducing path for some neighbour orders
    for w in (gr.G(range(5), D=[(2, 1), (4, 1), (3, 2)], B=[(0, 4), (1, 3), (2, 4), (3, 4)]),
              gr.G(range(5), D=[(2, 0), (1, 3), (2, 3), (4, 2)], B=[(0, 1), (1, 2), (1, 4), (3, 4)])):
        for perm in itertools.permutations(range(5)):
            h = gr.relabel(w, lambda v: perm[v])
            h["V"] = sorted(h["V"])
            yield {"kind": "perm5", "g": h, "oracle": True}
    if not quick:
        ps = gr.pairs(4)
        for i in range(len(ps)):
            for odd in ODD:
                for ks in itertools.product(gr.ADMG_KINDS, repeat=len(ps) - 1):
                    ks = list(ks)
                    ks.insert(i, odd)
                    yield {"kind": "odd4", "g": build(4, ks), "oracle": True}
    for i in range(600 if quick else 8000):
        n = rng.randint(5, 7)
        if i % 2:
            g = gr.random_kinds_graph(rng, n, ["none", "->", "<-", "<->"], p_edge=rng.choice([0.2, 0.35, 0.5]))
        else:
            g = gr.random_kinds_graph(rng, n, gr.ADMG_KINDS, p_edge=rng.choice([0.2, 0.35]))
        yield {"kind": "rand", "g": g, "oracle": n <= 6}


def encode(case):
    return [0 if case["oracle"] else 1, gr.enc(case["g"])]


def decode(case, v):
    return {"valid_mag": v[0], "is_maximal": v[1], "has_adc": v[2], "spec_valid": v[3], "spec_maximal": v[4]}


def run_impl(case):
    import pywhy_graphs
    from pywhy_graphs.algorithms import generic
    if case.get("g0") is not None:
        import c06
        A, lab, inv = gr.to_admg(case["g0"], case)
        for name in ("valid_mag", "is_maximal", "has_adc"):      # warm-up on G0, results discarded
            try:
                getattr(generic, name)(A)
            except Exception:  # noqa
                pass
        c06.apply_edits(A, lab, case["g0"], case["g"])           # same object from here on
    else:
        A, lab, inv = gr.to_admg(case["g"], case)
    out = {}
    Lset, Sset = set(), set()
    before = gr.snapshot(A)
    for name in ("valid_mag", "is_maximal", "has_adc"):
        try:
            if case.get("_explicit") and name != "has_adc":
                out[name] = int(bool(getattr(generic, name)(A, Lset, Sset)))
                continue
            out[name] = int(bool(getattr(generic, name)(A)))
        except Exception as e:  # noqa
            out[name] = "exc:" + type(e).__name__
    if gr.snapshot(A) != before or Lset or Sset:
        out["mutated"] = True
    return out


def plain(case):
    g = case["g"]
    return not g["U"] and gr.is_acyclic(g["V"], g["D"])


def compare(case, impl, model):
    if "exc" in impl:
        return "exception"
    if impl.get("mutated"):
        return "argument-mutated"
    if model["spec_valid"] != 2 and model["spec_valid"] != model["valid_mag"]:
        return "model-vs-oracle-valid"
    if model["spec_maximal"] != 2 and plain(case) and model["spec_maximal"] != model["is_maximal"]:
        return "model-vs-oracle-maximal"
    if impl["valid_mag"] != model["valid_mag"]:
        return "valid_mag"
    if plain(case) and impl["is_maximal"] != model["is_maximal"]:
        return "is_maximal"
    if impl["has_adc"] != model["has_adc"]:
        return "has_adc"
    return None


def classify(case, impl, model):
    r = compare(case, impl, model)
    return None if r is None else "unrecognised:" + r


def nontrivial(case, model):
    g = case["g"]
    adj = {frozenset(e) for k in "DBU" for e in g[k]}
    n = len(g["V"])
    return plain(case) and len(adj) < n * (n - 1) // 2


def key(case):
    return (gr.canon(case["g"]), gr.canon(case["g0"]) if case.get("g0") else None, case.get("_order"), bool(case.get("_explicit")),
            case.get("_lab", "int"))


def shrink(case):
    if case.get("g0") is not None:
        for v in case["g"]["V"]:
            f = lambda h: {"V": [w for w in h["V"] if w != v], **{k: [e for e in h[k] if v not in e] for k in "DBUC"}}  # noqa
            yield dict(case, g0=f(case["g0"]), g=f(case["g"]))
        for which in ("g0", "g"):
            for k in "DB":
                for i in range(len(case[which][k])):
                    h = dict(case[which])
                    h[k] = h[k][:i] + h[k][i + 1:]
                    yield dict(case, **{which: h})
        return
    for h in gr.shrink_graph(case["g"]):
        yield dict(case, g=h)


LEVEL_TEXT = ("Coq proof + correspondence. ALL SIZES since round 4: maximal_is_separable / maximal_is_separable_all (is_maximal_model iff every non-adjacent pair is m-separated by some set of other nodes, for every graph with directed and bidirected edges and acyclic directed layer, bows and non-ancestral graphs included) and valid_mag_full (valid_mag_model iff the four clauses of the property text, path-level msep). Further unbounded theorems (all well-formed graphs): valid_mag_local (valid_mag_model = no undirected "
              "edge /\\ no bow /\\ no directed cycle /\\ no bidirected edge between a node and a proper ancestor /\\ is_maximal_model), "
              "undirected_rejected, has_adc_gap (on acyclic bow-free graphs has_adc = False iff ancestral; has_adc_bow_missed: without the "
              "one-edge-per-pair scan the bow a->b, a<->b is missed). Bounded theorems, kernel computation over ALL ADMGs (bows allowed) "
              "on <= 4 nodes in 16 shards, lifted to the path-based Prop msep with msep_dec_spec: maximal_is_separable_bounded_4 "
              "(is_maximal_model iff every non-adjacent pair is m-separated by some set of other nodes) and valid_mag_bounded_4 "
              "(valid_mag_model iff the four conditions of the property text). The same equivalences for random ADMGs with 5-6 nodes are "
              "checked only by the extracted oracle in the tie (testing). The three booleans of the implementation are tied to the model "
              "by correspondence on the cases of `rule`.")
LEVEL_NOTE = ("is_maximal_model uses C06's repaired inducing-path search (exact by C06.inducing_exact); on the unpatched /repo the shared "
              "never-un-marked visited set makes is_maximal/valid_mag depend on neighbour order from 5 nodes on (perm5 stream: 60 of 240 "
              "relabellings answer True for a non-maximal graph) - fix proposal fixes/C06-shared-visited.patch. The full statements "
              "(Spec.maximal_is_separable_stmt, Spec.valid_mag_full_stmt) are proved for all sizes in C07/Unbounded.v (from C06/Unbounded.v); "
              "the n<=4 kernel computations are kept as independent checks. is_maximal is compared only on graphs "
              "without undirected edges and with acyclic directed layer (elsewhere the code raises or the notion is undefined).")
TECHNIQUE = "Coq proof (local part unbounded; maximality = separability by vm_compute for n<=4, 16 shards) + extracted-model correspondence"
