"""C07 — valid_mag / is_maximal / has_adc decide the MAG definition (one edge per pair, acyclic, ancestral, maximal)."""
import itertools
import graphs as gr

PROP = "C07"
RULE = ("every graph on n<=3 nodes over the 9 per-pair kinds {none,->,<-,<->,->&<->,<-&<->,->&<- (2-cycle),--,<->&--} "
        "(cyclic ones included) and every ADMG(4) incl. bows (quick); additionally every 4-node graph over the kinds with an "
        "undirected edge or a 2-cycle on at most one pair (thorough); the 240 relabellings of two 5-node witnesses of the visit-order dependence of the search; seeded random ADMGs 5<=n<=7, half of them ancestral and "
        "bow-free so that valid MAGs are frequent. distinct by canonical graph; non-trivial = acyclic, no undirected edge and "
        "at least one non-adjacent pair (maximality is not vacuous)")
EXHAUSTIVE = {"quick": "all graphs over 9 pair kinds n<=3; all acyclic ADMG(4)", "thorough": "same + 4-node graphs with one undirected/2-cycle pair"}
TRUSTED = ["networkx find_cycle / ancestors / descendants / all_neighbors taken at face value"]
ASSUMPTIONS = ["default edge-type names, L = S = None (defaults)", "int labels here; label families are exercised by C06 (same search) and C15",
               "is_maximal is compared only where the graph has no undirected edge and the directed layer is acyclic"]
SPOT_N = 15

KINDS = {
    "none": {}, "->": {"D": [(0, 1)]}, "<-": {"D": [(1, 0)]}, "<->": {"B": [(0, 1)]},
    "->&<->": {"D": [(0, 1)], "B": [(0, 1)]}, "<-&<->": {"D": [(1, 0)], "B": [(0, 1)]},
    "->&<-": {"D": [(0, 1), (1, 0)]}, "--": {"U": [(0, 1)]}, "<->&--": {"B": [(0, 1)], "U": [(0, 1)]},
}
ODD = ["->&<-", "--", "<->&--"]


def build(n, ks):
    g = {"V": list(range(n)), "D": [], "B": [], "U": [], "C": []}
    for (a, b), k in zip(gr.pairs(n), ks):
        for layer, es in KINDS[k].items():
            for (i, j) in es:
                g[layer].append([(a, b)[i], (a, b)[j]])
    return g


def gen_cases(tier, rng):
    quick = tier == "quick"
    for n in (1, 2, 3):
        for ks in itertools.product(list(KINDS), repeat=len(gr.pairs(n))):
            yield {"kind": "all%d" % n, "g": build(n, ks), "oracle": True}
    for g in gr.enum_admg(4):
        yield {"kind": "admg4", "g": g, "oracle": True}
    # visit-order stream: all relabellings of two 5-node graphs on which the as-found search (shared, never un-marked
    # visited set) misses an inducing path for some neighbour orders
    for w in (gr.G(range(5), D=[(2, 1), (4, 1), (3, 2)], B=[(0, 4), (1, 3), (2, 4), (3, 4)]),
              gr.G(range(5), D=[(2, 0), (1, 3), (2, 3), (4, 2)], B=[(0, 1), (1, 2), (1, 4), (3, 4)])):
        for perm in itertools.permutations(range(5)):
            h = gr.relabel(w, lambda v: perm[v])
            h["V"] = sorted(h["V"])
            yield {"kind": "perm5", "g": h, "oracle": True}
    if not quick:
        ps = gr.pairs(4)
        for i in range(len(ps)):
            for odd in ODD:
                for ks in itertools.product(gr.ADMG_KINDS, repeat=len(ps) - 1):
                    ks = list(ks)
                    ks.insert(i, odd)
                    yield {"kind": "odd4", "g": build(4, ks), "oracle": True}
    for i in range(600 if quick else 8000):
        n = rng.randint(5, 7)
        if i % 2:
            g = gr.random_kinds_graph(rng, n, ["none", "->", "<-", "<->"], p_edge=rng.choice([0.2, 0.35, 0.5]))
        else:
            g = gr.random_kinds_graph(rng, n, gr.ADMG_KINDS, p_edge=rng.choice([0.2, 0.35]))
        yield {"kind": "rand", "g": g, "oracle": n <= 6}


def encode(case):
    return [0 if case["oracle"] else 1, gr.enc(case["g"])]


def decode(case, v):
    return {"valid_mag": v[0], "is_maximal": v[1], "has_adc": v[2], "spec_valid": v[3], "spec_maximal": v[4]}


def run_impl(case):
    import pywhy_graphs
    from pywhy_graphs.algorithms import generic
    A, lab, inv = gr.to_admg(case["g"], case)
    out = {}
    for name in ("valid_mag", "is_maximal", "has_adc"):
        try:
            out[name] = int(bool(getattr(generic, name)(A)))
        except Exception as e:  # noqa
            out[name] = "exc:" + type(e).__name__
    return out


def plain(case):
    g = case["g"]
    return not g["U"] and gr.is_acyclic(g["V"], g["D"])


def compare(case, impl, model):
    if "exc" in impl:
        return "exception"
    if model["spec_valid"] != 2 and model["spec_valid"] != model["valid_mag"]:
        return "model-vs-oracle-valid"
    if model["spec_maximal"] != 2 and plain(case) and model["spec_maximal"] != model["is_maximal"]:
        return "model-vs-oracle-maximal"
    if impl["valid_mag"] != model["valid_mag"]:
        return "valid_mag"
    if plain(case) and impl["is_maximal"] != model["is_maximal"]:
        return "is_maximal"
    if impl["has_adc"] != model["has_adc"]:
        return "has_adc"
    return None


def classify(case, impl, model):
    r = compare(case, impl, model)
    return None if r is None else "unrecognised:" + r


def nontrivial(case, model):
    g = case["g"]
    adj = {frozenset(e) for k in "DBU" for e in g[k]}
    n = len(g["V"])
    return plain(case) and len(adj) < n * (n - 1) // 2


def key(case):
    return gr.canon(case["g"])


def shrink(case):
    for h in gr.shrink_graph(case["g"]):
        yield dict(case, g=h)


LEVEL_TEXT = ("Coq proof + correspondence. Unbounded theorems (all well-formed graphs): valid_mag_local (valid_mag_model = no undirected "
              "edge /\\ no bow /\\ no directed cycle /\\ no bidirected edge between a node and a proper ancestor /\\ is_maximal_model), "
              "undirected_rejected, has_adc_gap (on acyclic bow-free graphs has_adc = False iff ancestral; has_adc_bow_missed: without the "
              "one-edge-per-pair scan the bow a->b, a<->b is missed). Bounded theorems, kernel computation over ALL ADMGs (bows allowed) "
              "on <= 4 nodes in 16 shards, lifted to the path-based Prop msep with msep_dec_spec: maximal_is_separable_bounded_4 "
              "(is_maximal_model iff every non-adjacent pair is m-separated by some set of other nodes) and valid_mag_bounded_4 "
              "(valid_mag_model iff the four conditions of the property text). The same equivalences for random ADMGs with 5-6 nodes are "
              "checked only by the extracted oracle in the tie (testing). The three booleans of the implementation are tied to the model "
              "by correspondence on the cases of `rule`.")
LEVEL_NOTE = ("is_maximal_model uses C06's repaired inducing-path search (exact by C06.inducing_exact); on the unpatched /repo the shared "
              "never-un-marked visited set makes is_maximal/valid_mag depend on neighbour order from 5 nodes on (perm5 stream: 60 of 240 "
              "relabellings answer True for a non-maximal graph) - fix proposal fixes/C06-shared-visited.patch. The full statement "
              "(Spec.maximal_is_separable_stmt, Richardson-Spirtes) is proved only to n = 4. is_maximal is compared only on graphs "
              "without undirected edges and with acyclic directed layer (elsewhere the code raises or the notion is undefined).")
TECHNIQUE = "Coq proof (local part unbounded; maximality = separability by vm_compute for n<=4, 16 shards) + extracted-model correspondence"
