"""C08 — Meek rule closure (_apply_meek_rules on a CPDAG): only orients, sound on extendable PDAGs, complete on patterns."""
import graphs as gr

PROP = "C08"
RULE = ("pattern of every DAG(n) n<=4 under 3 node/edge insertion orders (quick) / plus every DAG(5) (thorough); every acyclic "
        "PDAG(n) n<=4 (extendable or not); random DAG patterns with 0-3 background orientations n<=8 (quick) / n<=10 (thorough). "
        "REPEAT / stale-state stream: for every PDAG n<=3, a quarter of PDAG(4), the patterns and a quarter of the random cases "
        "the closure first runs on a neighbour graph (extra / moved / reversed / removed edge) in the same CPDAG object, the object "
        "is edited in place into the target and the judged closure runs on it or on its copy(). "
        "DENSE stream: patterns of 450 random DAGs with 6-8 nodes and density 0.7-0.9 under two labelings (scattered ints). "
        "MARKED-TRIPLES stream (the claim is the closure with excluded_triples EMPTY on the object under test): every 3-subset "
        "marked on a live copy() of the object, or the object itself carrying only triples with <= 1 skeleton edge (usable by no "
        "rule instance); expected = the same closure. A few cases with identity-hashed label objects. "
        "distinct by (canonical PDAG, repeat mode, warm-up graph, marks, labelling); non-trivial = the closure orients at least one edge")
EXHAUSTIVE = {"quick": "patterns of all DAG(n) n<=4; all acyclic PDAG(n) n<=4",
              "thorough": "patterns of all DAG(n) n<=5; all acyclic PDAG(n) n<=4"}
TRUSTED = ["networkx ancestors/descendants, MixedEdgeGraph.neighbors/has_edge taken at face value",
           "harness/c08.py pattern_of (re-checked per case by the extracted Coq pattern_of)"]
ASSUMPTIONS = ["excluded_triples empty (the claim)", "at most one edge per node pair in the input PDAG",
               "int labels (label families / orders beyond the 3 used here: C15)"]
IMPL_TIMEOUT = 10
SPOT_N = 15

LEVEL_TEXT = ("Coq proofs about the executable model meek_model (textbook rules R1-R4 with parents/children, sweep over ordered "
              "pairs, repeat while changed): UNBOUNDED — meek_only_orients (nodes, skeleton kept, directed edges kept, every new "
              "directed edge was an undirected edge), meek_terminates (fuel |U|+1 reaches a graph on which no rule fires, any "
              "sweep order list), meek_sound (every orientation holds in every consistent DAG extension; simple PDAG). "
              "COMPLETENESS FOR ALL SIZES (Meek 1995 Thm 3) — meek_complete_on_patterns_all_sizes: for EVERY well-formed acyclic DAG d the "
              "closure of its pattern equals the essential graph of the brute-force oracle; closure_directed_iff_essential_all_sizes "
              "(directed edges of the closure = edges in every Markov equivalent DAG), closure_directed_iff_Der, "
              "closure_chain_property (a -> b, b - c => a -> c). Route: closure = C04's derivation system Der (both inclusions, "
              "C08/MeekDer.v, MeekChain.v), Der edges essential (C04/Chickering.v), every non-Der edge reversed in an equivalent DAG "
              "(C04/ReversibleDer.v, built on the PEO theory of C08/Chordal.v), reflection of the oracle's class enumeration "
              "(C08/MeekComplete.v). Also kept: BOUNDED — meek_complete_on_patterns_bounded_5: for every DAG on <=5 nodes (1+1+3+25+543+29281) the closure of its "
              "pattern equals the essential graph computed by brute-force enumeration of the Markov equivalence class "
              "(vm_compute; n=5 table-driven per skeleton with a proved-sound table, C08/Fast.v, 4 shards of ~1 min); "
              "meek_complete_on_patterns_bounded_5_every_dag lifts it to EVERY well-formed DAG on 0..n-1 with its own edge "
              "lists in any order (coverage of the enumeration + graph extensionality of pattern_of, meek_model and "
              "essential_graph, C08/Cover.v, Ext.v, ExtEss.v). "
              "ALL SIZES (chordal graphs via perfect elimination orderings, C08/Chordal.v, ChordalOrient.v, ChordalComplete.v, Topo.v) — "
              "dirac_two_simplicial; peo_with_any_vertex_last; chordal_has_vfree_extension and its converse "
              "vfree_extension_implies_chordal; chordal_every_edge_orientable (every edge u - v of a chordal undirected graph is "
              "u -> v in some v-structure-free consistent extension); reverse_topological_order_exists; "
              "meek_complete_on_vfree_dags_all_sizes_unconditional: for EVERY well-formed acyclic DAG without v-structures (any "
              "size) the closure of its pattern equals the brute-force essential graph (no edge is compelled). "
              "extension_oracle_sound: has_extension p = true gives a Spec.consistent_ext (reflection of the boolean oracle); "
              "fully_oriented_is_its_extension. REFUTED for the rules as coded before the repair — meek_sound_code_refuted / _spec (rule 1 with ancestors orients an "
              "edge against a consistent extension in the sense of Spec.consistent_ext). "
              "BY CORRESPONDENCE — _apply_meek_rules of the repository equals the model on the generated inputs; "
              "completeness with background knowledge (model = maximally oriented graph) only observed by the extracted oracle.")
LEVEL_NOTE = ("the tie is differential (extracted model vs. implementation on generated inputs); iteration order of graph.nodes / "
              "neighbors is modelled as V-order x V-order, the theorems hold for every order; "
              "measured kernel cost of n=5: naive check about 0.4 s per DAG (3 CPU-hours), table-driven with one v-structure "
              "signature per DAG 4.3 CPU-min in total; is_ext / has_extension are reflected to Spec.consistent_ext (soundness direction, C08/Reflect.v); essential_graph "
              "stays a boolean oracle; unbounded completeness (Meek 1995 Thm 3) is proved for every DAG; NOT proved: completeness with background knowledge "
              "(Meek Thm 4: the closure of a pattern plus extra orientations is the maximally oriented graph) — observed only by "
              "the extracted oracle on the generated extendable PDAGs")
TECHNIQUE = "Coq proof (invariants, unbounded; completeness on patterns for all sizes; bounded n<=5 kernel check kept) + extracted-model correspondence"


def pattern_of(g):
    """skeleton of the DAG with exactly the v-structure edges directed"""
    D = {tuple(e) for e in g["D"]}
    adj = lambda a, b: (a, b) in D or (b, a) in D  # noqa: E731
    inv = set()
    for (a, c) in D:
        for (b, c2) in D:
            if c2 == c and a != b and not adj(a, b):
                inv.add((a, c))
    return gr.G(g["V"], D=sorted(inv), U=sorted(e for e in D if e not in inv))


def base_cases(tier, rng):
    nmax = 4 if tier == "quick" else 5
    for n in range(1, nmax + 1):
        for d in gr.enum_dag(n):
            p = pattern_of(d)
            orders = [None, 1, 2] if n <= 4 else [None]
            for o in orders:
                c = {"kind": "pat%d" % n, "g": p, "dag": d, "mode": 2}
                if o is not None:
                    c["_order"] = o
                yield c
    for n in range(2, 5):
        for g in gr.enum_pdag(n):
            if g["U"]:
                yield {"kind": "pdag%d" % n, "g": g, "mode": 0}
    nr = 400 if tier == "quick" else 4000
    for i in range(nr):
        n = rng.randint(4, 8 if tier == "quick" else 10)
        d = gr.random_kinds_graph(rng, n, gr.DAG_KINDS, p_edge=rng.choice([0.3, 0.45, 0.6]))
        p = pattern_of(d)
        us = list(p["U"])
        rng.shuffle(us)
        k = min(len(us), rng.randint(0, 3))
        bg = us[:k]
        p = gr.G(p["V"], D=sorted(p["D"] + bg), U=sorted(e for e in p["U"] if e not in bg))
        vs = list(p["V"])
        rng.shuffle(vs)
        p["V"] = vs
        yield {"kind": "rand", "g": p, "mode": 0 if len(p["U"]) <= 11 else 1}


def warm_graph(g, r):
    """a PDAG on the same nodes with a different skeleton / orientation: 1-2 extra edges, or one edge moved / reversed /
    removed (the object is closed once on it before it is edited in place into g)"""
    import copy as _c
    h = _c.deepcopy(g)
    adj = {tuple(sorted(e)) for k in "DU" for e in g[k]}
    free = [(a, b) for a in g["V"] for b in g["V"] if a < b and (a, b) not in adj]
    choice = r.random()
    if free and choice < 0.55:
        r.shuffle(free)
        for a, b in free[:r.randint(1, 2)]:
            if r.random() < 0.5:
                h["U"].append([a, b])
            elif gr.is_acyclic(h["V"], h["D"] + [[a, b]]):
                h["D"].append([a, b])
            else:
                h["D"].append([b, a])
        return h
    for _ in range(10):
        p = gr.perturb(g, r, keep_counts=choice < 0.85)
        if p is not None:
            prs = [tuple(sorted(e)) for k in "DU" for e in p[k]]
            if len(prs) == len(set(prs)):
                return p
    return h


def gen_cases(tier, rng):
    """base streams, then the REPEAT / stale-state stream: the closure is run once on a neighbour graph g0 built in the same
    object, the object is edited in place into g (all edges removed, g's edges added), and the judged closure runs on that
    object ("same") or on its copy() ("copy")"""
    import random as _random
    base = list(base_cases(tier, rng))
    yield from base
    for i, c in enumerate(base):
        g = c["g"]
        n = len(g["V"])
        if c["kind"].startswith("pdag"):
            take = n <= 3 or i % 4 == 0
        elif c["kind"].startswith("pat"):
            take = "_order" not in c and n >= 3 and (n <= 4 or i % 10 == 0)
        else:
            take = i % 4 == 0
        if not take or not (g["U"] or g["D"]):
            continue
        seed = rng.randrange(1 << 30)
        g0 = warm_graph(g, _random.Random(seed))
        yield dict(c, kind="rep-" + c["kind"], rep=["same", "copy"][seed % 2], g0=g0)
    # DENSE stream: patterns (plus 0-2 background orientations) of dense random DAGs on 6-8 nodes, each under two labelings
    # (scattered ints on the implementation side: the visit order of neighbours comes from Python sets of the labels)
    dense = []
    for i in range(450 if tier == "quick" else 3000):
        n = rng.randint(6, 8)
        d = gr.random_kinds_graph(rng, n, gr.DAG_KINDS, p_edge=rng.choice([0.7, 0.8, 0.85, 0.9]))
        p = pattern_of(d)
        us = list(p["U"])
        rng.shuffle(us)
        bg = us[:min(len(us), rng.choice([0, 0, 1, 2]))]
        p = gr.G(p["V"], D=sorted(p["D"] + bg), U=sorted(e for e in p["U"] if e not in bg))
        for rep in range(2):
            vs = list(p["V"])
            rng.shuffle(vs)
            c = {"kind": "dense", "g": dict(p, V=vs), "mode": 0 if len(p["U"]) <= 10 else 1,
                 "labmap": rng.sample(range(1000), n)}
            dense.append(c)
            yield c
    # MARKED-TRIPLES stream (excluded_triples is EMPTY on the object under test, or holds only triples that no rule
    # instance can use): "copy" = every 3-subset of the nodes is marked on a live copy() of the object; "self" = the object
    # itself carries the triples with at most one skeleton edge among the three nodes (R1-R4 instances span >= 2 edges)
    for i, c in enumerate(base + dense):
        n = len(c["g"]["V"])
        if "rep" in c or n < 3 or not c["g"]["U"]:
            continue
        if c["kind"].startswith("pat") and ("_order" in c or i % 3):
            continue
        if c["kind"].startswith("pdag") and i % 8:
            continue
        if c["kind"] in ("rand", "dense") and i % 4:
            continue
        yield dict(c, kind="marks-" + c["kind"], marks=["copy", "self"][(i // 4) % 2])
    # identity-hashed label objects (copy() / deepcopy of labels must keep node identity)
    for i, c in enumerate(base):
        if c["kind"] == "rand" and i % 8 == 0 and "labmap" not in c:
            yield dict(c, kind="obj-rand", _lab="obj")
    # SCHEDULING stream: a gadget in which rule 2 / rule 3 produces an arrow only AFTER rule 1 has reached its fixpoint, followed by
    # a rule-1 propagation path of 3-6 edges that is shielded by a hub, so that only the late arrow starts it; few graphs, MANY
    # node insertion orders each (random ones and explicit zig-zag orders of the path), plus every single background edge
    def sched_dags():
        out = []
        for k in (3, 4, 5, 6):                         # rule 2 late: collider a->c<-b, hub c over the path, chord a->p0
            a, b, c = 0, 1, 2
            p = list(range(3, 4 + k))
            D = [[a, c], [b, c], [a, p[0]]] + [[c, x] for x in p] + [[p[i], p[i + 1]] for i in range(k)]
            out.append(("sched-r2-%d" % k, 4 + k, D, p))
        a, b, c = 0, 1, 2                               # a second path hanging off the first one
        p, q = [3, 4, 5, 6], [7, 8, 9]
        D = [[a, c], [b, c], [a, p[0]]] + [[c, x] for x in p + q] + [[p[i], p[i + 1]] for i in range(3)] \
            + [[p[1], q[0]], [q[0], q[1]], [q[1], q[2]]]
        out.append(("sched-r2-fork", 10, D, p + q))
        for k in (3, 4):                                # rule 3 late: two non-adjacent hubs h1, h2 over the path, x - h1, x - h2, x - p0
            x, h1, h2 = 0, 1, 2
            p = list(range(3, 4 + k))
            D = [[x, h1], [x, h2], [x, p[0]]] + [[h, y] for h in (h1, h2) for y in p] + [[p[i], p[i + 1]] for i in range(k)]
            out.append(("sched-r3-%d" % k, 4 + k, D, p))
        return out

    def zigzags(n, path):
        rest = [v for v in range(n) if v not in path]
        z1 = path[1::2] + rest + path[0::2]
        z2 = path[0::2][::-1] + rest + path[1::2]
        z3 = [path[1]] + rest + [path[0]] + path[2:]
        ends, lo, hi = [], 0, len(path) - 1
        while lo <= hi:
            ends.append(path[lo])
            if lo != hi:
                ends.append(path[hi])
            lo, hi = lo + 1, hi - 1
        return [z1, z2, z3, ends + rest, rest + ends[::-1], list(range(n)), list(range(n))[::-1]]

    for name, n, D, path in sched_dags():
        d = gr.G(range(n), D=D)
        pat = pattern_of(d)
        variants = [(name, pat, 150 if tier == "quick" else 600)]
        for e in pat["U"]:
            bgp = gr.G(pat["V"], D=sorted(pat["D"] + [e]), U=[x for x in pat["U"] if x != e])
            variants.append((name + "+bg", bgp, 12 if tier == "quick" else 60))
        for vname, pg, norders in variants:
            orders = zigzags(n, path) if vname == name else zigzags(n, path)[:3]
            for r in range(norders):
                o = list(range(n))
                rng.shuffle(o)
                orders.append(o)
            for j, o in enumerate(orders):
                c = {"kind": vname, "g": dict(pg, V=list(o)), "mode": 1}
                if j % 3 == 2:
                    c["labmap"] = rng.sample(range(1000), n)
                yield c
    # DENSE graphs WITH background orientations (7-10 nodes, density 0.7-0.9, 1-3 background edges taken from the DAG)
    for i in range(900 if tier == "quick" else 4000):
        n = rng.randint(7, 10)
        d = gr.random_kinds_graph(rng, n, gr.DAG_KINDS, p_edge=rng.choice([0.7, 0.8, 0.9]))
        p = pattern_of(d)
        us = list(p["U"])
        rng.shuffle(us)
        bg = us[:min(len(us), rng.randint(1, 3))]
        p = gr.G(p["V"], D=sorted(p["D"] + bg), U=sorted(e for e in p["U"] if e not in bg))
        vs = list(p["V"])
        rng.shuffle(vs)
        yield {"kind": "dense-bg", "g": dict(p, V=vs), "mode": 0 if len(p["U"]) <= 9 else 1, "labmap": rng.sample(range(1000), n)}
    # UNIT level (flavour J): _meek_rule1.._meek_rule4 called directly, every PDAG(n) n<=4 (cyclic directed layers included) x
    # every ordered pair, and random 5-7 node PDAGs on their undirected edges; expected = rule k of the proved model
    for n in range(2, 5):
        for g in gr.enum_pdag(n, acyclic=False):
            if g["U"]:
                yield {"kind": "unit%d" % n, "g": g, "mode": 3, "pairs": [[a, b] for a in g["V"] for b in g["V"] if a != b]}
    for i in range(300 if tier == "quick" else 3000):
        n = rng.randint(5, 7)
        g = gr.random_kinds_graph(rng, n, gr.PDAG_KINDS, p_edge=rng.choice([0.5, 0.7, 0.9]))
        vs = list(g["V"])
        rng.shuffle(vs)
        g = dict(g, V=vs)
        prs = [[a, b] for a, b in g["U"]] + [[b, a] for a, b in g["U"]]
        if prs:
            yield {"kind": "unit-rand", "g": g, "mode": 3, "pairs": prs}


def encode(case):
    g = dict(case["g"], V=gr.ordered(case, case["g"]["V"], "V"))
    if case["mode"] == 2:
        return [2, gr.enc(g), gr.enc(case["dag"])]
    if case["mode"] == 3:
        return [3, gr.enc(g), case["pairs"]]
    return [case["mode"], gr.enc(g)]


def _pairs(v):
    return sorted([a, b] for a, b in v)


def decode(case, v):
    if case["mode"] == 3:
        return {"unit": [[bool(x) for x in row] for row in v], "D": [], "U": [], "has_ext": False}
    out = {"D": _pairs(v[0]), "U": _pairs(v[1])}
    if case["mode"] == 0:
        out["has_ext"] = bool(v[2])
        out["maxD"], out["maxU"] = _pairs(v[3]), _pairs(v[4])
    elif case["mode"] == 2:
        out["has_ext"] = True
        out["essD"], out["essU"], out["pat_ok"] = _pairs(v[2]), _pairs(v[3]), bool(v[4])
    else:
        out["has_ext"] = True   # by construction (pattern of a DAG + orientations taken from that DAG)
    return out


def run_unit(case):
    from pywhy_graphs.algorithms import pag as pagmod
    rules = [pagmod._meek_rule1, pagmod._meek_rule2, pagmod._meek_rule3, pagmod._meek_rule4]
    g = case["g"]
    P0, lab, inv = gr.to_cpdag(g, case)
    base = gr.from_mixed(P0, inv)
    und = {tuple(sorted(e)) for e in g["U"]}
    out, graph_ok = [], True
    for i, j in case["pairs"]:
        row = []
        for rule in rules:
            Q = P0.copy() if tuple(sorted((i, j))) in und else P0
            fired = bool(rule(Q, lab(i), lab(j)))
            row.append(fired)
            h = gr.from_mixed(Q, inv)
            if fired:
                graph_ok = graph_ok and h["D"] == sorted(base["D"] + [[i, j]]) and h["V"] == base["V"] \
                    and h["U"] == [e for e in base["U"] if e != sorted((i, j))]
            else:
                graph_ok = graph_ok and h == base
        out.append(row)
    return {"unit": out, "graph_ok": graph_ok}


def run_impl(case):
    import itertools
    if case["mode"] == 3:
        return run_unit(case)
    from pywhy_graphs.algorithms.pag import _apply_meek_rules
    lm = case.get("labmap")
    rl = (lambda g: gr.relabel(g, lambda v: lm[v])) if lm else (lambda g: g)
    back = {x: v for v, x in enumerate(lm)} if lm else None
    keep = []
    if "rep" in case:
        P, lab, inv0 = gr.to_cpdag(rl(case["g0"]), case)
        _apply_meek_rules(P)                       # warm-up on the neighbour graph, result discarded
        for name, layer in P.get_graphs().items():
            for u, v in list(layer.edges):
                P.remove_edge(u, v, name)
        g = rl(case["g"])
        for k, name in (("D", "directed"), ("U", "undirected")):
            for a, b in g[k]:
                P.add_edge(lab(a), lab(b), name)
        if case["rep"] == "copy":
            P = P.copy()
    else:
        g = rl(case["g"])
        P, lab, inv0 = gr.to_cpdag(g, case)
    if case.get("marks") == "copy":
        Q = P.copy()
        for t in itertools.combinations(list(Q.nodes), 3):
            Q.mark_unfaithful_triple(*t)
        keep.append(Q)
    elif case.get("marks") == "self":
        adj = {frozenset((lab(a), lab(b))) for k in "DU" for a, b in g[k]}
        for t in itertools.combinations(list(P.nodes), 3):
            if sum(frozenset(e) in adj for e in itertools.combinations(t, 2)) <= 1:
                P.mark_unfaithful_triple(*t)
    _apply_meek_rules(P)
    inv = (lambda x: back[inv0(x)]) if lm else inv0
    h = gr.from_mixed(P, inv)
    return {"V": h["V"], "D": h["D"], "U": h["U"], "alive": len(keep)}


def compare(case, impl, model):
    if "exc" in impl:
        return "exception:" + impl["exc"]
    if case["mode"] == 3:
        for ri, rm in zip(impl["unit"], model["unit"]):
            for k in range(4):
                if ri[k] != rm[k]:
                    return "unit:_meek_rule%d:%s" % (k + 1, "fires-where-the-proved-rule-does-not" if ri[k] else "misses")
        return None if impl["graph_ok"] else "unit:result-graph"
    g = case["g"]
    D0 = {tuple(e) for e in g["D"]}
    U0 = {tuple(sorted(e)) for e in g["U"]}
    Di = {tuple(e) for e in impl["D"]}
    Ui = {tuple(e) for e in impl["U"]}
    if impl["V"] != sorted(g["V"]):
        return "only-orients:nodes"
    if not D0 <= Di or not Ui <= U0:
        return "only-orients:edge-lost-or-invented"
    new = Di - D0
    if any(tuple(sorted(e)) not in U0 for e in new) or {tuple(sorted(e)) for e in new} | Ui != U0 \
            or any(tuple(sorted(e)) in Ui for e in new) or any((b, a) in Di for a, b in Di):
        return "only-orients:skeleton"
    if case["mode"] == 2:
        if not model["pat_ok"]:
            return "harness-pattern-vs-coq-pattern"
        if (model["D"], model["U"]) != (model["essD"], model["essU"]):
            return "model-vs-oracle:essential-graph"
    if case["mode"] == 0 and model["has_ext"] and (model["D"], model["U"]) != (model["maxD"], model["maxU"]):
        return "model-vs-oracle:max-oriented"
    if model["has_ext"] and (impl["D"], impl["U"]) != (model["D"], model["U"]):
        if case["mode"] == 0 and not Di - D0 <= {tuple(e) for e in model["maxD"]}:
            return "closure:unsound-orientation"
        if case["mode"] == 2 and not Di <= {tuple(e) for e in model["essD"]}:
            return "closure:unsound-orientation"
        return "closure"
    return None


def nontrivial(case, model):
    if case["mode"] == 3:
        return any(any(r) for r in model["unit"])
    return len(model["D"]) > len(case["g"]["D"])


def key(case):
    return (gr.canon(case["g"]), case["mode"] == 3, case.get("rep"), gr.canon(case["g0"]) if "g0" in case else None, case.get("marks"),
            tuple(case["labmap"]) if "labmap" in case else None, case.get("_lab"),
            tuple(case["g"]["V"]) if case["kind"].startswith("sched") else None)


def shrink(case):
    if case["mode"] == 3:
        for pr in case["pairs"]:
            if len(case["pairs"]) > 1:
                yield dict(case, pairs=[pr])
        for h in gr.shrink_graph(case["g"]):
            prs = [pr for pr in case["pairs"] if pr[0] in h["V"] and pr[1] in h["V"]]
            if prs:
                yield dict(case, g=h, pairs=prs)
        return
    if "rep" in case:
        for h in gr.shrink_graph(case["g0"]):
            if sorted(h["V"]) == sorted(case["g"]["V"]):
                yield dict(case, g0=h)
        return
    if case["mode"] == 2:
        for h in gr.shrink_graph(case["dag"]):
            yield dict(case, dag=h, g=pattern_of(h))
    else:
        for h in gr.shrink_graph(case["g"]):
            yield dict(case, g=h, mode=0)
