"""C09 — pag_to_mag: structure kept (nodes, adjacencies, non-circle marks), circles resolved, and for the PAG of a MAG the
result is a valid MAG Markov equivalent to it; the argument is not modified."""
import os
import subprocess
from concurrent.futures import ThreadPoolExecutor

import graphs as gr
import sx as sxmod

PROP = "C09"
BIN = "/verif/bin/c09"
RULE = ("PAGofMAG(n): the PAG (computed by the extracted Coq spec pag_of_mag from the definition) of every valid MAG without "
        "undirected edges on n<=3 (quick) / n<=4 (thorough) nodes; structural clauses: every mark graph MARKS(n) n<=3 over the ten "
        "per-pair kinds (none,->,<-,<->,--,o-o,o->,<-o,-o,o-) and seeded random ones n<=7; all-circle PAGs on connected chordal "
        "skeletons with 5-7 nodes (paths, triangle strips, random chordal graphs; PAG of any collider-free DAG orientation), each "
        "under 10-100 node labelings (permuted, scattered ints) / insertion orders; REPEAT / stale-state stream over a share of "
        "every stream: warm-up call on a different PAG with the same node and edge counts in the same object, in-place edit "
        "into the target, judged call on the object / on its copy() / again after the caller edited the returned graph; "
        "the chordal stream includes the 4-node diamond, cliques and cliques minus an edge (4-5 nodes; 6 in thorough) and dense random chordal "
        "graphs (6 nodes; 6-7 in thorough); MARKED-TRIPLES stream (beyond the property's wording: the closure inside pag_to_mag is the one with "
        "excluded_triples EMPTY): every 3-subset of the nodes marked on the source PAG or on a live copy of it, same verdicts "
        "expected; a few cases with identity-hashed label objects; distinct by (canonical PAG, repeat mode, warm-up PAG, marks, labels); "
        "non-trivial = the PAG has at least one circle mark")
EXHAUSTIVE = {"quick": "PAGofMAG(n) n<=3; MARKS(n) n<=3", "thorough": "PAGofMAG(n) n<=4; MARKS(n) n<=3"}
TRUSTED = ["PAG.copy / remove_edge / orient_uncertain_edge, ADMG.add_edge taken at face value",
           "the oracle verdicts on the implementation's result are computed by the extracted Coq functions "
           "(valid_mag_spec, markov_equivb, structure_ok) called from harness/c09.py"]
ASSUMPTIONS = ["at most one of the ten edge kinds per node pair (simple marks)", "default edge-type names", "int labels (C15)"]
IMPL_TIMEOUT = 20
SPOT_N = 6
VERDICTS = ["structure", "acyclic", "no-almost-directed-cycle", "unshielded-colliders-marked", "valid-mag", "markov-equivalent",
            "hypothesis:pag-invariants(pag_hypsb)", "hypothesis:rounds-extendable(rounds_ok_small_b, components with <= 8 o-o edges)"]

LEVEL_TEXT = ("Coq proofs about the executable model pag_to_mag_model (three phases, Meek closure of C08, repaired assembly): "
              "UNBOUNDED, every mark graph — p2m_structure (nodes, adjacencies, no circle left, every arrowhead/tail kept, every "
              "circle became an arrowhead or a tail) and p2m_terminates (no undirected edge is left in the oriented circle "
              "component with fuel = number of o-o edges). BOUNDED — p2m_member_bounded_4: for every valid MAG m0 without "
              "undirected edges on <=4 nodes (1+1+4+56+2492 graphs), with the PAG computed from the definition (pag_of_mag: marks "
              "shared by all ancestral graphs with the same adjacencies and the same m-separations; mag_class_is_class), "
              "pag_to_mag_model (pag_of_mag m0) is acyclic, has no almost directed cycle, no unshielded collider unmarked in the "
              "PAG, is a valid MAG (maximality decided by separability) and Markov equivalent to m0 (all separation queries by "
              "the shared oracle msep_dec), by vm_compute (n=4 table-driven per skeleton, soundness of the table proved); "
              "p2m_member_bounded_4_all lifts it to EVERY graph m with V m = 0..n-1 and valid_mag_spec m = true, whatever the "
              "order / duplication of its edge lists (all_mags_covers_every_mag + graph extensionality of every oracle, C09/Ext.v). "
              "ALL SIZES — p2m_shape_all_sizes_chordal_unconditional: for every PAG g satisfying the invariants pag_hyps whose circle "
              "component is chordal (has a perfect elimination ordering), the result has no directed cycle, no bidirected edge "
              "between a node and its ancestor, and every unshielded collider of the result is a collider of g; it rests on "
              "meek4_holds_on_chordal (Meek 1995 Thm 4 on chordal skeletons, all sizes, C09/Meek4Chordal.v: a PDAG closed under "
              "R1-R4 with a v-structure-free extension keeps one after hand-orienting any undirected edge; induction on the node "
              "set, re-inserting a simplicial node right after its last-eliminated directed child). Earlier conditional forms kept: "
              "p2m_shape_all_sizes_conditional: for every PAG g satisfying the invariants pag_hyps (no self "
              "loop, an o-o pair carries no other edge, no -o edge, Zhang 2008 Lemma 3.3.1 for o-o edges, directed layer acyclic, no "
              "almost directed cycle) and the hypothesis rounds_extendable (at each round of the model's run the graph with the "
              "hand-oriented edge has a v-structure-free consistent DAG extension) the result has no directed cycle, no bidirected "
              "edge between a node and its ancestor, and every unshielded collider of the result is a collider of g; "
              "p2m_component_all_sizes: under rounds_extendable the circle component ends without undirected edge, acyclic, "
              "without unshielded collider (via C08 meek_extensions_preserved and the reflection of the extension oracle). "
              "With C08's chordal orientation lemma (all sizes): chordalb_gives_peo, p2m_first_round_all_sizes (on a chordal circle "
              "component the first hand-orientation is always extendable), p2m_shape_all_sizes_chordal (hypotheses: pag_hyps, "
              "chordal circle component, extendability of the rounds AFTER the first), p2m_component_one_round (no further "
              "hypothesis when the first round orients the whole component). "
              "Round by round (C09/Rounds.v): rounds_extendable_from_meek4 reduces ALL rounds to one graph-theoretic statement "
              "meek4_on P (closed under R1-R4 + v-structure-free extension => every undirected edge orientable either way, on the "
              "skeleton class P); meek4_holds_on_cluster_graphs proves it for all sizes when the component is a disjoint union of "
              "cliques, giving p2m_shape_all_sizes_cluster with pag_hyps as the only other hypothesis; "
              "p2m_shape_all_sizes_from_meek4 gives the chordal case from the single hypothesis meek4_on chordal_skel. "
              "Elimination orderings (C09/Meek4Elim.v): a perfect elimination ordering compatible with the directed layer IS a "
              "v-structure-free extension and is built greedily while eligible nodes exist (meek4_from_eligible); "
              "meek4_holds_on_forests proves Meek's Thm 4 for all sizes on triangle-free (forest) skeletons, hence "
              "p2m_shape_all_sizes_forest_partial: the shape clauses with no hypothesis on the rounds for forest-shaped circle "
              "components (paths, stars, trees), next to the clique-union case; meek4_holds_on_cliques_and_trees / "
              "p2m_shape_all_sizes_cliques_and_trees_partial cover every circle component each of whose connected components is a "
              "clique or a tree (ct_skel, C09/Meek4CT.v). "
              "BOUNDED discharge of rounds_extendable (Meek's lemma on chordal graphs) — meek_chordal_orientation_bounded_5 / "
              "chordal_iff_vfree_extension_bounded_5: all 1024 undirected graphs on <=5 nodes; pag_hyps_hold_on_pags_of_mags_bounded_3. "
              "REFUTED for the assembly as coded before the repair — p2m_structure_code_refuted. "
              "BY CORRESPONDENCE — the implementation's own result on PAGofMAG(n) and on MARKS(n) passes the same oracle "
              "verdicts (witness validity, not identity), argument unchanged; the unbounded membership clause (Zhang 2008 Thm 2) "
              "is stated (p2m_member_full) and not attempted.")
LEVEL_NOTE = ("the hand-orientation loop is fully discharged for all sizes (meek4_holds_on_chordal: no hypothesis on the rounds is "
              "left). STILL HYPOTHESES of the all-sizes shape theorem: pag_hyps for the PAG of every MAG (Zhang 2008 Lemma 3.3.1 and the "
              "simple-marks / acyclicity invariants; kernel-checked for every MAG on <=3 nodes, harness-checked on <=4 nodes and on "
              "the chordal 5-6 node stream through the booleans pag_hypsb / rounds_ok_small_b in run_case mode 1) and chordality of "
              "the circle component (a perfect elimination ordering; true for PAGs of MAGs, not proved here). The membership clause "
              "(valid MAG, Markov equivalent to the source MAG; Zhang 2008 Thm 2) is bounded: n<=4 in the kernel. "
              "bounded theorems are stated with the boolean oracles (msep_dec; its reflection to the Prop msep is Graph/MSepDec.v, "
              "not imported here); which undirected edge the temporary CPDAG yields first is not modelled (any order is covered by "
              "the structural theorem and by meek4_holds_on_chordal; membership of the implementation's actual result is checked by "
              "the oracle); -o edges occur only in the structural stream (no PAG of a MAG without undirected edges has one)")
TECHNIQUE = "Coq proof (structure, termination and the shape clauses unbounded — Meek Thm 4 on chordal components; membership bounded n<=4 by vm_compute) + extracted-oracle correspondence"

MAG_KINDS = ["none", "->", "<-", "<->"]


def _oracle(lines):
    p = subprocess.run([BIN], input="\n".join(lines) + "\n", stdout=subprocess.PIPE, stderr=subprocess.PIPE, text=True,
                       env=dict(os.environ, OCAMLRUNPARAM="s=4M,l=8G"))
    out = [ln for ln in p.stdout.split("\n") if ln]
    if len(out) != len(lines):
        raise RuntimeError("oracle produced %d of %d lines: %s" % (len(out), len(lines), p.stderr[-200:]))
    return [sxmod.loads(ln) for ln in out]


def _graph(v):
    return {"V": sorted(v[0]), "D": sorted(map(list, v[1])), "B": sorted(sorted(e) for e in v[2]),
            "U": sorted(sorted(e) for e in v[3]), "C": sorted(map(list, v[4]))}


def pags_of_mags(n, sample=None, rng=None):
    """[(mag, pag)] for every valid MAG on n nodes (or of a random sample of the candidates), through the extracted spec
    (run_case mode 3)"""
    mags = list(gr.enum_class(n, MAG_KINDS))
    if sample is not None and len(mags) > sample:
        mags = rng.sample(mags, sample)
    lines = [sxmod.dumps([3, gr.enc(m)]) for m in mags]
    nsh = max(1, min(int(os.environ.get("VERIF_JOBS", "16")), len(lines) // 20 + 1))
    shards = [lines[i::nsh] for i in range(nsh)]
    with ThreadPoolExecutor(nsh) as ex:
        outs = list(ex.map(_oracle, shards))
    res = [None] * len(lines)
    for k, o in enumerate(outs):
        for j, v in enumerate(o):
            res[k + j * nsh] = v
    return [(m, _graph(v[1])) for m, v in zip(mags, res) if v[0] == 1]


def mcs_order(n, edges):
    """maximum cardinality search: in a chordal graph the earlier-visited neighbours of every node form a clique"""
    nb = {v: set() for v in range(n)}
    for a, b in edges:
        nb[a].add(b)
        nb[b].add(a)
    order, seen = [], set()
    while len(order) < n:
        v = max((v for v in range(n) if v not in seen), key=lambda v: (len(nb[v] & seen), -v))
        order.append(v)
        seen.add(v)
    return order


def chordal_shapes(rng, tier):
    """connected chordal graphs on 5-7 nodes: paths, triangle strips, the glued-triangle strip, random chordal graphs"""
    shapes = []
    for n in (5, 6, 7):
        shapes.append(("path%d" % n, n, [(i, i + 1) for i in range(n - 1)]))
        shapes.append(("strip%d" % n, n, [(i, i + 1) for i in range(n - 1)] + [(i, i + 2) for i in range(n - 2)]))
    shapes.append(("strip5b", 5, [(0, 2), (0, 4), (1, 2), (1, 3), (1, 4), (2, 4), (3, 4)]))
    for i in range(14 if tier == "quick" else 60):
        n = rng.randint(5, 7)
        edges, nb = [], {0: set()}
        for v in range(1, n):
            u = rng.randrange(v)
            clique = [u]
            for w in rng.sample(sorted(nb[u]), len(nb[u])):
                if rng.random() < 0.5 and all(w in nb[c] for c in clique):
                    clique.append(w)
            nb[v] = set(clique)
            for c in clique:
                nb[c].add(v)
                edges.append((c, v))
        shapes.append(("chordal%d" % n, n, edges))
    # small and DENSE components: the diamond with a chord, cliques, cliques minus an edge, dense random chordal graphs
    shapes.append(("diamond4", 4, [(0, 1), (0, 2), (1, 2), (1, 3), (2, 3)]))
    for n in ((4, 5) if tier == "quick" else (4, 5, 6)):
        full = [(a, b) for a in range(n) for b in range(a + 1, n)]
        shapes.append(("clique%d" % n, n, full))
        shapes.append(("cliqueminus%d" % n, n, full[1:]))
    for i in range(6 if tier == "quick" else 40):
        n = 6 if tier == "quick" else rng.choice([6, 6, 7])
        edges, nb = [], {0: set()}
        for v in range(1, n):
            u = rng.randrange(v)
            clique = [u]
            for w in rng.sample(sorted(nb[u]), len(nb[u])):
                if rng.random() < 0.85 and all(w in nb[c] for c in clique):
                    clique.append(w)
            nb[v] = set(clique)
            for c in clique:
                nb[c].add(v)
                edges.append((c, v))
        shapes.append(("chordaldense%d" % n, n, edges))
    return shapes


def chordal_cases(rng, tier):
    """all-circle PAG on a chordal skeleton = PAG of any DAG orientation without unshielded colliders (from an MCS order);
    every shape under many node labelings (permuted 0..n-1, optionally mapped to scattered ints for the implementation:
    the visit order of pag_to_mag / the Meek sweep comes from Python sets of label tuples) and insertion orders"""
    for name, n, edges in chordal_shapes(rng, tier):
        pos = {v: i for i, v in enumerate(mcs_order(n, edges))}
        dag = [(a, b) if pos[a] < pos[b] else (b, a) for a, b in edges]
        reps = (100 if not name.startswith(("chordal", "clique")) else 30) * (1 if tier == "quick" else 3)
        if n == 7:
            reps //= 5      # the oracle's Markov-equivalence check on 6-7 nodes dominates the run time
        elif n == 6:
            reps = reps * 3 // 5
        if name.startswith("chordaldense"):
            reps = reps * 2 // 5
        for r in range(reps):
            perm = list(range(n))
            rng.shuffle(perm)
            es = [(perm[a], perm[b]) for a, b in edges]
            rng.shuffle(es)
            g = gr.G(range(n), C=[e for a, b in es for e in ((a, b), (b, a))])
            mag = gr.G(range(n), D=sorted((perm[a], perm[b]) for a, b in dag))
            c = {"kind": name, "g": g, "mag": mag, "mode": 1}
            if r % 2:
                c["labmap"] = rng.sample(range(1000), n)
            if r % 3 == 2:
                c["_order"] = rng.randrange(1000)
            yield c


def base_cases(tier, rng):
    nmax = 3 if tier == "quick" else 4
    for n in range(1, nmax + 1):
        for m, p in pags_of_mags(n):
            yield {"kind": "pagofmag%d" % n, "g": p, "mag": m, "mode": 1}
    if tier == "quick":
        # a sample of PAGofMAG(4) with at least one o-> edge (membership verdicts by the oracle)
        for m, p in pags_of_mags(4, sample=260, rng=rng):
            dd = {tuple(e) for e in p["D"]}
            if any((b, a) in dd for a, b in p["C"]):
                yield {"kind": "pagofmag4s", "g": p, "mag": m, "mode": 1}
    for n in range(1, 4):
        for g in gr.enum_marks(n, ext=True):
            yield {"kind": "marks%d" % n, "g": g, "mode": 0}
    for i in range(300 if tier == "quick" else 3000):
        n = rng.randint(4, 7)
        g = gr.random_kinds_graph(rng, n, gr.MARK_KINDS_EXT, p_edge=rng.choice([0.3, 0.5, 0.7]), acyclic=rng.random() < 0.7)
        yield {"kind": "rand", "g": g, "mode": 0}
    yield from chordal_cases(rng, tier)


def _sig(g):
    return (len(g["V"]), sum(len(g[k]) for k in "DBUC"))


def _gen_cases(tier, rng):
    """base streams, then the REPEAT / stale-state stream: pag_to_mag is first called on a DIFFERENT PAG g0 with the same
    node and edge counts built in the same object (result discarded), the object is edited in place into g (all edges
    removed, g's edges added), and the judged call is made on that object ("same"), on its copy() ("copy"), or a second
    time after the first returned graph was edited in place by the caller ("result")"""
    base = list(base_cases(tier, rng))
    yield from base
    groups = {}
    for c in base:
        groups.setdefault((tuple(sorted(c["g"]["V"])), _sig(c["g"])), []).append(c["g"])
    for i, c in enumerate(base):
        g = c["g"]
        n = len(g["V"])
        if c["kind"].startswith("pagofmag"):
            take = n <= 3 or i % 6 == 0
        elif c["kind"].startswith("marks"):
            take = n <= 2 or i % 4 == 0
        elif c["kind"] == "rand":
            take = i % 4 == 0
        else:
            take = n <= 6 and i % 6 == 0
        if not take:
            continue
        others = [h for h in groups[(tuple(sorted(g["V"])), _sig(g))] if gr.canon(h) != gr.canon(g)]
        seed = rng.randrange(1 << 30)
        g0 = rng.choice(others) if others else g
        yield dict(c, kind="rep-" + c["kind"], rep=["same", "same", "copy", "result"][seed % 4], g0=g0)
    # MARKED-TRIPLES stream: pag_to_mag runs its closure on a fresh temporary CPDAG (excluded_triples empty); here ANOTHER live
    # object carries marked triples: the source PAG itself ("pag": every 3-subset of its nodes marked with
    # mark_unfaithful_triple) or a live copy() of it ("copy"); expected = a result that passes the same verdicts
    for i, c in enumerate(base):
        n = len(c["g"]["V"])
        if n < 3 or not c["g"]["C"]:
            continue
        if c["kind"].startswith("pagofmag"):
            take = n <= 3 or i % 6 == 0
        elif c["kind"].startswith("marks"):
            take = i % 8 == 0
        elif c["kind"] == "rand":
            take = i % 6 == 0
        else:
            take = n <= 6 and i % 2 == 0
        if take:
            yield dict(c, kind="tri-" + c["kind"], marks=["pag", "pag", "copy"][i % 3])
    # identity-hashed label objects (pag_to_mag copies the PAG: a deep copy of the labels would change the nodes)
    for i, c in enumerate(base):
        if "labmap" not in c and (c["kind"] == "pagofmag3" or (c["kind"] in ("rand", "path5", "strip5", "diamond4") and i % 10 == 0)):
            yield dict(c, kind="obj-" + c["kind"], _lab="obj")


def _full_model(case):
    # on 7 nodes the model's own result gets the structural verdict only (the vm_compute spot check of the full verdicts
    # would take minutes); the implementation's result always gets all six verdicts from the extracted oracle
    return case["mode"] == 1 and len(case["g"]["V"]) <= 6


def unit_cases(tier, rng):
    """UNIT level (flavour J): the four Meek rule helpers of algorithms/pag.py that pag_to_mag's closure uses, called directly on
    a CPDAG for every PDAG(n) n<=4 (cyclic directed layers included) x every ordered pair (i, j), and on random 5-6 node PDAGs;
    expected = the corresponding rule of the proved model (C08 r1..r4 guarded by i - j), through run_case mode 5"""
    for n in range(2, 5):
        for g in gr.enum_pdag(n, acyclic=False):
            if g["U"]:
                yield {"kind": "unit%d" % n, "g": g, "mode": 5,
                       "pairs": [[a, b] for a in g["V"] for b in g["V"] if a != b]}
    for i in range(250 if tier == "quick" else 2500):
        n = rng.randint(5, 6)
        g = gr.random_kinds_graph(rng, n, gr.PDAG_KINDS, p_edge=rng.choice([0.5, 0.7, 0.9]))
        vs = list(g["V"])
        rng.shuffle(vs)
        g = dict(g, V=vs)
        prs = [[a, b] for a, b in g["U"]] + [[b, a] for a, b in g["U"]]
        if prs:
            yield {"kind": "unit-rand", "g": g, "mode": 5, "pairs": prs}


def big_chordal_cases(tier, rng):
    """flavour L: all-circle PAGs on DENSE connected chordal skeletons with 7-10 nodes, several insertion orders / labelings each;
    judged by the four cheap verdicts (structure, acyclic, no almost directed cycle, no new unshielded collider)"""
    for i in range(36 if tier == "quick" else 300):
        n = rng.randint(7, 10)
        edges, nb = [], {0: set()}
        for v in range(1, n):
            u = rng.randrange(v)
            clique = [u]
            for w in rng.sample(sorted(nb[u]), len(nb[u])):
                if rng.random() < 0.85 and all(w in nb[c] for c in clique):
                    clique.append(w)
            nb[v] = set(clique)
            for c in clique:
                nb[c].add(v)
                edges.append((c, v))
        for r in range(3):
            perm = list(range(n))
            rng.shuffle(perm)
            es = [(perm[a], perm[b]) for a, b in edges]
            rng.shuffle(es)
            c = {"kind": "bigchordal%d" % n, "g": gr.G(range(n), C=[e for a, b in es for e in ((a, b), (b, a))]), "mode": 6,
                 "_order": rng.randrange(1000)}
            if r == 1:
                c["labmap"] = rng.sample(range(1000), n)
            yield c


def gen_cases(tier, rng):
    """exhaustive streams in their order; the structured / repeat / marked streams interleaved (the 6-7 node components cost
    far more oracle time than the rest: interleaving spreads them over the worker chunks)"""
    head, tail = [], []
    for c in _gen_cases(tier, rng):
        (head if c["kind"].startswith(("pagofmag", "marks")) else tail).append(c)
    for c in unit_cases(tier, rng):
        (tail if c["kind"] == "unit-rand" else head).append(c)
    tail.extend(big_chordal_cases(tier, rng))
    rng.shuffle(tail)
    yield from head
    yield from tail


def encode(case):
    if case["mode"] == 5:
        return [5, gr.enc(case["g"]), case["pairs"]]
    if _full_model(case):
        return [1, gr.enc(case["g"]), gr.enc(case["mag"])]
    return [0, gr.enc(case["g"])]


def decode(case, v):
    if case["mode"] == 5:
        return {"unit": [[bool(x) for x in row] for row in v], "verdicts": [True]}
    if _full_model(case):
        return {"m": _graph(v[0]), "verdicts": [bool(x) for x in v[1]] + [bool(x) for x in v[2]]}
    return {"m": _graph(v[0]), "verdicts": [bool(v[1])]}


def run_unit(case):
    from pywhy_graphs.algorithms import pag as pagmod
    rules = [pagmod._meek_rule1, pagmod._meek_rule2, pagmod._meek_rule3, pagmod._meek_rule4]
    g = case["g"]
    P0, lab, inv = gr.to_cpdag(g, case)
    base = gr.from_mixed(P0, inv)
    und = {tuple(sorted(e)) for e in g["U"]}
    out, graph_ok = [], True
    for i, j in case["pairs"]:
        row = []
        for rule in rules:
            Q = P0.copy() if tuple(sorted((i, j))) in und else P0
            fired = bool(rule(Q, lab(i), lab(j)))
            row.append(fired)
            h = gr.from_mixed(Q, inv)
            if fired:
                exp_D = sorted(base["D"] + [[i, j]])
                exp_U = [e for e in base["U"] if e != sorted((i, j))]
                graph_ok = graph_ok and h["D"] == exp_D and h["U"] == exp_U and h["V"] == base["V"]
            else:
                graph_ok = graph_ok and h == base
        out.append(row)
    return {"unit": out, "graph_ok": graph_ok, "mutated": False, "verdicts": [True]}


def run_impl(case):
    from pywhy_graphs.algorithms.pag import pag_to_mag
    if case["mode"] == 5:
        return run_unit(case)
    lm = case.get("labmap")
    g = gr.relabel(case["g"], lambda v: lm[v]) if lm else case["g"]
    back = {x: v for v, x in enumerate(lm)} if lm else None
    rep = case.get("rep")
    if rep in ("same", "copy"):
        g0 = gr.relabel(case["g0"], lambda v: lm[v]) if lm else case["g0"]
        P, lab, inv0 = gr.to_pag(g0, case)
        pag_to_mag(P)                                  # warm-up on another PAG in the same object, result discarded
        for name, layer in P.get_graphs().items():
            for u, v in list(layer.edges):
                P.remove_edge(u, v, name)
        es = [(k, a, b) for k in "DBUC" for a, b in g[k]]
        for k, a, b in gr.ordered(case, es, "E"):
            P.add_edge(lab(a), lab(b), gr.LAYER_NAMES[k])
        if rep == "copy":
            P = P.copy()
    else:
        P, lab, inv0 = gr.to_pag(g, case)
    inv = (lambda x: back[inv0(x)]) if lm else inv0
    keep = []
    if case.get("marks"):
        import itertools
        Q = P.copy() if case["marks"] == "copy" else P
        for t in itertools.combinations(list(Q.nodes), 3):
            Q.mark_unfaithful_triple(*t)
        keep.append(Q)
    before = gr.snapshot(P)
    # INTERMEDIATE STATES: record the temporary CPDAG every time pag_to_mag hands it to the closure, and what comes back
    from pywhy_graphs.algorithms import pag as pagmod
    orig_closure = pagmod._apply_meek_rules
    trace = []

    def recording_closure(G, *args, **kw):
        def snap():
            hh = gr.from_mixed(G, inv)
            return [hh["V"], hh["D"], hh["U"]]
        inp = snap()
        r = orig_closure(G, *args, **kw)
        trace.append((inp, snap()))
        return r

    pagmod._apply_meek_rules = recording_closure
    try:
        R = pag_to_mag(P)
        if rep == "result":
            del trace[:]
    finally:
        if rep != "result":
            pagmod._apply_meek_rules = orig_closure
    if rep == "result":
        # the caller edits the returned graph in place; a second conversion of the same PAG must not see that
        for name, layer in R.get_graphs().items():
            for u, v in list(layer.edges)[:1]:
                R.remove_edge(u, v, name)
        if R.number_of_nodes():
            R.remove_node(next(iter(R.nodes)))
        try:
            R = pag_to_mag(P)
        finally:
            pagmod._apply_meek_rules = orig_closure
    mutated = gr.snapshot(P) != before
    h = gr.from_mixed(R, inv)
    if "X" in h:
        return {"m": h, "mutated": mutated, "verdicts": [False], "extra_layers": h["X"]}
    if case["mode"] == 1:
        line = sxmod.dumps([2, gr.enc(case["g"]), gr.enc(case["mag"]), gr.enc(h)])
    elif case["mode"] == 6:
        line = sxmod.dumps([6, gr.enc(case["g"]), gr.enc(h)])
    else:
        line = sxmod.dumps([4, gr.enc(case["g"]), gr.enc(h)])
    # one oracle call: the verdicts of the result, and the proved closure of every round's input (run_case mode 7)
    outs = _oracle([line] + [sxmod.dumps([7, [inp[0], inp[1], [], inp[2], []]]) for inp, _ in trace])
    v = outs[0][0] if case["mode"] == 1 else outs[0]
    return {"m": h, "mutated": mutated, "verdicts": [bool(x) for x in v], "rounds": check_rounds(case["g"], trace, outs[1:])}


def check_rounds(g, trace, closures):
    """per round of pag_to_mag's loop: the graph handed to the closure is the previous closed graph plus EXACTLY ONE newly
    directed edge that was undirected before (round 1: the all-undirected o-o component), and what the closure returns is the
    closure of that input under the proved rules; the last round leaves no undirected edge.  None = all rounds fine"""
    cs = {tuple(e) for e in g["C"]}
    prev_D = []
    prev_U = sorted({tuple(sorted(e)) for e in cs if (e[1], e[0]) in cs and not
                     ((list(e) in g["D"]) or ([e[1], e[0]] in g["D"]))})
    prev_U = [list(e) for e in prev_U]
    for k, ((inp, out), cl) in enumerate(zip(trace, closures), 1):
        new = [e for e in inp[1] if e not in prev_D]
        if not all(e in inp[1] for e in prev_D) or len(new) != 1 or sorted(new[0]) not in prev_U \
                or sorted(inp[2]) != sorted(e for e in prev_U if e != sorted(new[0])):
            return "round%d:input-is-not-previous-closed-graph-plus-one-new-edge" % min(k, 2)
        exp_D, exp_U = sorted(map(list, cl[0])), sorted(sorted(e) for e in cl[1])
        if sorted(out[1]) != exp_D or sorted(out[2]) != exp_U:
            return "round%d:output-is-not-the-proved-closure" % min(k, 2)
        prev_D, prev_U = sorted(out[1]), sorted(out[2])
    if prev_U:
        return "undirected-edges-left-after-the-last-round"
    return None


def compare(case, impl, model):
    if not all(model["verdicts"]):
        return "model-vs-oracle:" + VERDICTS[model["verdicts"].index(False)]
    if "exc" in impl:
        return "exception:" + impl["exc"]
    if impl["mutated"]:
        return "argument-mutated"
    if case["mode"] == 5:
        for (i, j), ri, rm in zip(case["pairs"], impl["unit"], model["unit"]):
            for k in range(4):
                if ri[k] != rm[k]:
                    return "unit:_meek_rule%d:%s" % (k + 1, "fires-where-the-proved-rule-does-not" if ri[k] else "misses")
        return None if impl["graph_ok"] else "unit:result-graph"
    if not all(impl["verdicts"]):
        return "impl:" + VERDICTS[impl["verdicts"].index(False)]
    if impl.get("rounds"):
        return "impl:rounds:" + impl["rounds"]
    # OUTSIDE the o-o component the result is deterministic (o-> becomes ->, -o becomes ->, every other edge kept): it must
    # equal the proved model's result exactly, pair by pair
    g = case["g"]
    cs = {tuple(e) for e in g["C"]}
    dd = {tuple(e) for e in g["D"]}
    oo = {frozenset(e) for e in cs if (e[1], e[0]) in cs and e not in dd and (e[1], e[0]) not in dd}

    def outside(m):
        return {k: sorted(e for e in m[k] if frozenset(e) not in oo) for k in "DBU"}
    if impl["m"]["V"] != model["m"]["V"] or outside(impl["m"]) != outside(model["m"]):
        return "impl:marks-outside-the-circle-component-differ-from-the-model"
    return None


def classify(case, impl, model):
    return None


def nontrivial(case, model):
    if case["mode"] == 5:
        return any(any(r) for r in model["unit"])
    return bool(case["g"]["C"])


def key(case):
    return (gr.canon(case["g"]), case["mode"] == 5, case.get("rep"), gr.canon(case["g0"]) if "g0" in case else None,
            case.get("marks"), case.get("_lab"), case.get("_order"))


def shrink(case):
    if case["mode"] == 5:
        for pr in case["pairs"]:
            if len(case["pairs"]) > 1:
                yield dict(case, pairs=[pr])
        for h in gr.shrink_graph(case["g"]):
            prs = [pr for pr in case["pairs"] if pr[0] in h["V"] and pr[1] in h["V"]]
            if prs:
                yield dict(case, g=h, pairs=prs)
        return
    if case["mode"] == 1 or "rep" in case:
        return
    for h in gr.shrink_graph(case["g"]):
        yield dict(case, g=h)
