"""C10 — bidirected_to_unobserved_confounder: canonical DAG of an ADMG (structure + separation preservation)."""
import itertools
import graphs as gr

PROP = "C10"
RULE = ("every acyclic ADMG(n) n<=3 quick / n<=4 thorough under the label families int and 'U<i>' (graphs with a bidirected "
        "edge also under 'U<n-1-i>' and 'U<i+1>'), all pairwise-disjoint (X,Y,Z) of original nodes with X<Y; seeded random "
        "ADMGs n<=8 under six label families with 30 queries; a quarter of the random and every small graph again as REPEAT case "
        "(object built and used for a neighbour graph, then edited in place or its layer objects replaced via remove_edge_type/"
        "add_edge_type, returned DiGraph edited and the conversion repeated, also on G.copy()) and with CUSTOM edge-type names "
        "(beyond the property's quantifier); the empty graph; every small graph also as pywhy_graphs.ADMG instance / three-layer "
        "MixedEdgeGraph with an edge-less third layer, and with user node attributes that look like the generated ones "
        "(label='Unobserved Confounders', observed='no'/'yes', on all or on seeded nodes incl. common parents of bidirected pairs); "
        "query sets checked for mutation; LABEL VALUES (int/str twins 1 and '1' in one graph, generated-name look-alikes with "
        "Unicode digits / leading zeros / signs / floats such as 'U\u00b2', 'U\u2460', 'U01', 'U-1', 'U1.0', labels equal across the numeric "
        "tower 0.0 / True / 2.0 and ('F', 0.0)); HISTORY-BUILT inputs (attributes given by add_node(**kw) or by constructor layers whose "
        "nodes carry data, then overwritten / deleted / extended through G.nodes[n], set_node_attributes, add_nodes_from; attribute "
        "keys of type int and tuple and keys named node_for_adding / u_of_edge / edge_type / domain_ids on nodes, both edge layers "
        "and the graph; result attributes must equal G.nodes exactly and be independent copies); multi-digit generated-looking caller names ('U9','U10',.. / 'U2','U10' / 'U98'..) and "
        "identity-hashed label objects (graphs.labeler family 'obj'); a preceding call on an unrelated graph (cross-call contamination); "
        "a DEEP stream of three 150-300 node chains run with the recursion limit lowered to depth+120 (structure compared with the "
        "model, d-separation of the result vs m_separated of the input compared with each other); distinct by (canonical graph, label family, repeat, names, object kind, look-alike "
        "attributes); non-trivial = "
        "the graph has a bidirected edge and the queries contain a separated and a connected one")
EXHAUSTIVE = {"quick": "all ADMG(n) n<=3 x {int,'U<i>'} labels, all disjoint X,Y,Z",
              "thorough": "all ADMG(n) n<=4 x {int,'U<i>'} labels, all disjoint X,Y,Z"}
TRUSTED = ["networkx is_d_separator / is_directed_acyclic_graph used as a second implementation-side observer",
           "deepcopy of attribute dicts observed through == only; node attributes attached via add_node(**kw), G.nodes[n][k]=v, "
           "add_nodes_from((n, dict)) and nx.set_node_attributes on implicitly created nodes (mixed per case), plus two graph attributes"]
ASSUMPTIONS = ["default edge-type names", "input is a MixedEdgeGraph with a directed and a bidirected layer, acyclic directed layer",
               "generated latents are identified by structure (a node of the result that is not a caller node), never by name"]
LEVEL_TEXT = ("All clauses about the formal graph are Coq theorems for ALL graphs and ALL naming functions that meet the freshness "
              "obligation fresh_ok (new, pairwise different names): canon_structure (nodes kept, directed edges among original nodes "
              "unchanged, only directed edges, per bidirected edge exactly one new parentless node whose only children are the two "
              "endpoints, no other nodes), canon_dag (result well formed and acyclic), canon_preserves_sep (UNBOUNDED, at the level of the "
              "path definition msep of Graph/MSep.v: d-separation in the result <-> m-separation in G for all X,Y,Z of original nodes; "
              "disjointness and acyclicity are not even needed) and canon_preserves_sep_dec (same for the boolean oracle the harness "
              "runs). The code is tied to the model by correspondence on the enumerated / random inputs, including caller labels that "
              "look like generated names ('U0','U1',...).")
LEVEL_NOTE = ("Observed by correspondence only: node attributes are kept, the result is a networkx DiGraph, the argument is not mutated, "
              "networkx is_d_separator on the result and m_separated on the input agree with the model. The freshness of generated names "
              "is an obligation on the code (hypothesis fresh_ok); the unpatched code violates it for caller nodes named 'U<i>' "
              "(fixes/C10-fresh-latent-names.patch); the naming function of the extracted model (fresh_above) is proved to meet it.")
TECHNIQUE = "Coq proof (model satisfies spec) + extracted-model correspondence (tie K)"
SPOT_N = 10
UFAMS = ("U", "Urev", "Ushift")
VALUE_FAMS = {
    # int / str twins in one graph
    "twin": [0, "0", 1, "1", 2, "2", 3, "3", 4, "4"],
    # look-alikes of generated names: Unicode digits (str.isdigit() is True, int() raises or differs), leading zeros, signs, floats
    "udigit": ["U\u00b2", "U\u2460", "U\u0663", "U01", "U-1", "U1.0", "U", "U0", "u0", "U 1"],
    "udigit2": ["U0", "U\u0661", "U00", "U1", "U\u00b9", "U+1", "U1_0", "U\u2461", "UU0", "U2"],
    # labels equal to ints across the numeric tower (1 == 1.0 == True: ONE of them per value) and tuples that are equal across types
    "numeq": [0.0, True, 2.0, 3, ("F", 0.0), ("F", 1), 6.0, 7, ("F", 2.0), 9],
}
NAME_SETS = [["dir", "bidir"], ["bidirected", "directed"], ["->", "<->"]]


def queries(nodes, rng=None, limit=None):
    qs = []
    nodes = list(nodes)
    for rx in range(1, len(nodes)):
        for X in itertools.combinations(nodes, rx):
            rest = [v for v in nodes if v not in X]
            for ry in range(1, len(rest) + 1):
                for Y in itertools.combinations(rest, ry):
                    if X > Y:
                        continue
                    rest2 = [v for v in rest if v not in Y]
                    for Z in gr.subsets(rest2):
                        qs.append([list(X), list(Y), Z])
    if limit and len(qs) > limit:
        qs = rng.sample(qs, limit)
    return qs


def gen_cases(tier, rng):
    nmax = 3 if tier == "quick" else 4
    for n in range(1, nmax + 1):
        for g in gr.enum_admg(n):
            qs = queries(g["V"])
            fams = [None, "U"] + (["Urev", "Ushift", "U9", "obj", "twin", "udigit", "udigit2", "numeq"] if g["B"] and n <= 3 else [])
            for fam in fams:
                yield {"kind": "admg%d" % n, "g": g, "fam": fam, "qs": qs, "oracle": True, "aseed": rng.randrange(64)}
    # HISTORY-BUILT inputs (flavour N): attributes given by add_node(**kw) / constructor layers and later overwritten, deleted or
    # extended through G.nodes[n], nx.set_node_attributes, add_nodes_from; non-str keys on nodes, edges and graph
    for n in range(1, 4):
        for j, g in enumerate(gr.enum_admg(n)):
            if n == 3 and j % 2:
                continue
            yield {"kind": "hist%d" % n, "g": g, "fam": ("U", None, "obj")[j % 3], "qs": queries(g["V"]), "oracle": True,
                   "aseed": rng.randrange(64), "hist": rng.randrange(1 << 20), "okind": ("mixed2", "admg", "mixed3")[j % 3],
                   **({"rep": rng.randrange(1 << 30)} if j % 5 == 0 and (g["D"] or g["B"]) else {})}
    # BOUNDARY: the empty graph
    yield {"kind": "admg0", "g": gr.G([]), "fam": None, "qs": [], "oracle": True, "aseed": 0}
    yield {"kind": "admg0", "g": gr.G([]), "fam": None, "qs": [], "oracle": True, "aseed": 0, "okind": "admg"}
    # OBJECT KINDS (ADMG instance / three-layer MixedEdgeGraph with an edge-less third layer) and USER ATTRIBUTES THAT LOOK
    # LIKE GENERATED ONES (label / observed="no" on caller nodes, incl. common parents of bidirected pairs)
    for n in range(1, 4 if tier == "quick" else 5):
        for j, g in enumerate(gr.enum_admg(n)):
            if n == 4 and j % 6:
                continue
            qs = queries(g["V"])
            yield {"kind": "kinds%d" % n, "pre": j % 2 == 1, "g": g, "fam": "U" if j % 3 == 0 else None, "qs": qs, "oracle": True,
                   "aseed": rng.randrange(64), "okind": ("admg", "mixed3")[j % 2],
                   **({"rep": rng.randrange(1 << 30)} if j % 4 == 0 else {})}
            if g["B"] and g["D"]:
                yield {"kind": "ulike%d" % n, "g": g, "fam": None, "qs": qs, "oracle": True, "aseed": rng.randrange(64),
                       "ulike": 2 * rng.randrange(1 << 24) + (j % 2), "okind": ("mixed2", "admg", "mixed3")[j % 3]}
    # DEEP stream: long chains (alternating -> and <->, side branches), recursion limit lowered to current depth + 120
    for L in (150, 220, 300):
        D = [[i, i + 1] for i in range(L - 1) if i % 3 != 1] + [[i, L + i // 10] for i in range(0, L, 10)]
        B = [[i, i + 1] for i in range(L - 1) if i % 3 == 1] + [[i, i + 2] for i in range(0, L - 2, 7)]
        g = gr.G(range(L + L // 10 + 1), D=D, B=B)
        # 0 and 2 given {}: 0 -> 1 <-> 2 connected;  0 and 3 given {}: 0->1<->2->3? 1 is a collider: but 0 <-> 2 -> 3 connects
        iqs = [[[0], [2], []], [[0], [L - 1], []], [[L + 1], [L + 2], []], [[0], [1], [5]]]
        yield {"kind": "deep", "g": g, "fam": None if L != 220 else "str", "qs": [], "iqs": iqs, "oracle": False,
               "aseed": L, "_reclimit": 120, "okind": ("mixed2", "admg", "mixed3")[L % 3]}
    nr = 240 if tier == "quick" else 2400
    fams = [None, "U", "Urev", "Ushift", "tuple", "str", "U9", "obj", "U2_10", "U98", "twin", "udigit", "udigit2", "numeq"]
    for i in range(nr):
        n = rng.randint(4, 8)
        g = gr.random_kinds_graph(rng, n, gr.ADMG_KINDS, p_edge=rng.choice([0.15, 0.25, 0.4]))
        allq = queries(g["V"]) if n <= 6 else None
        if allq is None:
            qs = []
            for _ in range(30):
                vs = list(g["V"])
                rng.shuffle(vs)
                a = rng.randint(1, 2)
                b = rng.randint(1, 2)
                c = rng.randint(0, n - a - b)
                X, Y, Z = sorted(vs[:a]), sorted(vs[a:a + b]), sorted(vs[a + b:a + b + c])
                qs.append([X, Y, Z])
        else:
            qs = rng.sample(allq, min(30, len(allq)))
        c = {"kind": "rand", "g": g, "fam": fams[i % len(fams)], "qs": qs, "oracle": n + len(g["B"]) <= 9,
             "aseed": rng.randrange(64)}
        if i % 3 == 0:
            c.update(ulike=2 * rng.randrange(1 << 24) + (i // 3) % 2)
        if i % 4 != 3:
            c.update(okind=("mixed2", "admg", "mixed3")[i % 3])
        if i % 5 == 0:
            c.update(pre=True)
        if i % 3 == 1:
            c.update(hist=rng.randrange(1 << 20))
        if i % 4 == 1:
            c.update(kind="rand-rep", rep=rng.randrange(1 << 30))
        elif i % 4 == 3:
            c.update(kind="rand-names", names=rng.choice(NAME_SETS))
            if i % 8 == 7:
                c.update(kind="rand-names-rep", rep=rng.randrange(1 << 30))
        yield c
    # REPEAT stream (object first built and used for a neighbour graph, then edited / layers replaced in place; the returned
    # DiGraph is edited and the conversion repeated) and CUSTOM EDGE-TYPE NAMES stream over the small exhaustive graphs
    for n in range(2, 4 if tier == "quick" else 5):
        for j, g in enumerate(gr.enum_admg(n)):
            if not (g["D"] or g["B"]) or (n == 4 and j % 8):
                continue
            qs = queries(g["V"])
            yield {"kind": "rep%d" % n, "g": g, "fam": None if j % 2 else "U", "qs": qs, "oracle": True,
                   "aseed": rng.randrange(64), "rep": rng.randrange(1 << 30)}
            yield {"kind": "names%d" % n, "g": g, "fam": None, "qs": qs, "oracle": True, "aseed": rng.randrange(64),
                   "names": NAME_SETS[j % len(NAME_SETS)], **({"rep": rng.randrange(1 << 30)} if j % 3 == 0 else {})}



def encode(case):
    return [0 if case["oracle"] else 1, gr.enc(case["g"]), case["qs"]]


def decode(case, v):
    graph, triples, res = v
    orig = set(case["g"]["V"])
    out = {"D": sorted([a, b] for a, b in graph[1] if a in orig and b in orig),
           "latents": sorted(sorted([t[1], t[2]]) for t in triples),
           "canon": [r[0] for r in res], "input": [r[1] for r in res]}
    if case["oracle"]:
        out["canon_oracle"] = [r[2] for r in res]
        out["input_oracle"] = [r[3] for r in res]
    # the model's own latent nodes must be new, parentless and have exactly the two children
    V, Dc = set(graph[0]), [tuple(e) for e in graph[1]]
    ok = len({t[0] for t in triples}) == len(triples)
    for u, a, b in triples:
        ok = ok and u not in orig and u in V and not [e for e in Dc if e[1] == u] \
            and sorted(e[1] for e in Dc if e[0] == u) == sorted([a, b])
    out["model_structure_ok"] = bool(ok)
    return out


def labels(case):
    fam = case.get("fam")
    if "_lab" in case or fam is None:
        return gr.labeler(case)
    if fam in gr.LABEL_FAMILIES:
        return gr.labeler({"_lab": fam})
    n = len(case["g"]["V"])
    if fam in VALUE_FAMS:
        # LABEL VALUES (flavour T): the label objects themselves (no string building)
        seq = VALUE_FAMS[fam]
        f0 = lambda v: seq[v] if v < len(seq) else ("x", v)  # noqa: E731
        table = {}

        def lab0(v):
            x = f0(v)
            table[x] = v
            return x
        return lab0, (lambda x: table[x])
    f = {"U": lambda v: "U%d" % v, "Urev": lambda v: "U%d" % (n - 1 - v), "Ushift": lambda v: "U%d" % (v + 1),
         "U9": lambda v: "U%d" % (v + 9),                       # U9, U10, ...: straddles a digit boundary
         "U2_10": lambda v: "U%d" % ([2, 10] + list(range(30, 30 + n)))[v],
         "U98": lambda v: "U%d" % (v + 98)}[fam]
    table = {}

    def lab(v):
        x = "".join(f(v))
        table[x] = v
        return x
    return lab, (lambda x: table[x])


def node_attrs(case, v, mode):
    """user attributes; with case["ulike"] some nodes also carry the keys/values the function writes on the latents it creates"""
    d = {"w": [v, {"k": v}], "tag": "n%d" % v, "m": mode}
    ul = case.get("ulike")
    if ul is not None:
        r = (ul >> (2 * (v % 12))) & 3 if ul % 2 else 0     # even seed: every node looks like a latent
        if r == 0:
            d.update(label="Unobserved Confounders", observed="no")
        elif r == 1:
            d.update(observed="no")
        elif r == 2:
            d.update(label="Unobserved Confounders", observed="yes")
    h = case.get("hist")
    if h is not None:
        # HISTORY-BUILT inputs: keys that are not str (int, tuple), keys named like the library's own parameters / attributes,
        # mutable values; the FINAL state of G.nodes[n] is what the result must carry
        r = (h >> (v % 10)) & 7
        d["tag"] = "final%d" % v
        if r & 1:
            d[7] = [v, "int-key"]
            d[("t", v)] = {"k": [v]}
        if r & 2:
            d.update(node_for_adding="x", u_of_edge=[v], edge_type="directed")
        if r & 4:
            d.update(domain_ids=[v], label=["list-label"])
        if r == 0:
            d[0] = []
    return d


def build(case):
    import networkx as nx
    import pywhy_graphs.networkx as pywhy_nx
    g = case["g"]
    lab, inv = labels(case)
    dn, bn = case.get("names") or ["directed", "bidirected"]
    okind = case.get("okind", "mixed2")
    if okind == "admg":                                         # an ADMG instance: has a third, empty undirected layer
        from pywhy_graphs import ADMG
        M = ADMG()
    elif okind == "mixed3":                                     # three-layer MixedEdgeGraph, third layer edge-less
        M = pywhy_nx.MixedEdgeGraph(graphs=[nx.DiGraph(), nx.Graph(), nx.Graph()],
                                    edge_types=[dn, bn, "undir" if case.get("names") else "undirected"])
    else:
        M = pywhy_nx.MixedEdgeGraph(graphs=[nx.DiGraph(), nx.Graph()], edge_types=[dn, bn])
    hist = case.get("hist")
    if hist is not None and hist % 2 and okind != "admg":
        # constructor from networkx graphs whose nodes already carry data (data that G.nodes does NOT have)
        Dg, Bg = nx.DiGraph(), nx.Graph()
        for v in g["V"]:
            Dg.add_node(lab(v), tag="layer-only", zz=[v], w="layer")
            Bg.add_node(lab(v), tag="layer-only-b")
        layers3 = [nx.Graph()] if okind == "mixed3" else []
        M = pywhy_nx.MixedEdgeGraph(graphs=[Dg, Bg] + layers3,
                                    edge_types=[dn, bn] + (["undir" if case.get("names") else "undirected"] if layers3 else []))
    # node attributes are attached in four different ways (mixed per case by case["aseed"]): only mode 0 is mirrored
    # into the per-layer graphs, so an implementation that reads attributes from a layer instead of G.nodes loses the rest
    aseed = case.get("aseed", 0)
    mode = {v: (aseed + 3 * v + (aseed >> 2) * (v + 1)) % 4 for v in g["V"]}
    attrs = {v: node_attrs(case, v, mode[v]) for v in g["V"]}
    for v in gr.ordered(case, g["V"], "V"):
        if mode[v] == 0 and hist is not None:
            # first given by add_node(n, k=v) (stored in every layer AND in G.nodes), later changed / deleted / extended
            # through G.nodes[n]: the layers keep the stale values
            init = {k: x for k, x in attrs[v].items() if isinstance(k, str) and k != "node_for_adding"}
            init.update(tag="stale", gone=[1, 2], w=["stale"])
            M.add_node(lab(v), **init)
            nd = M.nodes[lab(v)]
            del nd["gone"]
            for k, x in attrs[v].items():
                nd[k] = x
        elif mode[v] == 0:
            M.add_node(lab(v), **attrs[v])                      # keyword attributes of add_node
        elif mode[v] == 1:
            M.add_node(lab(v))
            for k, x in attrs[v].items():
                M.nodes[lab(v)][k] = x                          # item assignment on the node view
        elif mode[v] == 2:
            M.add_nodes_from([(lab(v), attrs[v])])              # per-node dict of add_nodes_from
        # mode 3: created implicitly by add_edge (or below), annotated afterwards
    es = [(dn, a, b) for a, b in g["D"]] + [(bn, a, b) for a, b in g["B"]]
    for k, a, b in gr.ordered(case, es, "E"):
        M.add_edge(lab(a), lab(b), k)
    late = {}
    for v in gr.ordered(case, g["V"], "V"):
        if mode[v] == 3:
            if lab(v) not in M:
                M.add_node(lab(v))
            late[lab(v)] = attrs[v]
    if late:
        nx.set_node_attributes(M, late)                         # networkx helper, after the fact
    M.graph["name"] = ["c10", {"seed": aseed}]
    M.graph["note"] = "graph-level"
    if hist is not None:
        # edge attributes on both layers (str and non-str keys, mutable values) and non-str graph attribute keys
        for name in (dn, bn):
            for i, (a, b, dd) in enumerate(M.get_graphs(name).edges(data=True)):
                dd["weight"] = [i]
                if (hist >> i) & 1:
                    dd[7] = "int-key"
                    dd[("t", i)] = [i]
                    dd["edge_type"] = "x"
        M.graph[7] = [1, 2]
        M.graph[("g", 0)] = {"k": []}
        M.graph["edge_type"] = "directed"
    return M, lab, inv


def neighbour(case):
    """the graph the object is first built for in a REPEAT case (same nodes; same edge counts where possible)"""
    import random
    rr = random.Random(case["rep"])
    g = case["g"]
    g0 = gr.perturb(g, rr, acyclic=True) or gr.perturb(g, rr, keep_counts=False, acyclic=True) or g
    return g0, rr


def observe(M, R, case, lab, inv):
    import networkx as nx
    out = {"type": type(R).__name__}
    orig = {lab(v) for v in case["g"]["V"]}
    out["kept"] = all(x in R for x in orig)
    out["attrs"] = all(dict(R.nodes[x]) == dict(M.nodes[x]) and
                       {k: v for k, v in R.nodes[x].items() if k != "m"} ==
                       {k: v for k, v in node_attrs(case, inv(x), 0).items() if k != "m"} for x in orig if x in R)
    out["gattrs"] = dict(R.graph) == dict(M.graph) and R.graph.get("note") == "graph-level" and "name" in R.graph and \
        (case.get("hist") is None or (R.graph.get(7) == [1, 2] and ("g", 0) in R.graph))
    lat = [x for x in R.nodes if x not in orig]
    out["D"] = sorted([inv(a), inv(b)] for a, b in R.edges if a in orig and b in orig)
    bad = []
    latents = []
    for u in lat:
        ch = list(R.successors(u))
        if list(R.predecessors(u)):
            bad.append("latent-has-parent")
        if any(c not in orig for c in ch):
            bad.append("latent-child-not-original")
        else:
            latents.append(sorted(inv(c) for c in ch))
    out["latents"] = sorted(latents)
    out["bad"] = sorted(set(bad))
    out["dag"] = bool(nx.is_directed_acyclic_graph(R))
    return out


def run_impl(case):
    import networkx as nx
    import pywhy_graphs.networkx as pywhy_nx
    from pywhy_graphs.networkx.algorithms.causal.convert import bidirected_to_unobserved_confounder
    g = case["g"]
    names = case.get("names")
    dn, bn = names or ["directed", "bidirected"]
    kw = {"directed_edge_name": dn, "bidirected_edge_name": bn} if names else {}

    def convert(Gx):
        return bidirected_to_unobserved_confounder(Gx, **kw)

    def queries(Mx, Rx):
        ds, ms = [], []
        for X, Y, Z in case["qs"]:
            X, Y, Z = ({lab(v) for v in S} for S in (X, Y, Z))
            keep = (set(X), set(Y), set(Z))
            try:
                ds.append(int(bool(nx.is_d_separator(Rx, X, Y, Z))))
            except Exception as e:  # noqa
                ds.append("exc:" + type(e).__name__)
            try:
                ms.append(int(bool(pywhy_nx.m_separated(Mx, X, Y, Z, **kw))))       # the same set objects again
            except Exception as e:  # noqa
                ms.append("exc:" + type(e).__name__)
            if (X, Y, Z) != keep:
                ms[-1] = "query-sets-mutated"
        return ds, ms

    if case.get("pre"):
        # CROSS-CALL CONTAMINATION: the API is first used on an unrelated graph with other nodes; nothing may carry over
        A = pywhy_nx.MixedEdgeGraph(graphs=[nx.DiGraph([("pre0", "U0"), ("U0", "U1")]), nx.Graph([("U1", "U7"), ("pre0", "U3")])],
                                    edge_types=["directed", "bidirected"])
        bidirected_to_unobserved_confounder(A)
        try:
            bidirected_to_unobserved_confounder(pywhy_nx.MixedEdgeGraph(graphs=[nx.DiGraph([(1, 2)])], edge_types=["directed"]))
        except Exception:  # noqa  (no bidirected layer: whatever it does, it must not leak into the next call)
            pass
    rep = case.get("rep")
    if rep is None:
        M, lab, inv = build(case)
    else:
        # REPEAT: build the object for a neighbour graph, use it (answers discarded), then turn it into g in place
        g0, rr = neighbour(case)
        M, lab, inv = build(dict(case, g=g0))
        R0 = convert(M)
        queries(M, R0)
        if rr.random() < 0.5:
            gr.morph(M, g0, g, lab, {"D": dn, "B": bn})              # edge-by-edge edits
        else:
            for name, mk, es in ((bn, nx.Graph, g["B"]), (dn, nx.DiGraph, g["D"])):   # replace the layer objects
                if name == dn and rr.random() < 0.5:
                    continue
                M.remove_edge_type(name)
                L = mk()
                L.add_edges_from((lab(a), lab(b)) for a, b in es)
                M.add_edge_type(L, name)
            # a directed layer that was not replaced still holds g0's edges: finish with in-place edits
            cur_d = {(inv(a), inv(b)) for a, b in M.get_graphs(dn).edges}
            want_d = {tuple(e) for e in g["D"]}
            for a, b in sorted(cur_d - want_d):
                M.remove_edge(lab(a), lab(b), dn)
            for a, b in sorted(want_d - cur_d):
                M.add_edge(lab(a), lab(b), dn)
    before = gr.snapshot(M)
    R = convert(M)
    out = {"mutated": gr.snapshot(M) != before}
    out.update(observe(M, R, case, lab, inv))
    out["dsep_result"], out["msep_input"] = queries(M, R)
    if case.get("iqs"):
        # DEEP cases: the model answers no queries there (too large); d-separation of the result vs m_separated of the input
        full, case["qs"] = case["qs"], case["iqs"]
        a, b = queries(M, R)
        case["qs"] = full
        out["deep_consistent"] = a == b and all(isinstance(t, int) for t in a)
        out["deep_values"] = a
    if rep is not None:
        # the caller edits the returned object; converting again (same object, and a copy of it) must still be right
        first = observe(M, R, case, lab, inv)
        for x in list(R.nodes)[:2]:
            R.remove_node(x)
        R.graph.clear()
        again = observe(M, convert(M), case, lab, inv)
        Mc = M.copy()
        copy_obs = observe(Mc, convert(Mc), case, lab, inv)
        out["second_call_same"] = again == first
        out["copy_same"] = copy_obs == first
        out["mutated"] = out["mutated"] or gr.snapshot(M) != before
        R = convert(M)
    if case.get("hist") is not None:
        # independent copies: editing every mutable attribute value of the result must not show in the input
        for dd in list(dict(R.nodes(data=True)).values()) + [R.graph]:
            for k, x in list(dd.items()):
                if isinstance(x, list):
                    x.append("edited")
                elif isinstance(x, dict):
                    x["edited"] = True
                dd[k] = x
        out["independent"] = gr.snapshot(M) == before
    return out


def compare(case, impl, model):
    if not model["model_structure_ok"]:
        return "model-structure"
    cols = [model["canon"], model["input"]] + ([model["canon_oracle"], model["input_oracle"]] if case["oracle"] else [])
    if any(c != cols[0] for c in cols):
        return "model-vs-oracle"
    if "exc" in impl:
        return "exception"
    if impl["mutated"]:
        return "argument-mutated"
    if impl["type"] != "DiGraph":
        return "result-type"
    if not impl["kept"]:
        return "nodes"
    if impl["bad"]:
        return "latent-structure"
    if impl["D"] != model["D"]:
        return "directed-edges"
    if impl["latents"] != model["latents"]:
        return "latents"
    if not impl["attrs"]:
        return "node-attributes"
    if not impl["gattrs"]:
        return "graph-attributes"
    if impl.get("independent") is False:
        return "attributes-not-independent-copies"
    if not impl["dag"]:
        return "not-a-dag"
    if impl["dsep_result"] != model["canon"]:
        return "d-separation(result)"
    if impl["msep_input"] != impl["dsep_result"]:
        return "m_separated(input)-vs-d-separation(result)"
    if impl.get("deep_consistent") is False or ("expect_iqs" in case and impl.get("deep_values") != case["expect_iqs"]):
        return "deep-queries"
    if impl.get("second_call_same") is False:
        return "second-call-after-editing-the-result"
    if impl.get("copy_same") is False:
        return "result-on-copy"
    return None


def nontrivial(case, model):
    return bool(case["g"]["B"]) and 0 in model["canon"] and 1 in model["canon"]


def key(case):
    return (gr.canon(case["g"]), case.get("fam"), case.get("rep") is not None, tuple(case.get("names") or ()),
            case.get("okind", "mixed2"), case.get("ulike") is not None, case.get("hist") is not None)


def shrink(case):
    for i in range(len(case["qs"])):
        if len(case["qs"]) > 1:
            yield dict(case, qs=[case["qs"][i]])
    for h in gr.shrink_graph(case["g"]):
        vs = set(h["V"])
        qs = [q for q in case["qs"] if all(v in vs for part in q for v in part)]
        yield dict(case, g=h, qs=qs)
