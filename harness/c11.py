"""C11 — minimal_m_separator / is_minimal_m_separator: sound, complete, minimal; x, y single nodes of any label type."""
import graphs as gr
import c12_ref as ref
import c12_unit as unit

PROP = "C11"
RULE = ("every acyclic ADMG(n) and ancestral ANC(n) graph, n<=3 quick / n<=4 thorough, every node pair (x,y) (ordered for n<=3, "
        "x<y for n=4, adjacent or not), every I inside R inside V-{x,y}, every candidate Z inside V-{x,y}; the n<=3 stream is "
        "repeated under the label families str (multi-character), tuple, char, frozenset, bigint; quick also every ANC(4) graph with an "
        "undirected edge; 60/600 seeded 5-6 node ancestral graphs with an undirected chain of >= 3 nodes; random graphs 5<=n<=7 with "
        "3 pairs, random I inside R and every Z between I and R. REPEAT stream (every n<=3 graph, a quarter of DAG(4)/ANC(4), a third of the 5-node "
        "streams, 25 % of the random graphs): the object is first built for a neighbour graph with the same node and edge counts "
        "(graphs.perturb), the same queries are run and discarded, the object is edited in place (graphs.morph) and only then judged; odd "
        "seeds also query a copy(); 5-node streams: the two-chain DAG x->i->y, x->p->q->y under all 120 labelings and 150/1500 dense "
        "5-node DAGs/ADMGs with non-empty I (some with frozenset arguments); ARGUMENT INTEGRITY in every query: the i / r / z arguments are real set objects, snapshotted before and "
        "compared after each call, the same objects are reused for a second call (answers must agree), the set returned by "
        "minimal_m_separator is fed to is_minimal_m_separator twice (must stay intact and be judged True), the documented defaults "
        "i=None / r=None are compared with the explicit sets; a third of the n<=3 graphs also as ADMG instances; "
        "custom edge-type names ('dir','bidir','undir') passed "
        "explicitly on half of the n<=3 graphs, an eighth of the 4-node and random ones. UNIT-LEVEL stream: the helpers _anterior (vs C12.Model.ant_of, Run.v mode 3) and "
        "_bfs_with_marks (vs C11.Model.marks, mode 4) called directly: every small graph x every start set / (start, check set), "
        "300/3000 graphs n=6..12 with start sets of all but 1-3 nodes densely parents of each other around a hub, random undirected "
        "graphs n=5..10 for the marks; 200/2000 separator cases of the same shape (I = almost all nodes, R = V-{x,y}); "
        "DEEP stream (2 graphs of about 200 nodes: a directed chain of 200 ancestors of x with a member "
        "of I far up the chain, an undirected chain of 200 nodes ending in a member of I) run with 120 frames of recursion head-room "
        "(HEAD is iterative there); their expectation is the Python transcription harness/c12_ref.py of the models' definitions "
        "(m-separation through the proved moralisation criterion, all minimal separators by subset enumeration), which on every other "
        "case of every run is itself compared with the extracted proved model ('reference-vs-model'); before every REPEAT case the "
        "API is first run on an unrelated graph in the same process; a slice with graph-level attributes whose keys are 2021 / "
        "'edge_types' / 'graphs'; label family obj (identity-hashed objects). distinct by (canonical graph, label family, "
        "repeat seed, layer names, argument kind, object kind); non-trivial = "
        "some query has a non-empty minimal separator and some query has none")
EXHAUSTIVE = {"quick": "ADMG(n), ANC(n) n<=3, DAG(4) and ANC(4) with an undirected edge: all (x,y), I<=R<=V-{x,y}, Z<=V-{x,y}", "thorough": "same, n<=4"}
TRUSTED = ["networkx copy / remove_node / neighbors taken at face value",
           "judgement of the returned set is by the brute-force oracle msep_dec (n<=4..5) and by the C01 model msep_model (larger)"]
ASSUMPTIONS = ["edge-type names: default, and one custom triple passed explicitly (beyond the quantifier of C11)", "acyclic directed layer (domain of C01)", "I inside R inside V-{x,y} (quantifier of C11)"]
LEVEL_TEXT = ("Coq theorems about the executable model minsep_model / is_minsep_model (transcription of the code with the repairs of "
              "fix proposals C11-02, C11-03 built in, on top of the C01 model msep_model and the C12 model of the moral graph), all "
              "closed under the global context. ALL FOUR clauses are proved UNBOUNDED (all graphs of the C01 domain: acyclic directed "
              "layer, no arrowhead at an endpoint of an undirected edge; all sizes; x<>y, I inside R inside V-{x,y}), against the Prop "
              "msep of Graph/MSep.v (m-connecting paths): minsep_sound (a returned Z has I<=Z<=R and m-separates x and y in g), "
              "minsep_none_iff (None <-> no separator between I and R), minsep_minimal (no proper subset of the returned Z containing I "
              "separates), is_minsep_exact (is_minsep_model = 1 <-> Z is such a minimal separator); c11_full states the four "
              "statements of C11/Spec.v verbatim. Ingredients proved here: anterior-restriction lemma, both halves of the moralisation "
              "criterion (C12), closest-separator arguments for the two marked BFS passes; from C01: msep_model = msep, "
              "open_walk_to_path. Additionally and independently BOUNDED by kernel computation against the oracle msep_dec with "
              "subset enumeration: all clauses for all graphs of the C01 domain on <= 3 nodes (minsep_bounded_3), the search clauses "
              "for all DAGs on 4 nodes (minsep_bounded_dag_4). REFUTED for the code as it stood: minsep_asis_unsound_refuted, "
              "minsep_asis_incomplete_refuted. Label-type clause (x, y single nodes whatever their type): by correspondence under "
              "label families int, multi-character str, tuple, char, frozenset, bigint. The implementation is tied to the model by "
              "differential correspondence on every run (tie K).")
LEVEL_NOTE = ("genuine defects found: fix proposals fixes/C11-01..03 (applied to /repo as 0e536de, 56e830f, 52db66c) and C11-04 "
              "(_anterior called without the caller's edge-type names: wrong answers on graphs with custom layer names); with them quick and "
              "thorough tiers are green. is_minimal_m_separator raising NetworkXError for a call with "
              "I not inside Z or Z not inside R is accepted as 'not True'.")
TECHNIQUE = ("Coq proof (model = spec for all four clauses, all sizes: C01 theorem, anterior restriction, moralisation criterion, closest-separator arguments) + bounded kernel computation over a verified finite enumeration with "
             "brute-force subset enumeration (n<=3; DAGs n=4) + refutation lemmas for the old behaviour + extracted-model "
             "correspondence judged by the brute-force oracle")
LABS = ["str", "tuple", "char", "frozenset", "bigint", "obj"]
SPOT_N = 12


def queries_all(nodes, ordered=True):
    qs = []
    for x in nodes:
        for y in nodes:
            if x == y or (not ordered and x > y):
                continue
            rest = [v for v in nodes if v not in (x, y)]
            zs = list(gr.subsets(rest))
            for R in gr.subsets(rest):
                for I in gr.subsets(R):
                    qs.append([x, y, I, R, zs])
    return qs


def queries_rand(nodes, rng, npairs=3):
    qs = []
    for _ in range(npairs):
        x, y = rng.sample(nodes, 2)
        rest = [v for v in nodes if v not in (x, y)]
        R = sorted(rng.sample(rest, rng.randint(0, min(5, len(rest)))))
        I = sorted(rng.sample(R, rng.randint(0, min(2, len(R)))))
        free = [v for v in R if v not in I]
        zs = [sorted(I + s) for s in gr.subsets(free)]
        out = [v for v in rest if v not in R]
        if out:
            zs.append(sorted(R + [out[0]]))      # Z not inside R
        if I:
            zs.append(sorted(free))              # I not inside Z
        qs.append([x, y, I, R, zs])
    return qs


def und_chain_graph(rng, n):
    """ancestral graph on n nodes with an undirected chain u1 - ... - uk (k = 3..n-1, plus an occasional chord); the remaining
    nodes carry random ADMG kinds among themselves and receive directed edges from chain nodes (no arrowhead at a chain node)"""
    nodes = list(range(n))
    rng.shuffle(nodes)
    k = rng.randint(3, max(3, n - 1))
    chain, rest = nodes[:k], nodes[k:]
    g = {"V": list(range(n)), "D": [], "B": [], "U": [], "C": []}
    for a, b in zip(chain, chain[1:]):
        g["U"].append(sorted([a, b]))
    if k >= 4 and rng.random() < 0.3:
        g["U"].append(sorted([chain[0], chain[2]]))
    for i, a in enumerate(rest):
        for b in rest[i + 1:]:
            r = rng.random()
            if r < 0.3:
                g["D"].append([a, b])
            elif r < 0.45:
                g["B"].append(sorted([a, b]))
    for u in chain:
        for v in rest:
            if rng.random() < 0.3:
                g["D"].append([u, v])
    return g, chain, rest


def gen_cases(tier, rng):
    nmax = 3 if tier == "quick" else 4
    small = []
    for n in range(2, nmax + 1):
        for src, kind in ((gr.enum_admg(n), "admg"), (gr.enum_anc(n), "anc")):
            for g in src:
                if kind == "anc" and not g["U"]:
                    continue
                c = {"kind": "%s%d" % (kind, n), "g": g, "qs": queries_all(g["V"], ordered=n <= 3), "oracle": True}
                if n <= 3:
                    small.append(c)
                yield c
    if tier == "quick":
        # one exhaustive 4-node class also in the quick tier (the Z' defect needs four nodes)
        for j, g in enumerate(gr.enum_dag(4)):
            c = {"kind": "dag4", "g": g, "qs": queries_all(g["V"], ordered=False), "oracle": True}
            yield c
            if j % 4 == 0:
                yield dict(c, kind="dag4:rep", rep=3000 + j)
            if j % 8 == 1:
                yield dict(c, kind="dag4:names", names=CUSTOM_NAMES)
        # ... and every 4-node ancestral graph with an undirected edge (anterior closure over undirected edges)
        for j, g in enumerate(gr.enum_anc(4)):
            if g["U"]:
                c = {"kind": "anc4", "g": g, "qs": queries_all(g["V"], ordered=False), "oracle": True}
                yield c
                if j % 4 == 0:
                    yield dict(c, kind="anc4:rep", rep=4000 + j)
                if j % 8 == 1:
                    yield dict(c, kind="anc4:names", names=CUSTOM_NAMES)
    # undirected chains: anterior nodes reachable only over two or more consecutive undirected edges
    for i in range(60 if tier == "quick" else 600):
        n = rng.randint(5, 6)
        g, chain, rest = und_chain_graph(rng, n)
        qs = queries_rand(g["V"], rng, npairs=2)
        x, y = chain[0], (chain[-1] if i % 2 == 0 or not rest else rest[-1])
        others = [v for v in g["V"] if v not in (x, y)]
        qs.append([x, y, [], others, [list(z) for z in gr.subsets(others)]])
        yield {"kind": "undchain", "g": g, "qs": qs, "oracle": True}
    # UNIT level: the helpers _anterior and _bfs_with_marks called directly
    yield from unit.unit_cases(tier, rng, marks=True, nmax_ant=3 if tier == "quick" else 4)
    # the large-I shape: {x, y} ∪ I = almost all nodes, densely parents of each other, R = V - {x, y}
    for i in range(200 if tier == "quick" else 2000):
        n = rng.randint(6, 8)
        g, S = unit.hub_dag(rng, n)
        qs = []
        for _ in range(3):
            x, y = rng.sample(S, 2)
            I = [v for v in S if v not in (x, y)]
            rest = [v for v in g["V"] if v not in S]
            zs = [sorted(I + z) for z in gr.subsets(rest)] + [sorted(I[1:] + rest)]
            qs.append([x, y, I, sorted(I + rest), zs])
        c = {"kind": "hub", "g": g, "qs": qs, "oracle": False}
        if i % 3 == 1:
            c["_order"] = i
        yield c
    # DEEP stream: recursion head-room of 120 frames, expectation from the Python transcription of the model
    for name, g, qs in deep_cases():
        yield {"kind": "deep:" + name, "g": g, "qs": qs, "oracle": False, "deep": name, "_reclimit": 120}
    # graph-level attributes with awkward keys
    for j, c in enumerate(small):
        if j % 5 == 2:
            yield dict(c, kind=c["kind"] + ":gattr", gattr=True)
    # REPEAT stream: warm-up on a neighbour graph, in-place edit of the same object, then the judged queries
    for j, c in enumerate(small):
        yield dict(c, kind=c["kind"] + ":rep", rep=1000 + j)
    # object kinds: the same queries on an ADMG instance (every third with a warm-up and an in-place edit)
    for j, c in enumerate(small):
        if j % 3 == 1:
            yield dict(c, kind=c["kind"] + ":admg", obj="admg", **({"rep": 2000 + j} if j % 9 == 1 else {}))
    # custom edge-type names passed explicitly (beyond the property's quantifier; cheap)
    for j, c in enumerate(small):
        if j % 2 == 0:
            yield dict(c, kind=c["kind"] + ":names", names=CUSTOM_NAMES)
    # 5-node shapes: two parallel directed chains x -> i -> y, x -> p -> q -> y under every labelling of 0..4, I non-empty
    import itertools as _it
    for j, perm in enumerate(_it.permutations(range(5))):
        x, i1, y, p1, q1 = perm
        g = gr.G(range(5), D=[(x, i1), (i1, y), (x, p1), (p1, q1), (q1, y)])
        rest = [i1, p1, q1]
        qs = [[x, y, [v], rest, [sorted(z) for z in gr.subsets(rest) if v in z]] for v in rest]
        qs.append([x, y, [], rest, [sorted(z) for z in gr.subsets(rest)]])
        c = {"kind": "chains5", "g": g, "qs": qs, "oracle": True, "_order": j}
        if j % 3 == 0:
            c["rep"] = 5000 + j
        yield c
    # dense 5-node DAGs / ADMGs with non-empty I (several parents, most of V anterior)
    for j in range(150 if tier == "quick" else 1500):
        kinds = gr.DAG_KINDS if j % 2 == 0 else gr.ADMG_KINDS
        g = gr.random_kinds_graph(rng, 5, kinds, p_edge=rng.choice([0.5, 0.7]))
        qs = []
        for _ in range(4):
            x, y = rng.sample(g["V"], 2)
            rest = [v for v in g["V"] if v not in (x, y)]
            I = sorted(rng.sample(rest, rng.randint(1, 2)))
            qs.append([x, y, I, rest, [sorted(z) for z in gr.subsets(rest) if set(I) <= set(z)]])
        c = {"kind": "dense5", "g": g, "qs": qs, "oracle": True, "_order": j}
        if j % 4 == 0:
            c["rep"] = 7000 + j
        if j % 5 == 1:
            c["argkind"] = "frozenset"
        yield c
    # label families: the failure "node used as an iterable" depends on the label type
    for j, c in enumerate(small):
        for lab in LABS:
            if tier == "thorough" or (j + LABS.index(lab)) % 3 == 0:
                yield dict(c, kind=c["kind"] + ":" + lab, _lab=lab)
    nr = 120 if tier == "quick" else 1500
    for i in range(nr):
        n = rng.randint(5, 7)
        kinds = gr.ADMG_KINDS if rng.random() < 0.5 else gr.ANC_KINDS
        g = gr.random_kinds_graph(rng, n, kinds, p_edge=rng.choice([0.2, 0.3, 0.45]),
                                  pred=gr.ancestral_und_ok if kinds is gr.ANC_KINDS else None)
        c = {"kind": "rand", "g": g, "qs": queries_rand(g["V"], rng), "oracle": n <= 6}
        if i % 4 == 3:
            c["_lab"] = LABS[(i // 4) % len(LABS)]
        if i % 4 == 1:
            c["rep"] = 9000 + i
        if i % 8 == 2:
            c["names"] = CUSTOM_NAMES
        yield c


def encode(case):
    if case.get("unit"):
        return unit.encode(case)
    if case.get("deep"):
        return [1, gr.enc(gr.G([])), []]      # too long for the round-based Gallina closures: expectation from c12_ref
    return [0 if case["oracle"] else 1, gr.enc(case["g"]), case["qs"]]


def decode(case, v):
    if case.get("unit"):
        return unit.decode(case, v)
    out = []
    if case.get("deep"):
        for x, y, I, R, Zs in case["qs"]:
            mins = ref.minimal_seps(case["g"], x, y, I, R)
            out.append({"minsep": mins[0] if mins else None, "mins_model": mins, "mins_oracle": None, "ref": "only",
                        "ismin": [e[0] for e in _expected_ismin([x, y, I, R, Zs], mins)]})
        return out
    for r in v:
        out.append({"minsep": (r[0][0] if r[0] else None), "mins_model": sorted(r[1]),
                    "mins_oracle": sorted(r[2]) if case["oracle"] else None, "ismin": r[3]})
    return out


def deep_cases():
    """long anterior chains (about 200-250 nodes): a directed chain into x, a member of I far up that chain, an undirected
    chain that ends in a member of I"""
    # 1. a_k -> ... -> a_1 -> x, a_5 -> y, x -> m -> y
    k = 200
    x, y, m = 0, 1, 2
    a = [None] + list(range(3, 3 + k))                # a[1..k]
    D = [[a[1], x]] + [[a[j + 1], a[j]] for j in range(1, k)] + [[a[5], y], [x, m], [m, y]]
    g = gr.G(range(3 + k), D=D)
    R = [m, a[1], a[3], a[150]]
    zs = [[m, a[1]], [m, a[3]], [m], [m, a[1], a[3]], [m, a[150]]]
    yield "directed-chain", g, [[x, y, [], R, zs], [x, y, [a[150]], R, [[m, a[1], a[150]], [m, a[150]], [m, a[1]]]],
                                [a[180], y, [], [a[100], a[2], m, x], [[a[100]], [a[2]], [x], [a[100], a[2]]]]]
    # 2. u_k - ... - u_1 - i, i -> y, u_100 -> x, x -> m -> y, I = {i}
    k = 200
    x, y, m, i = 0, 1, 2, 3
    u = [None] + list(range(4, 4 + k))
    g = gr.G(range(4 + k), D=[[i, y], [u[100], x], [x, m], [m, y]], U=[[u[1], i]] + [[u[j], u[j + 1]] for j in range(1, k)])
    R = [m, i, u[50], u[150]]
    yield "undirected-chain", g, [[x, y, [i], R, [[i, m], [i, m, u[50]], [i]]], [x, y, [], R, [[m, i], [m, u[50]], [m]]],
                                  [u[200], y, [], [i, u[7]], [[i], [u[7]], [i, u[7]]]]]


CUSTOM_NAMES = ["dir", "bidir", "undir"]


def build(g, case):
    """MixedEdgeGraph for g; case["names"] = custom layer names [directed, bidirected, undirected] (passed explicitly to the API)"""
    names = case.get("names")
    if case.get("obj") == "admg":
        M, lab, inv = gr.to_admg(g, case)          # an ADMG instance (its three layers) where a MixedEdgeGraph is expected
        return M, lab, inv, {}, {k: n for k, n in gr.LAYER_NAMES.items() if k in "DBU"}
    if not names:
        M, lab, inv = gr.to_mixed(g, case)
        return M, lab, inv, {}, dict(gr.LAYER_NAMES)
    import networkx as nx
    import pywhy_graphs.networkx as pywhy_nx
    M = pywhy_nx.MixedEdgeGraph(graphs=[nx.DiGraph(), nx.Graph(), nx.Graph()], edge_types=list(names))
    lmap = {"D": names[0], "B": names[1], "U": names[2]}
    lab, inv = gr._fill(M, g, case, lmap)
    kw = {"directed_edge_name": names[0], "bidirected_edge_name": names[1], "undirected_edge_name": names[2]}
    return M, lab, inv, kw, lmap


def _queries(M, lab, inv, kw, qs, argkind=None):
    """every set argument is a real object that is snapshotted before and compared after each call; the same Z object is
    used for two consecutive calls, and the set returned by minimal_m_separator is fed to is_minimal_m_separator twice"""
    import networkx as nx
    import pywhy_graphs.networkx as pywhy_nx
    mk = frozenset if argkind == "frozenset" else set
    res = []

    def ismin(Zs, Is, Rs):
        try:
            return int(bool(pywhy_nx.is_minimal_m_separator(M, lx, ly, Zs, i=Is, r=Rs, **kw)))
        except nx.NetworkXError:
            return 2
        except Exception as e:  # noqa
            return "exc:" + type(e).__name__

    for x, y, I, R, Zs in qs:
        lx, ly = lab(x), lab(y)
        Iset, Rset = mk(lab(v) for v in I), mk(lab(v) for v in R)
        I0, R0 = frozenset(Iset), frozenset(Rset)
        integ = []
        try:
            z = pywhy_nx.minimal_m_separator(M, lx, ly, i=Iset, r=Rset, **kw)
            ms = None if z is None else sorted(inv(v) for v in z)
        except Exception as e:  # noqa
            z, ms = None, "exc:" + type(e).__name__
        if Iset != I0 or Rset != R0:
            integ.append("minimal_m_separator changed its i / r argument")
        if z is not None and (z is Iset or z is Rset):
            integ.append("minimal_m_separator returned one of its argument objects")
        if not I and set(R) == set(inv(v) for v in M.nodes) - {x, y}:
            # the documented defaults: i=None -> empty, r=None -> all nodes
            try:
                zd = pywhy_nx.minimal_m_separator(M, lx, ly, **kw)
                msd = None if zd is None else sorted(inv(v) for v in zd)
            except Exception as e:  # noqa
                msd = "exc:" + type(e).__name__
            if (msd is None) != (ms is None) or isinstance(msd, str) != isinstance(ms, str):
                integ.append("defaults i=None, r=None answer differently from the explicit sets")
        if isinstance(z, (set, frozenset)):
            # round trip on the very object that was returned, twice
            z0 = frozenset(z)
            b1 = ismin(z, Iset, Rset)
            if z != z0:
                integ.append("is_minimal_m_separator changed the Z object returned by minimal_m_separator")
            b2 = ismin(z, Iset, Rset)
            if (b1, b2) != (1, 1):
                integ.append("round trip: returned Z judged %r then %r" % (b1, b2))
        ism = []
        for Z in Zs:
            Zset = mk(lab(v) for v in Z)
            Z0 = frozenset(Zset)
            b = ismin(Zset, Iset, Rset)
            if Zset != Z0 or Iset != I0 or Rset != R0:
                integ.append("is_minimal_m_separator changed its z / i / r argument")
                Zset = mk(Z0) if Zset != Z0 else Zset
                Iset, Rset = mk(I0), mk(R0)
            elif argkind != "frozenset":
                b2 = ismin(Zset, Iset, Rset)      # the same objects again
                if b2 != b:
                    integ.append("second call with the same argument objects: %r then %r" % (b, b2))
            ism.append(b)
        res.append({"minsep": ms, "ismin": ism, "integrity": sorted(set(integ))})
    return res


def run_impl(case):
    if case.get("unit"):
        return unit.run_impl(case)
    import random
    g = case["g"]
    rep = case.get("rep")
    g0 = unit.legal_neighbour(g, rep, guarded=case.get("obj") == "pag")
    if rep is not None:
        # CROSS-CALL: first the API on an unrelated graph (nodes the target lacks, two layers only) in the same process
        import pywhy_graphs.networkx as pywhy_nx
        A, labA, invA = gr.to_mixed(gr.G([90, 91, 92, 93], D=[[90, 92], [92, 91]], B=[[92, 93]]), None,
                                    layers=("directed", "bidirected"))
        pywhy_nx.minimal_m_separator(A, 90, 91)
        pywhy_nx.is_minimal_m_separator(A, 90, 91, {92})
    if g0 is not None:
        # REPEAT: warm up on a neighbour graph (same node and edge counts), edit the SAME object in place, then judge
        M, lab, inv, kw, lmap = build(g0, case)
        for v in g["V"]:
            lab(v)
        _queries(M, lab, inv, kw, case["qs"], case.get("argkind"))
        unit.morph(M, g0, g, lab, lmap)
    else:
        M, lab, inv, kw, lmap = build(g, case)
    if case.get("gattr"):
        # legal networkx graph attributes: a non-string key and keys that look like constructor arguments
        M.graph[2021] = "user data"
        M.graph["edge_types"] = "user data"
        M.graph["graphs"] = "user data"
    before = gr.snapshot(M)
    res = _queries(M, lab, inv, kw, case["qs"], case.get("argkind"))
    out = {"res": res, "mutated": gr.snapshot(M) != before}
    if not case.get("deep"):
        # pure Python transcription of the model (c12_ref), compared with the extracted model in compare()
        out["ref"] = [ref.minimal_seps(g, q[0], q[1], q[2], q[3]) for q in case["qs"]]
    if rep is not None and rep % 2 == 1:
        # the same queries on a copy taken after the warm-up must agree
        out["copy_differs"] = _queries(M.copy(), lab, inv, kw, case["qs"], case.get("argkind")) != res
    return out


def _expected_ismin(q, mins):
    x, y, I, R, Zs = q
    exp = []
    for Z in Zs:
        if not (set(I) <= set(Z) <= set(R)):
            exp.append((0, 2))          # not True: False or the NetworkXError the code raises for a malformed call
        else:
            exp.append((1,) if sorted(Z) in mins else (0,))
    return exp


def _query_diffs(case, impl, model):
    """list of (query index, observable, detail)"""
    out = []
    for k, (q, m) in enumerate(zip(case["qs"], model)):
        mins = m["mins_oracle"] if m["mins_oracle"] is not None else m["mins_model"]
        if m["mins_oracle"] is not None and m["mins_oracle"] != m["mins_model"]:
            out.append((k, "model-vs-oracle", "msep_model"))
        if (m["minsep"] is None) != (not mins) or (m["minsep"] is not None and m["minsep"] not in mins):
            out.append((k, "model-vs-oracle", "minsep_model"))
        exp = _expected_ismin(q, mins)
        if any(c not in e for c, e in zip(m["ismin"], exp)):
            out.append((k, "model-vs-oracle", "is_minsep_model"))
        if impl is None:
            continue
        r = impl["res"][k]
        z = r["minsep"]
        if isinstance(z, str):
            out.append((k, "minsep", z))
        elif z is None:
            if mins:
                out.append((k, "minsep", "none-but-separator-exists"))
        elif z not in mins:
            x, y, I, R, _ = q
            if not (set(I) <= set(z) <= set(R)):
                out.append((k, "minsep", "not-between-I-and-R"))
            elif not mins or not any(set(s) <= set(z) for s in mins):
                out.append((k, "minsep", "not-a-separator"))
            else:
                out.append((k, "minsep", "not-minimal-or-not-separator"))
        for c, e in zip(r["ismin"], exp):
            if c not in e:
                out.append((k, "is_minimal", c if isinstance(c, str) else "%d-expected-%d" % (c, e[0])))
                break
    return out


def compare(case, impl, model):
    if case.get("unit"):
        return unit.compare(case, impl, model)
    if "exc" in impl:
        return "exception"
    d = _query_diffs(case, impl, model)
    for k, obs, det in d:
        if obs == "model-vs-oracle":
            return obs
    if "ref" in impl and impl["ref"] != [m["mins_model"] for m in model]:
        return "reference-vs-model"
    if d:
        return d[0][1]
    if impl["mutated"]:
        return "argument-mutated"
    if any(r.get("integrity") for r in impl["res"]):
        return "argument-integrity"
    if impl.get("copy_differs"):
        return "copy-after-warm-up"
    return None


def classify(case, impl, model):
    """failure classes (used to separate replays per defect)"""
    if case.get("unit"):
        return unit.compare(case, impl, model)
    if "exc" in impl:
        return None
    d = _query_diffs(case, impl, model)
    if "ref" in impl and impl["ref"] != [m["mins_model"] for m in model]:
        return None
    if d and case.get("deep"):
        return "deep:" + str(case["deep"]) + ":" + d[0][1] + ":" + d[0][2]
    if not d:
        for r in impl["res"]:
            if r.get("integrity"):
                return "argument-integrity:" + r["integrity"][0].split(":")[0]
    if not d or any(o == "model-vs-oracle" for _, o, _ in d):
        return None
    k, obs, det = d[0]
    if case.get("names"):
        return "custom-edge-type-names:" + obs + ":" + det
    if case.get("rep") is not None:
        return "second-call-on-edited-object:" + obs + ":" + det
    if det.startswith("exc:"):
        return "m_separated-call:node-passed-as-set:" + det[4:]
    if obs == "minsep":
        return "minimal_m_separator:" + det
    return "is_minimal_m_separator:" + det


def nontrivial(case, model):
    if case.get("unit"):
        return unit.nontrivial(case, model)
    some = any(any(len(s) > 0 for s in m["mins_model"]) for m in model)
    none = any(not m["mins_model"] for m in model)
    return some and none


def key(case):
    if case.get("unit"):
        return (case["unit"], gr.canon(case["g"]), case.get("_order"), len(case.get("starts", case.get("qs", []))))
    return (gr.canon(case["g"]), case.get("_lab", "int"), case.get("rep"), tuple(case.get("names") or ()), case.get("argkind"),
            case.get("obj"), case.get("gattr"))


def shrink(case):
    if case.get("unit"):
        yield from unit.shrink(case)
        return
    if len(case["qs"]) > 1:
        for i in range(len(case["qs"])):
            yield dict(case, qs=[case["qs"][i]])
    for q in case["qs"][:1]:
        if len(q[4]) > 1:
            for Z in q[4]:
                yield dict(case, qs=[q[:4] + [[Z]]])
    for h in gr.shrink_graph(case["g"]):
        vs = set(h["V"])
        qs = [q for q in case["qs"] if q[0] in vs and q[1] in vs and all(v in vs for v in q[2] + q[3])
              and all(v in vs for Z in q[4] for v in Z)]
        if qs:
            yield dict(case, g=h, qs=qs)
