"""C11 — minimal_m_separator / is_minimal_m_separator: sound, complete, minimal; x, y single nodes of any label type."""
import graphs as gr

PROP = "C11"
RULE = ("every acyclic ADMG(n) and ancestral ANC(n) graph, n<=3 quick / n<=4 thorough, every node pair (x,y) (ordered for n<=3, "
        "x<y for n=4, adjacent or not), every I inside R inside V-{x,y}, every candidate Z inside V-{x,y}; the n<=3 stream is "
        "repeated under the label families str (multi-character), tuple, char, frozenset, bigint; random graphs 5<=n<=7 with "
        "3 pairs, random I inside R and every Z between I and R. distinct by (canonical graph, label family); non-trivial = "
        "some query has a non-empty minimal separator and some query has none")
EXHAUSTIVE = {"quick": "ADMG(n), ANC(n) n<=3 and DAG(4): all (x,y), I<=R<=V-{x,y}, Z<=V-{x,y}", "thorough": "same, n<=4"}
TRUSTED = ["networkx copy / remove_node / neighbors taken at face value",
           "judgement of the returned set is by the brute-force oracle msep_dec (n<=4..5) and by the C01 model msep_model (larger)"]
ASSUMPTIONS = ["default edge-type names", "acyclic directed layer (domain of C01)", "I inside R inside V-{x,y} (quantifier of C11)"]
LEVEL_TEXT = ""
LEVEL_NOTE = ""
TECHNIQUE = ""
LABS = ["str", "tuple", "char", "frozenset", "bigint"]
SPOT_N = 12


def queries_all(nodes, ordered=True):
    qs = []
    for x in nodes:
        for y in nodes:
            if x == y or (not ordered and x > y):
                continue
            rest = [v for v in nodes if v not in (x, y)]
            zs = list(gr.subsets(rest))
            for R in gr.subsets(rest):
                for I in gr.subsets(R):
                    qs.append([x, y, I, R, zs])
    return qs


def queries_rand(nodes, rng, npairs=3):
    qs = []
    for _ in range(npairs):
        x, y = rng.sample(nodes, 2)
        rest = [v for v in nodes if v not in (x, y)]
        R = sorted(rng.sample(rest, rng.randint(0, min(5, len(rest)))))
        I = sorted(rng.sample(R, rng.randint(0, min(2, len(R)))))
        free = [v for v in R if v not in I]
        zs = [sorted(I + s) for s in gr.subsets(free)]
        out = [v for v in rest if v not in R]
        if out:
            zs.append(sorted(R + [out[0]]))      # Z not inside R
        if I:
            zs.append(sorted(free))              # I not inside Z
        qs.append([x, y, I, R, zs])
    return qs


def gen_cases(tier, rng):
    nmax = 3 if tier == "quick" else 4
    small = []
    for n in range(2, nmax + 1):
        for src, kind in ((gr.enum_admg(n), "admg"), (gr.enum_anc(n), "anc")):
            for g in src:
                if kind == "anc" and not g["U"]:
                    continue
                c = {"kind": "%s%d" % (kind, n), "g": g, "qs": queries_all(g["V"], ordered=n <= 3), "oracle": True}
                if n <= 3:
                    small.append(c)
                yield c
    if tier == "quick":
        # one exhaustive 4-node class also in the quick tier (the Z' defect needs four nodes)
        for g in gr.enum_dag(4):
            yield {"kind": "dag4", "g": g, "qs": queries_all(g["V"], ordered=False), "oracle": True}
    # label families: the failure "node used as an iterable" depends on the label type
    for j, c in enumerate(small):
        for lab in LABS:
            if tier == "thorough" or (j + LABS.index(lab)) % 3 == 0:
                yield dict(c, kind=c["kind"] + ":" + lab, _lab=lab)
    nr = 120 if tier == "quick" else 1500
    for i in range(nr):
        n = rng.randint(5, 7)
        kinds = gr.ADMG_KINDS if rng.random() < 0.5 else gr.ANC_KINDS
        g = gr.random_kinds_graph(rng, n, kinds, p_edge=rng.choice([0.2, 0.3, 0.45]),
                                  pred=gr.ancestral_und_ok if kinds is gr.ANC_KINDS else None)
        c = {"kind": "rand", "g": g, "qs": queries_rand(g["V"], rng), "oracle": n <= 6}
        if i % 4 == 3:
            c["_lab"] = LABS[(i // 4) % len(LABS)]
        yield c


def encode(case):
    return [0 if case["oracle"] else 1, gr.enc(case["g"]), case["qs"]]


def decode(case, v):
    out = []
    for r in v:
        out.append({"minsep": (r[0][0] if r[0] else None), "mins_model": sorted(r[1]),
                    "mins_oracle": sorted(r[2]) if case["oracle"] else None, "ismin": r[3]})
    return out


def run_impl(case):
    import networkx as nx
    import pywhy_graphs.networkx as pywhy_nx
    M, lab, inv = gr.to_mixed(case["g"], case)
    before = gr.snapshot(M)
    res = []
    for x, y, I, R, Zs in case["qs"]:
        try:
            z = pywhy_nx.minimal_m_separator(M, lab(x), lab(y), i={lab(v) for v in I}, r={lab(v) for v in R})
            ms = None if z is None else sorted(inv(v) for v in z)
        except Exception as e:  # noqa
            ms = "exc:" + type(e).__name__
        ism = []
        for Z in Zs:
            try:
                b = pywhy_nx.is_minimal_m_separator(M, lab(x), lab(y), {lab(v) for v in Z},
                                                    i={lab(v) for v in I}, r={lab(v) for v in R})
                ism.append(int(bool(b)))
            except nx.NetworkXError:
                ism.append(2)
            except Exception as e:  # noqa
                ism.append("exc:" + type(e).__name__)
        res.append({"minsep": ms, "ismin": ism})
    return {"res": res, "mutated": gr.snapshot(M) != before}


def _expected_ismin(q, mins):
    x, y, I, R, Zs = q
    exp = []
    for Z in Zs:
        if not (set(I) <= set(Z) <= set(R)):
            exp.append((0, 2))          # not True: False or the NetworkXError the code raises for a malformed call
        else:
            exp.append((1,) if sorted(Z) in mins else (0,))
    return exp


def _query_diffs(case, impl, model):
    """list of (query index, observable, detail)"""
    out = []
    for k, (q, m) in enumerate(zip(case["qs"], model)):
        mins = m["mins_oracle"] if m["mins_oracle"] is not None else m["mins_model"]
        if m["mins_oracle"] is not None and m["mins_oracle"] != m["mins_model"]:
            out.append((k, "model-vs-oracle", "msep_model"))
        if (m["minsep"] is None) != (not mins) or (m["minsep"] is not None and m["minsep"] not in mins):
            out.append((k, "model-vs-oracle", "minsep_model"))
        exp = _expected_ismin(q, mins)
        if any(c not in e for c, e in zip(m["ismin"], exp)):
            out.append((k, "model-vs-oracle", "is_minsep_model"))
        if impl is None:
            continue
        r = impl["res"][k]
        z = r["minsep"]
        if isinstance(z, str):
            out.append((k, "minsep", z))
        elif z is None:
            if mins:
                out.append((k, "minsep", "none-but-separator-exists"))
        elif z not in mins:
            x, y, I, R, _ = q
            if not (set(I) <= set(z) <= set(R)):
                out.append((k, "minsep", "not-between-I-and-R"))
            elif not mins or not any(set(s) <= set(z) for s in mins):
                out.append((k, "minsep", "not-a-separator"))
            else:
                out.append((k, "minsep", "not-minimal-or-not-separator"))
        for c, e in zip(r["ismin"], exp):
            if c not in e:
                out.append((k, "is_minimal", c if isinstance(c, str) else "%d-expected-%d" % (c, e[0])))
                break
    return out


def compare(case, impl, model):
    if "exc" in impl:
        return "exception"
    d = _query_diffs(case, impl, model)
    for k, obs, det in d:
        if obs == "model-vs-oracle":
            return obs
    if d:
        return d[0][1]
    if impl["mutated"]:
        return "argument-mutated"
    return None


def classify(case, impl, model):
    """failure classes (used to separate replays per defect)"""
    if "exc" in impl:
        return None
    d = _query_diffs(case, impl, model)
    if not d or any(o == "model-vs-oracle" for _, o, _ in d):
        return None
    k, obs, det = d[0]
    if det.startswith("exc:"):
        return "m_separated-call:node-passed-as-set:" + det[4:]
    if obs == "minsep":
        return "minimal_m_separator:" + det
    return "is_minimal_m_separator:" + det


def nontrivial(case, model):
    some = any(any(len(s) > 0 for s in m["mins_model"]) for m in model)
    none = any(not m["mins_model"] for m in model)
    return some and none


def key(case):
    return (gr.canon(case["g"]), case.get("_lab", "int"))


def shrink(case):
    if len(case["qs"]) > 1:
        for i in range(len(case["qs"])):
            yield dict(case, qs=[case["qs"][i]])
    for q in case["qs"][:1]:
        if len(q[4]) > 1:
            for Z in q[4]:
                yield dict(case, qs=[q[:4] + [[Z]]])
    for h in gr.shrink_graph(case["g"]):
        vs = set(h["V"])
        qs = [q for q in case["qs"] if q[0] in vs and q[1] in vs and all(v in vs for v in q[2] + q[3])
              and all(v in vs for Z in q[4] for v in Z)]
        if qs:
            yield dict(case, g=h, qs=qs)
