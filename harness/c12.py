"""C12 — mixed_edge_moral_graph: adjacency = collider-connectedness; nodes kept."""
import itertools
import graphs as gr
import c12_ref as ref
import c12_unit as unit

PROP = "C12"
RULE = ("every acyclic ADMG(n) and ancestral graph with undirected edges ANC(n) (all per-pair edge kinds), "
        "n<=3 quick / n<=4 thorough (quick adds DAG(4) and all bidirected-only / undirected-only graphs on 4 nodes), plus seeded "
        "random graphs n<=8 and 60/600 seeded 5-6 node ancestral graphs with an undirected chain (quick also all ANC(4) with an "
        "undirected edge); every graph also as a MixedEdgeGraph from which edgeless layers are absent (all subsets); per graph all "
        "disjoint (X,Y,Z) with |X|,|Y|<=2 for the criterion (20 sampled for random graphs); plain DAGs also against "
        "networkx.moral_graph; REPEAT stream (every n<=3 graph, a slice of the 4-node classes, half of the 150/1500 "
        "large-district graphs with 5-7 nodes, 25 % of the random graphs): object built for a neighbour graph with the same counts, "
        "observed once and discarded, edited in place to the target graph, then judged; afterwards the RETURNED moral graph is edited "
        "(an edge and a node removed) and the call repeated, and a copy() of the input is observed too; the empty graph; a third of those graphs also as ADMG "
        "instances and ancestral ones as PAG instances (moral graph only); custom edge-type names "
        "('dir','bidir','undir') passed explicitly to mixed_edge_moral_graph, _anterior, m_separated on a third of those and an eighth "
        "of the random graphs. UNIT-LEVEL stream: the helper _anterior called directly and compared with C12.Model.ant_of "
        "(Run.v mode 3) on every graph with directed/undirected edges on <= 4 nodes x every start set and on 300/3000 graphs n=6..12 whose "
        "start set holds all but 1-3 nodes, densely parents/neighbours of each other around a hub, the other nodes hanging on single "
        "start nodes, under several insertion orders; 250/2500 criterion cases of the same shape (Z = almost all nodes); "
        "LARGE-DISTRICT stream: one bidirected district of 16-24 (thorough: 16-40) nodes (binomial trees in 'tournament' "
        "node/edge order - pairs, pairs of pairs, ... -, natural and reverse order, balanced binary merges, paths, random trees) with 1-3 "
        "directed parents, node order and edge order as listed plus shuffled variants, and 12/60 graphs with two or three such districts "
        "side by side and interleaved; expectation = the extracted proved model (brute-force oracle off); "
        "DEEP stream (3 graphs of 200-280 nodes: district chain p->c0<->...<->c199<-q with "
        "side branches, long directed + undirected anterior chains, ladder of 70 districts) run with 120 frames of recursion head-room "
        "(HEAD is iterative there); their expectation is the Python transcription harness/c12_ref.py of the model's definitions, which "
        "on every other case of every run is itself compared with the extracted proved model ('reference-vs-model'); before every "
        "REPEAT case the API is first run on an unrelated graph in the same process (cross-call contamination); slices with "
        "identity-hashed label objects and with graph-level attributes whose keys are 2021 / 'edge_types' / 'graphs'. "
        "distinct by (canonical graph, layers present, repeat seed, layer names, object kind, label family); non-trivial = the moral graph has an edge that is "
        "not an edge of the input skeleton")
EXHAUSTIVE = {"quick": "all ADMG(n), ANC(n) n<=3, DAG(4), bidirected-only and undirected-only graphs on 4 nodes; all layer-absent variants", "thorough": "all ADMG(n), ANC(n) n<=4; all layer-absent variants"}
TRUSTED = ["networkx compose / connected_components / predecessors / node_connected_component taken at face value",
           "Graph/MSep.v (definition of m-separation by m-connecting paths) and Graph/MSepDec.v (msep_dec reflects it, proved)"]
LEVEL_TEXT = ("Coq theorems about the executable model (moral_adj / moral_edges / moral_sep), all closed under the global context. "
              "BOTH clauses of the property are proved UNBOUNDED (all graphs of the C01 domain, all sizes): moral_adjacency (adjacent in "
              "the moral graph <-> joined by an edge or by a simple path whose inner nodes are all colliders), moral_nodes / "
              "moral_edges_spec / moral_graph_adjacent (exactly G's nodes; the edge list is that relation), moral_dag_is_nx (no "
              "bidirected edge: skeleton + married co-parents = networkx.moral_graph), and the separation criterion moral_criterion / "
              "moral_criterion_full: for an acyclic directed layer, no arrowhead at an endpoint of an undirected edge and pairwise "
              "disjoint X, Y, Z inside V: msep g X Y Z (m-connecting paths, Graph/MSep.v) <-> Z is a vertex cut between X and Y in the "
              "moral graph of the subgraph induced by the anterior closure of X, Y, Z. Halves: moral_criterion_fwd (vertex cut => "
              "m-separated; path stays in the anterior subgraph, collider sections collapse to moral edges) and moral_criterion_bwd "
              "(m-separated => vertex cut; open-walk construction with re-routing of colliders that are not ancestors of Z, then "
              "Graph/Walks.open_walk_to_path). Additionally and independently BOUNDED by kernel computation (vm_compute): the same "
              "criterion for all graphs of the C01 domain on <= 3 nodes and the single-edge class on 4 nodes "
              "(moral_criterion_bounded_3 / _anc_4 / _dag_4). The implementation is tied to the model by differential "
              "correspondence on every run (tie K).")
LEVEL_NOTE = ("the model is the repaired rule (clique on district + its parents), /repo carries the fix f7202d6; statements quantify over "
              "sorted duplicate-free node subsets (Base.ListSet.sublists) of 0..n-1 and kind lists (C12/Enum.v); the circle layer is "
              "not part of the moral graph (domain of C01 has none)")
TECHNIQUE = ("Coq proof (model = spec for both clauses, all sizes: path surgery, closure lemmas, open-walk re-routing) + bounded kernel computation over a verified "
             "finite enumeration (criterion, n<=3, n=4 single-edge class) + extracted-model correspondence (OCaml extraction, "
             "vm_compute spot checks)")
SPOT_N = 25
ASSUMPTIONS = ["edge-type names: default, and one custom triple passed explicitly (beyond the quantifier of C12)", "int node labels (label families are C15's job)"]


def queries(nodes, maxxy=2, rng=None, limit=None):
    """all pairwise disjoint (X, Y, Z), X and Y non-empty with at most maxxy members, X < Y (the criterion is symmetric)"""
    qs = []
    nodes = list(nodes)
    for rx in range(1, maxxy + 1):
        for X in itertools.combinations(nodes, rx):
            rest = [v for v in nodes if v not in X]
            for ry in range(1, maxxy + 1):
                for Y in itertools.combinations(rest, ry):
                    if X > Y:
                        continue
                    rest2 = [v for v in rest if v not in Y]
                    for Z in gr.subsets(rest2):
                        qs.append([list(X), list(Y), Z])
    if limit and len(qs) > limit:
        qs = rng.sample(qs, limit)
    return qs


ALL_LAYERS = ["directed", "bidirected", "undirected"]


def layer_variants(g):
    """all three layers present, and every way of leaving out layers that carry no edge (the code branches on
    `name in G.edge_types`)"""
    empty = [name for name, k in (("directed", "D"), ("bidirected", "B"), ("undirected", "U")) if not g[k]]
    for r in range(len(empty) + 1):
        for drop in itertools.combinations(empty, r):
            layers = [name for name in ALL_LAYERS if name not in drop]
            if layers:
                yield layers


def with_layers(case, g, full=True):
    """the case itself and its layer-absent variants (full=False: one variant chosen by the graph's shape)"""
    vs = list(layer_variants(g))
    if not full and len(vs) > 2:
        vs = [vs[0], vs[1 + (len(g["D"]) + len(g["B"]) + 2 * len(g["U"])) % (len(vs) - 1)]]
    for layers in vs:
        c = dict(case)
        if layers != ALL_LAYERS:
            c["layers"] = layers
            c["kind"] = case["kind"] + ":-" + "".join(n[0] for n in ALL_LAYERS if n not in layers)
        yield c


def und_chain_graph(rng, n):
    """ancestral graph on n nodes with an undirected chain u1 - ... - uk (k = 3..n-1, plus an occasional chord); the remaining
    nodes carry random ADMG kinds among themselves and receive directed edges from chain nodes (no arrowhead at a chain node)"""
    nodes = list(range(n))
    rng.shuffle(nodes)
    k = rng.randint(3, max(3, n - 1))
    chain, rest = nodes[:k], nodes[k:]
    g = {"V": list(range(n)), "D": [], "B": [], "U": [], "C": []}
    for a, b in zip(chain, chain[1:]):
        g["U"].append(sorted([a, b]))
    if k >= 4 and rng.random() < 0.3:
        g["U"].append(sorted([chain[0], chain[2]]))
    for i, a in enumerate(rest):
        for b in rest[i + 1:]:
            r = rng.random()
            if r < 0.3:
                g["D"].append([a, b])
            elif r < 0.45:
                g["B"].append(sorted([a, b]))
    for u in chain:
        for v in rest:
            if rng.random() < 0.3:
                g["D"].append([u, v])
    return g, chain, rest


def _tz(v):
    """number of trailing zero bits (v > 0)"""
    k = 0
    while v % 2 == 0:
        v //= 2
        k += 1
    return k


def district_shapes(rng, m):
    """bidirected trees on nodes 0..m-1 (one district), as (name, node order, edge list in insertion order)"""
    # binomial tree: node v > 0 hangs on v with its lowest set bit cleared
    binom = [[v, v & (v - 1)] for v in range(1, m)]
    tour = sorted(range(1, m), key=lambda v: (_tz(v), v)) + [0]          # odd nodes first, ..., node 0 last
    byrank = sorted(binom, key=lambda e: (_tz(e[0]), e[0]))                 # pairs, then pairs of pairs, ...
    yield "binomial:tournament", tour, byrank
    yield "binomial:tournament-rev-edges", tour, [[b, a] for a, b in byrank]
    yield "binomial:natural", list(range(m)), binom
    yield "binomial:reverse", list(range(m))[::-1], binom[::-1]
    # balanced binary merge over a path-like tree: blocks [lo, hi) joined by an edge between their first nodes / middle nodes
    edges = []
    size = 1
    while size < m:
        for lo in range(0, m, 2 * size):
            if lo + size < m:
                edges.append([lo + rng.randrange(0, size), lo + size + rng.randrange(0, min(size, m - lo - size))])
        size *= 2
    order = list(range(m))
    yield "balanced-merge", order, edges
    rng.shuffle(order)
    yield "balanced-merge:shuffled-nodes", order, edges
    yield "path", list(range(m)), [[v, v + 1] for v in range(m - 1)]
    perm = list(range(m))
    rng.shuffle(perm)
    yield "random-tree", perm, [[perm[v], perm[rng.randrange(0, v)]] for v in range(1, m)]


def big_district_cases(tier, rng):
    """LARGE-DISTRICT stream: one district of 16-32 nodes (trees / balanced merges / paths) with a few directed parents, and two or
    three such districts side by side with interleaved node order; node order and edge order are the ones listed (no _order), plus
    shuffled variants"""
    sizes = [16, 17, 20, 24] if tier == "quick" else [16, 17, 18, 20, 24, 28, 32, 40]
    for m in sizes:
        for name, order, B in district_shapes(rng, m):
            variants = [(order, B)]
            o2, b2 = list(order), list(B)
            rng.shuffle(o2)
            rng.shuffle(b2)
            variants.append((order, b2))
            if m <= 20:
                variants.append((o2, B))
            for vi, (od, bd) in enumerate(variants):
                npar = rng.randint(1, 3)
                pars = list(range(m, m + npar))
                D = [[p, rng.randrange(0, m)] for p in pars for _ in range(rng.randint(1, 2))]
                D = [list(e) for e in {tuple(e) for e in D}]
                V = list(od)
                for p in pars:
                    V.insert(rng.randrange(0, len(V) + 1), p)
                g = {"V": V, "D": D, "B": [list(e) for e in bd], "U": [], "C": []}
                qs = [[[pars[0]], [rng.randrange(0, m)], []], [[pars[0]], [pars[-1]], [rng.randrange(0, m)]]]
                yield {"kind": "district%d:%s" % (m, name), "g": g, "qs": qs if m <= 20 else [], "oracle": False, "big": vi}
    # two or three districts side by side, nodes interleaved
    for i in range(12 if tier == "quick" else 60):
        parts = []
        off = 0
        for _ in range(2 if tier == "quick" else rng.randint(2, 3)):
            m = rng.choice([16, 16, 17] if tier == "quick" else [16, 16, 17, 20])
            name, order, B = rng.choice(list(district_shapes(rng, m)))
            parts.append(([off + v for v in order], [[off + a, off + b] for a, b in B]))
            off += m
        V, k = [], 0
        while any(k < len(o) for o, _ in parts):
            for o, _ in parts:
                if k < len(o):
                    V.append(o[k])
            k += 1
        B = []
        k = 0
        while any(k < len(b) for _, b in parts):
            for _, b in parts:
                if k < len(b):
                    B.append(b[k])
            k += 1
        pars = [off, off + 1]
        D = [[pars[0], parts[0][0][0]], [pars[0], parts[1][0][0]], [pars[1], parts[-1][0][-1]]]
        yield {"kind": "districts-side-by-side", "g": {"V": V + pars, "D": D, "B": B, "U": [], "C": []}, "qs": [],
               "oracle": False, "big": i}


def gen_cases(tier, rng):
    nmax = 3 if tier == "quick" else 4
    for n in range(0, nmax + 1):       # n = 0: the empty graph
        for g in gr.enum_admg(n):
            yield from with_layers({"kind": "admg%d" % n, "g": g, "qs": queries(g["V"]), "oracle": True}, g)
        for g in gr.enum_anc(n):
            if g["U"]:
                yield from with_layers({"kind": "anc%d" % n, "g": g, "qs": queries(g["V"]), "oracle": True}, g)
    if tier == "quick":
        for g in gr.enum_dag(4):
            yield from with_layers({"kind": "dag4", "g": g, "qs": queries(g["V"]), "oracle": True}, g, full=False)
        # one-layer graphs on 4 nodes (paths of length >= 2 inside a single layer), every layer subset
        for kinds, name in ((["none", "<->"], "bi4"), (["none", "--"], "un4")):
            for g in gr.enum_class(4, kinds):
                yield from with_layers({"kind": name, "g": g, "qs": queries(g["V"]), "oracle": True}, g)
        # every 4-node ancestral graph with an undirected edge (the criterion goes through _anterior)
        for g in gr.enum_anc(4):
            if g["U"]:
                yield from with_layers({"kind": "anc4", "g": g, "qs": queries(g["V"]), "oracle": True}, g, full=False)
    for i in range(60 if tier == "quick" else 600):
        n = rng.randint(5, 6)
        g, chain, rest = und_chain_graph(rng, n)
        qs = queries(g["V"], rng=rng, limit=12)
        for y in ([chain[-1]] + rest[-1:]):
            qs.append([[chain[0]], [y], []])
        yield from with_layers({"kind": "undchain", "g": g, "qs": qs, "oracle": True}, g, full=False)
    # REPEAT stream (warm-up on a neighbour graph, in-place edit, judged call; edit of the returned graph; copy) and
    # custom edge-type names: every graph n<=3, a slice of the 4-node classes, 25 % of the random graphs
    j = 0
    for n in range(2, 5):
        for src, nm in ((gr.enum_admg(n), "admg"), (gr.enum_anc(n), "anc")):
            for g in src:
                if nm == "anc" and not g["U"]:
                    continue
                j += 1
                if n == 4 and (tier == "quick" and j % 40 != 0 or j % 4 != 0):
                    continue
                c = {"kind": "%s%d:rep" % (nm, n), "g": g, "qs": queries(g["V"]), "oracle": True, "rep": 100000 + j}
                yield c
                if j % 3 == 0:
                    yield dict(c, kind="%s%d:names" % (nm, n), names=CUSTOM_NAMES, rep=None if j % 2 else c["rep"])
                # object kinds: an ADMG instance; a PAG instance (extra empty circle layer; m_separated does not accept it,
                # so only the moral graph is observed there)
                if j % 3 == 1:
                    yield dict(c, kind="%s%d:admg" % (nm, n), obj="admg", rep=None if j % 2 else c["rep"])
                if j % 3 == 2 and nm == "anc":
                    yield dict(c, kind="%s%d:pag" % (nm, n), obj="pag", qs=[], rep=None if j % 2 else c["rep"])
    # UNIT level: the helper _anterior called directly (all graphs <= 4 nodes x all start sets; large start sets n = 6..12)
    yield from unit.unit_cases(tier, rng, marks=False)
    # the same large-conditioning-set shape for the criterion: Z = almost all nodes, densely parents of each other
    for i in range(200 if tier == "quick" else 2500):
        n = rng.randint(6, 9)
        g, S = unit.hub_dag(rng, n)
        qs = []
        for _ in range(5):
            x, y = rng.sample(S, 2) if rng.random() < 0.7 or len(S) == n else (rng.choice(S), rng.choice([v for v in g["V"] if v not in S]))
            qs.append([[x], [y], [v for v in S if v not in (x, y)]])
        c = {"kind": "hub", "g": g, "qs": qs, "oracle": False}
        if i % 3 == 1:
            c["_order"] = i
        yield c
    # LARGE-DISTRICT stream (union-find style slips need one district of >= 16 nodes merged in a balanced order)
    yield from big_district_cases(tier, rng)
    # DEEP stream: recursion head-room of 120 frames, expectation from the Python transcription of the model
    for name, g, qs in deep_graphs():
        yield {"kind": "deep:" + name, "g": g, "qs": qs, "oracle": False, "deep": name, "_reclimit": 120}
    # identity-hashed label objects; graph-level attributes with awkward keys
    for j, g in enumerate(gr.enum_admg(3)):
        if j % 4 == 0:
            yield {"kind": "admg3:obj", "g": g, "qs": queries(g["V"]), "oracle": True, "_lab": "obj", "rep": 400000 + j}
        if j % 4 == 1:
            yield {"kind": "admg3:gattr", "g": g, "qs": queries(g["V"]), "oracle": True, "gattr": True}
    # large districts with several parents (5-7 nodes)
    for i in range(100 if tier == "quick" else 1500):
        n = rng.randint(5, 7)
        g = gr.random_kinds_graph(rng, n, ["none", "<->", "<->", "->", "<-", "->&<->"], p_edge=rng.choice([0.35, 0.5]))
        c = {"kind": "districts", "g": g, "qs": queries(g["V"], rng=rng, limit=12), "oracle": n <= 5}
        if i % 2 == 0:
            c["rep"] = 200000 + i
        yield c
    for i in range(160 if tier == "quick" else 3000):
        n = rng.randint(4, 8)
        r = rng.random()
        if r < 0.35:
            g = gr.random_kinds_graph(rng, n, gr.ADMG_KINDS, p_edge=rng.choice([0.2, 0.35, 0.5]))
        elif r < 0.7:
            g = gr.random_kinds_graph(rng, n, gr.ANC_KINDS, p_edge=rng.choice([0.2, 0.35, 0.5]), pred=gr.ancestral_und_ok)
        elif r < 0.85:
            g = gr.random_kinds_graph(rng, n, gr.DAG_KINDS, p_edge=rng.choice([0.3, 0.5]))
        else:
            g = gr.random_kinds_graph(rng, n, [rng.choice(["<->", "--"]), "none"], p_edge=rng.choice([0.3, 0.5]))
        c = {"kind": "rand", "g": g, "qs": queries(g["V"], rng=rng, limit=20), "oracle": n <= 5}
        if i % 4 == 1:
            c["rep"] = 300000 + i
        if i % 8 == 3:
            yield dict(c, kind="rand:names", names=CUSTOM_NAMES)
        else:
            yield from with_layers(c, g)


def encode(case):
    if case.get("unit"):
        return unit.encode(case)
    if case.get("deep"):
        return [1, gr.enc(gr.G([])), []]      # too long for the round-based Gallina closures: expectation from c12_ref
    return [0 if case.get("oracle") else 1, gr.enc(case["g"]), case.get("qs", [])]


def decode(case, v):
    if case.get("unit"):
        return unit.decode(case, v)
    if case.get("deep"):
        m = ref.moral_graph(case["g"])
        return {"nodes": m["nodes"], "edges": m["edges"], "oracle": None, "ref": "only",
                "crit": [ref.moral_sep(case["g"], X, Y, Z) for X, Y, Z in case.get("qs", [])]}
    return {"nodes": v[0], "edges": v[1], "crit": [r[0] for r in v[2]],
            "oracle": [r[1] for r in v[2]] if case.get("oracle") else None}


def ref_agrees(case, model, impl):
    """the Python transcription of the model's definitions (c12_ref, evaluated in the worker) against the extracted proved model"""
    return "ref" not in impl or impl["ref"] == [model["nodes"], model["edges"], model["crit"]]


def deep_graphs():
    """long structured graphs (about 200-250 nodes) that make the code walk their whole length"""
    # 1. the district chain of DEEP item E: p -> c0 <-> c1 <-> ... <-> c_{k-1} <- q, side branches c_j -> r_j
    k = 200
    c = list(range(2, 2 + k))
    D = [[0, c[0]], [1, c[-1]]] + [[c[j], 2 + k + i] for i, j in enumerate((5, 100, 190))]
    g = gr.G(range(2 + k + 3), D=D, B=[[c[j], c[j + 1]] for j in range(k - 1)])
    yield "district-chain", g, [[[0], [1], []], [[0], [1], [c[7]]], [[2 + k], [2 + k + 2], [c[50]]]]
    # 2. a long directed chain into x = 0 and a long undirected chain that ends in a parent of y = 1 (anterior set)
    k = 120
    a = list(range(2, 2 + k))
    u = list(range(2 + k, 2 + 2 * k))
    D = [[a[0], 0]] + [[a[j + 1], a[j]] for j in range(k - 1)] + [[u[0], 1], [a[-1], u[-1] + 1], [u[-1], u[-1] + 1]]
    g = gr.G(range(2 + 2 * k + 1), D=D, U=[[u[j], u[j + 1]] for j in range(k - 1)])
    t = u[-1] + 1
    yield "anterior-chains", g, [[[0], [1], [t]], [[0], [1], []], [[0], [1], [t, a[60]]], [[0], [1], [t, u[60]]]]
    # 3. a ladder of small districts with two parents each (many districts, many marriages)
    k = 70
    D, B = [], []
    for j in range(k):
        p, q, c1, c2 = 4 * j, 4 * j + 1, 4 * j + 2, 4 * j + 3
        D += [[p, c1], [q, c2]]
        B += [[c1, c2]]
        if j:
            D += [[4 * j - 1, p]]
    g = gr.G(range(4 * k), D=D, B=B)
    yield "district-ladder", g, [[[0], [4 * k - 1], []], [[0], [4 * k - 1], [4 * 30 + 3]], [[1], [4 * k - 1], [4 * 30]]]


def is_plain_dag(g):
    return not g["B"] and not g["U"] and not g["C"]


CUSTOM_NAMES = ["dir", "bidir", "undir"]


def build(g, case):
    """MixedEdgeGraph for g with the layers of case["layers"]; case["names"] = custom layer names
    [directed, bidirected, undirected], handed to the API explicitly"""
    names = case.get("names")
    if case.get("obj") in ("admg", "pag"):
        # an ADMG / PAG instance (with its extra, empty layers) where a MixedEdgeGraph is expected
        M, lab, inv = (gr.to_admg if case["obj"] == "admg" else gr.to_pag)(g, case)
        return M, lab, inv, {}, {}, {k: n for k, n in gr.LAYER_NAMES.items() if k in "DBU"}
    if not names:
        layers = tuple(case.get("layers", ALL_LAYERS))
        M, lab, inv = gr.to_mixed(g, case, layers=layers)
        return M, lab, inv, {}, {}, {k: n for k, n in gr.LAYER_NAMES.items() if n in layers}
    import networkx as nx
    import pywhy_graphs.networkx as pywhy_nx
    M = pywhy_nx.MixedEdgeGraph(graphs=[nx.DiGraph(), nx.Graph(), nx.Graph()], edge_types=list(names))
    lmap = {"D": names[0], "B": names[1], "U": names[2]}
    lab, inv = gr._fill(M, g, case, lmap)
    kw = {"directed_edge_name": names[0], "bidirected_edge_name": names[1], "undirected_edge_name": names[2]}
    kwa = {"directed_edge_name": names[0], "undirected_edge_name": names[2]}
    return M, lab, inv, kw, kwa, lmap


def _observe(M, lab, inv, kw, kwa, qs):
    import networkx as nx
    from pywhy_graphs.networkx.algorithms.causal.mixed_edge_moral import mixed_edge_moral_graph
    from pywhy_graphs.networkx.algorithms.causal.m_separation import _anterior, m_separated
    R = mixed_edge_moral_graph(M, **kw)
    out = {"nodes": sorted(inv(v) for v in R.nodes),
           "edges": sorted(sorted((inv(a), inv(b))) for a, b in R.edges())}
    # the separation criterion, with the implementation's own pieces
    crit, msep = [], []
    for X, Y, Z in qs:
        Xs, Ys, Zs = ({lab(v) for v in S} for S in (X, Y, Z))
        ant = _anterior(M, Xs | Ys | Zs, **kwa)
        Gc = M.copy()
        Gc.remove_nodes_from(set(Gc.nodes()) - ant)
        H = mixed_edge_moral_graph(Gc, **kw)
        H.remove_nodes_from(Zs)
        reach = set()
        for x in Xs:
            reach |= nx.node_connected_component(H, x)
        crit.append(int(not (reach & Ys)))
        msep.append(int(bool(m_separated(M, Xs, Ys, Zs, **kw))))
    out["crit"] = crit
    out["msep"] = msep
    return out, R


def run_impl(case):
    if case.get("unit"):
        return unit.run_impl(case)
    import random
    import networkx as nx
    g = case["g"]
    qs = case.get("qs", [])
    rep = case.get("rep")
    g0 = unit.legal_neighbour(g, rep, guarded=case.get("obj") == "pag")
    if rep is not None or case.get("pre"):
        # CROSS-CALL: first the API on an unrelated graph (nodes the target lacks, two layers only) in the same process
        A, labA, invA = gr.to_mixed(gr.G([90, 91, 92, 93], D=[[90, 92], [91, 92]], B=[[92, 93]]), None,
                                    layers=("directed", "bidirected"))
        _observe(A, labA, invA, {}, {}, [[[90], [91], [92]]])
    if g0 is not None:
        # REPEAT: warm up on a neighbour graph (same counts), edit the SAME object in place, then judge
        M, lab, inv, kw, kwa, lmap = build(g0, case)
        _observe(M, lab, inv, kw, kwa, qs)
        unit.morph(M, g0, g, lab, lmap)
    else:
        M, lab, inv, kw, kwa, lmap = build(g, case)
    if case.get("gattr"):
        # legal networkx graph attributes: a non-string key and keys that look like constructor arguments
        M.graph[2021] = "user data"
        M.graph["edge_types"] = "user data"
        M.graph["graphs"] = "user data"
    before = gr.snapshot(M)
    out, R = _observe(M, lab, inv, kw, kwa, qs)
    if before != gr.snapshot(M):
        out["mutated"] = True
    if not case.get("deep"):
        m = ref.moral_graph(g)       # pure Python transcription of the model, compared with the extracted model in compare()
        out["ref"] = [m["nodes"], m["edges"], [ref.moral_sep(g, X, Y, Z) for X, Y, Z in qs]]
    if is_plain_dag(g):
        Dg, lab2, inv2 = gr.to_digraph(g, case)
        N = nx.moral_graph(Dg)
        out["nx"] = [sorted(inv2(v) for v in N.nodes), sorted(sorted((inv2(a), inv2(b))) for a, b in N.edges())]
    if rep is not None:
        # the returned graph belongs to the caller: editing it must not influence a later call; a copy must behave alike
        if R.number_of_edges():
            R.remove_edge(*next(iter(R.edges())))
        if R.number_of_nodes():
            R.remove_node(next(iter(R.nodes())))
        again, _ = _observe(M, lab, inv, kw, kwa, qs)
        copied, _ = _observe(M.copy(), lab, inv, kw, kwa, qs)
        keys = ("nodes", "edges", "crit", "msep")
        if any(again[k] != out[k] for k in keys):
            out["again_differs"] = True
        if any(copied[k] != out[k] for k in keys):
            out["copy_differs"] = True
    return out


def compare(case, impl, model):
    if case.get("unit"):
        return unit.compare(case, impl, model)
    if "exc" in impl:
        return "exception"
    if impl.get("mutated"):
        return "argument-mutated"
    if model["oracle"] is not None and model["oracle"] != model["crit"]:
        return "model-vs-oracle"
    if model.get("ref") != "only" and not ref_agrees(case, model, impl):
        return "reference-vs-model"
    if impl["nodes"] != model["nodes"] or impl["edges"] != model["edges"]:
        return "result"
    if "nx" in impl and impl["nx"] != [impl["nodes"], impl["edges"]]:
        return "networkx-moral_graph"
    if impl["crit"] != model["crit"]:
        return "criterion"
    if impl["msep"] != impl["crit"]:
        return "criterion-vs-m_separated"
    if impl.get("again_differs"):
        return "second-call-after-editing-the-result"
    if impl.get("copy_differs"):
        return "copy-after-warm-up"
    return None


def nontrivial(case, model):
    if case.get("unit"):
        return unit.nontrivial(case, model)
    g = case["g"]
    skel = {tuple(sorted(e)) for k in "DBU" for e in g[k]}
    return any(tuple(e) not in skel for e in model["edges"])


def key(case):
    if case.get("unit"):
        return (case["unit"], gr.canon(case["g"]), case.get("_order"), len(case.get("starts", case.get("qs", []))))
    return (gr.canon(case["g"]), tuple(case.get("layers", ALL_LAYERS)), case.get("rep"), tuple(case.get("names") or ()),
            case.get("obj"), case.get("_lab"), case.get("gattr"),
            (tuple(case["g"]["V"]), tuple(map(tuple, case["g"]["B"]))) if "big" in case else None)


def classify(case, impl, model):
    if case.get("unit"):
        return unit.compare(case, impl, model)
    if "exc" in impl or impl.get("mutated"):
        return None
    if model["oracle"] is not None and model["oracle"] != model["crit"]:
        return None
    if model.get("ref") != "only" and not ref_agrees(case, model, impl):
        return None
    if case.get("deep"):
        return "deep:" + str(case["deep"])
    if case.get("names"):
        return "custom-edge-type-names"
    if case.get("rep") is not None:
        return "second-call-on-edited-object"
    if impl["nodes"] == model["nodes"]:
        im = {tuple(e) for e in impl["edges"]}
        mo = {tuple(e) for e in model["edges"]}
        if im < mo:
            # every missing edge joins two parents of one district (the defect fixed by f7202d6)
            g = case["g"]
            comp = {v: {v} for v in g["V"]}
            for a, b in g["B"]:
                if comp[a] is not comp[b]:
                    comp[a] |= comp[b]
                    for v in list(comp[a]):
                        comp[v] = comp[a]
            pa = lambda Dc: {a for a, b in g["D"] if b in Dc}  # noqa: E731
            if all(any(a in pa(comp[v]) and b in pa(comp[v]) for v in g["V"]) for a, b in mo - im):
                return "moral:missing-parent-parent-edge"
    return None


def shrink(case):
    if case.get("unit"):
        yield from unit.shrink(case)
        return
    qs = case.get("qs", [])
    if len(qs) > 1:
        for q in qs:
            yield dict(case, qs=[q])
    for h in gr.shrink_graph(case["g"]):
        vs = set(h["V"])
        yield dict(case, g=h, qs=[q for q in qs if all(v in vs for part in q for v in part)])
