"""C12 — mixed_edge_moral_graph: adjacency = collider-connectedness; nodes kept."""
import graphs as gr

PROP = "C12"
RULE = ("every acyclic ADMG(n) and ancestral graph with undirected edges ANC(n) (all per-pair edge kinds), "
        "n<=3 quick / n<=4 thorough, plus seeded random graphs n<=8; distinct by canonical graph; non-trivial = "
        "the moral graph has an edge that is not an edge of the input skeleton")
EXHAUSTIVE = {"quick": "all ADMG(n), ANC(n) n<=3", "thorough": "all ADMG(n), ANC(n) n<=4"}
TRUSTED = ["networkx compose / connected_components / predecessors taken at face value"]
ASSUMPTIONS = ["default edge-type names", "int node labels (label families are C15's job)"]


def gen_cases(tier, rng):
    nmax = 3 if tier == "quick" else 4
    for n in range(1, nmax + 1):
        for g in gr.enum_admg(n):
            yield {"kind": "admg%d" % n, "g": g}
        for g in gr.enum_anc(n):
            if g["U"]:
                yield {"kind": "anc%d" % n, "g": g}
    for i in range(300 if tier == "quick" else 3000):
        n = rng.randint(4, 8)
        if rng.random() < 0.5:
            g = gr.random_kinds_graph(rng, n, gr.ADMG_KINDS, p_edge=rng.choice([0.2, 0.35, 0.5]))
        else:
            g = gr.random_kinds_graph(rng, n, gr.ANC_KINDS, p_edge=rng.choice([0.2, 0.35, 0.5]), pred=gr.ancestral_und_ok)
        yield {"kind": "rand", "g": g}


def encode(case):
    return [0, gr.enc(case["g"])]


def decode(case, v):
    return {"nodes": v[0], "edges": v[1]}


def run_impl(case):
    from pywhy_graphs.networkx.algorithms.causal.mixed_edge_moral import mixed_edge_moral_graph
    M, lab, inv = gr.to_mixed(case["g"], case)
    before = gr.snapshot(M)
    R = mixed_edge_moral_graph(M)
    after = gr.snapshot(M)
    out = {"nodes": sorted(inv(v) for v in R.nodes),
           "edges": sorted(sorted((inv(a), inv(b))) for a, b in R.edges())}
    if before != after:
        out["mutated"] = True
    return out


def nontrivial(case, model):
    g = case["g"]
    skel = {tuple(sorted(e)) for k in "DBU" for e in g[k]}
    return any(tuple(e) not in skel for e in model["edges"])


def key(case):
    return gr.canon(case["g"])


def classify(case, impl, model):
    if "exc" in impl or impl.get("mutated"):
        return None
    if impl["nodes"] == model["nodes"]:
        im = {tuple(e) for e in impl["edges"]}
        mo = {tuple(e) for e in model["edges"]}
        if im < mo:
            # every missing edge joins two parents of one district?
            return "moral:missing-parent-parent-edge"
    return None


def shrink(case):
    for h in gr.shrink_graph(case["g"]):
        yield dict(case, g=h)
