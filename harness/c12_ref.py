"""Harness-side Python transcription of the DEFINITIONS of the proved models C12.Model (anterior set, induced subgraph, moral
graph = skeleton + clique on district ∪ parents, vertex-cut criterion) and, through the proved theorem
C12.CriterionBwd.moral_criterion (m-separation <=> vertex cut), of the brute-force "all minimal separators" oracle of C11.Model.

Why it exists: the extracted Gallina models use round-based closures over Peano naturals (cost ~ n^5 per closure); they handle the
thousands of small and medium cases of every run but not the 200-400 node DEEP cases (BUILDING/DEEP item E).  On every
non-deep case of every run c11.py / c12.py compare this transcription with the extracted model ("reference-vs-model" is a reported
disagreement), so it is tied to the proved model on thousands of cases per run; only on deep cases it is the sole expectation."""
import itertools


def anterior(g, S):
    pa, un = {}, {}
    for a, b in g["D"]:
        pa.setdefault(b, []).append(a)
    for a, b in g["U"]:
        un.setdefault(a, []).append(b)
        un.setdefault(b, []).append(a)
    seen = set(S)
    todo = list(seen)
    while todo:
        v = todo.pop()
        for w in pa.get(v, []) + un.get(v, []):
            if w not in seen:
                seen.add(w)
                todo.append(w)
    return seen


def restrict(g, S):
    S = set(S)
    return {"V": [v for v in g["V"] if v in S], **{k: [e for e in g[k] if e[0] in S and e[1] in S] for k in "DBUC"}}


def moral_edges(g):
    """set of frozenset pairs"""
    E = set()
    for k in "DBU":
        for a, b in g[k]:
            if a != b:
                E.add(frozenset((a, b)))
    comp = {v: v for v in g["V"]}

    def find(v):
        while comp[v] != v:
            comp[v] = comp[comp[v]]
            v = comp[v]
        return v
    for a, b in g["B"]:
        comp[find(a)] = find(b)
    groups = {}
    for v in g["V"]:
        groups.setdefault(find(v), set()).add(v)
    for a, b in g["D"]:
        if b in comp and a in comp:
            groups[find(b)].add(a)
    for grp in groups.values():
        for a, b in itertools.combinations(sorted(grp), 2):
            E.add(frozenset((a, b)))
    return E


def moral_graph(g):
    return {"nodes": sorted(g["V"]), "edges": sorted(sorted(e) for e in moral_edges(g))}


def _reach(nodes, E, starts, avoid):
    adj = {v: [] for v in nodes}
    for e in E:
        a, b = tuple(e)
        adj[a].append(b)
        adj[b].append(a)
    seen = {v for v in starts if v not in avoid and v in adj}
    todo = list(seen)
    while todo:
        v = todo.pop()
        for w in adj[v]:
            if w not in seen and w not in avoid:
                seen.add(w)
                todo.append(w)
    return seen


def moral_sep(g, X, Y, Z):
    """C12.Model.moral_sep: Z is a vertex cut between X and Y in the moral graph of the anterior subgraph of X ∪ Y ∪ Z"""
    ga = restrict(g, anterior(g, list(X) + list(Y) + list(Z)))
    r = _reach(ga["V"], moral_edges(ga), X, set(Z))
    return int(not (r & set(Y)))


def minimal_seps(g, x, y, I, R):
    """C11.Model.minimal_seps with sep = m-separation (by the moralisation criterion): all I-minimal separators inside R"""
    I, R = sorted(set(I)), sorted(set(R))
    free = [v for v in R if v not in I]
    seps = []
    for r in range(len(free) + 1):
        for c in itertools.combinations(free, r):
            S = sorted(I + list(c))
            if moral_sep(g, [x], [y], S):
                seps.append(S)
    return sorted(S for S in seps if not any(set(T) < set(S) for T in seps))
