"""Unit-level correspondence for the private helpers of m_separation.py that C11 and C12 go through:
  _anterior(G, start_nodes)            vs  C12.Model.ant_of            (mode 3 of C11/C12 Run.run_case)
  _bfs_with_marks(G, start, check_set) vs  C11.Model.marks             (mode 4 of C11 Run.run_case)
and the generator of the "large start set" shape: almost all nodes are start nodes, they are densely parents / undirected
neighbours of each other (one hub has most of them as parents), and a few non-start ancestors hang on single start nodes."""
import graphs as gr


def hub_graph(rng, n, mixed=True, extra=None):
    """(g, S): g over a random relabelling of 0..n-1 with layers D (and U when mixed); S = start set of size n-3..n-1"""
    perm = list(range(n))
    rng.shuffle(perm)
    k = extra if extra is not None else rng.randint(1, 3)
    S, rest = perm[:n - k], perm[n - k:]
    order = list(S)
    rng.shuffle(order)
    hub = order[-1]
    D, U = [], []
    p = rng.choice([0.4, 0.6, 0.8])
    und = set()
    for i, a in enumerate(order):
        for b in order[i + 1:]:
            r = rng.random()
            if b == hub and r < 0.85 or r < p:
                if mixed and rng.random() < 0.15 and b not in und and a != hub and b != hub:
                    U.append(sorted([a, b]))
                else:
                    D.append([a, b])
    # one start node t that is nobody's parent gets a private non-start ancestor (half of the time)
    t = rng.choice([v for v in S if v != hub]) if len(S) > 1 and rng.random() < 0.5 else None
    if t is not None:
        D = [e for e in D if e[0] != t]
        U = [e for e in U if t not in e]
    # non-start ancestors: each hangs on ONE start node (or on another non-start node: a chain)
    placed = []
    for u in rest:
        tgt = rng.choice(S) if not placed or rng.random() < 0.7 else rng.choice(placed)
        if t is not None and not placed:
            tgt = t
        if mixed and rng.random() < 0.25:
            U.append(sorted([u, tgt]))
        else:
            D.append([u, tgt])
        placed.append(u)
    g = gr.G(range(n), D=D, U=U)
    if rng.random() < 0.6:
        # CPython iterates a set of small ints in ascending order: let the hub be expanded first and t wait at the left end
        Ss = sorted(S)
        first = [hub] + ([t] if t is not None else [])
        img = dict(zip(first + [v for v in Ss if v not in first], Ss))
        f = lambda v: img.get(v, v)  # noqa: E731
        g = gr.relabel(g, f)
        g["V"] = sorted(g["V"])
    return g, sorted(S)


def hub_dag(rng, n):
    """the same shape inside the domain of C01 (directed edges only, optionally a few bidirected ones among non-adjacent pairs)"""
    g, S = hub_graph(rng, n, mixed=False)
    adj = {tuple(sorted(e)) for e in g["D"]}
    for _ in range(rng.randint(0, 2)):
        a, b = rng.sample(g["V"], 2)
        if tuple(sorted((a, b))) not in adj:
            g["B"].append(sorted([a, b]))
            adj.add(tuple(sorted((a, b))))
    return g, S


def unit_cases(tier, rng, marks=True, nmax_ant=4):
    quick = tier == "quick"
    # _anterior: every graph with directed / undirected edges on <= 4 nodes x every start set
    for n in range(1, nmax_ant + 1):
        for j, g in enumerate(gr.enum_pdag(n)):
            yield {"kind": "unit:anterior%d" % n, "unit": "anterior", "g": g, "starts": list(gr.subsets(g["V"]))}
    # ... and the large-start-set shape, n = 6..12, several insertion orders
    for i in range(300 if quick else 3000):
        n = rng.randint(6, 12)
        g, S = hub_graph(rng, n)
        starts = [S]
        for _ in range(3):
            T = sorted(rng.sample(g["V"], rng.randint(max(1, n - 3), n - 1)))
            starts.append(T)
        c = {"kind": "unit:anterior:hub", "unit": "anterior", "g": g, "starts": starts}
        if i % 3:
            c["_order"] = i
        yield c
    if not marks:
        return
    # _bfs_with_marks: every undirected graph on <= 4 nodes x every start x every check set; random larger ones
    for n in range(1, 5):
        for g in gr.enum_class(n, ["none", "--"]):
            qs = [[s, chk] for s in g["V"] for chk in gr.subsets(g["V"])]
            yield {"kind": "unit:marks%d" % n, "unit": "marks", "g": g, "qs": qs}
    for i in range(100 if quick else 1000):
        n = rng.randint(5, 10)
        g = gr.random_kinds_graph(rng, n, ["none", "--"], p_edge=rng.choice([0.2, 0.35, 0.6]))
        qs = [[rng.choice(g["V"]), sorted(rng.sample(g["V"], rng.randint(0, n)))] for _ in range(8)]
        yield {"kind": "unit:marks:rand", "unit": "marks", "g": g, "qs": qs, **({"_order": i} if i % 2 else {})}


def encode(case):
    g = case["g"]
    if case["unit"] == "anterior":
        return [3, gr.enc(g), case["starts"]]
    return [4, [g["V"], g["U"]], case["qs"]]


def decode(case, v):
    return {"unit": [sorted(r) for r in v]}


def run_impl(case):
    from pywhy_graphs.networkx.algorithms.causal.m_separation import _anterior, _bfs_with_marks
    g = case["g"]
    if case["unit"] == "anterior":
        M, lab, inv = gr.to_mixed(g, case)
        before = gr.snapshot(M)
        out = []
        for S in case["starts"]:
            arg = {lab(v) for v in S}
            arg0 = set(arg)
            r = _anterior(M, arg)
            out.append(sorted(inv(v) for v in r))
            if arg != arg0:
                return {"unit": out, "mutated": True}
        return {"unit": out, "mutated": gr.snapshot(M) != before}
    import networkx as nx
    lab, inv = gr.labeler(case)
    G = nx.Graph()
    for v in gr.ordered(case, g["V"], "V"):
        G.add_node(lab(v))
    for a, b in gr.ordered(case, g["U"], "E"):
        G.add_edge(lab(a), lab(b))
    out = []
    for s, chk in case["qs"]:
        arg = {lab(v) for v in chk}
        arg0 = set(arg)
        r = _bfs_with_marks(G, lab(s), arg)
        out.append(sorted(inv(v) for v in r))
        if arg != arg0:
            return {"unit": out, "mutated": True}
    return {"unit": out, "mutated": False}


def compare(case, impl, model):
    if "exc" in impl:
        return "exception"
    if impl.get("mutated"):
        return "argument-mutated"
    if impl["unit"] != model["unit"]:
        return "helper:" + ("_anterior" if case["unit"] == "anterior" else "_bfs_with_marks")
    return None


def nontrivial(case, model):
    if case["unit"] == "anterior":
        return any(len(r) > len(s) for r, s in zip(model["unit"], case["starts"]))
    return any(model["unit"])


def shrink(case):
    key = "starts" if case["unit"] == "anterior" else "qs"
    if len(case[key]) > 1:
        for q in case[key]:
            yield dict(case, **{key: [q]})
    for h in gr.shrink_graph(case["g"]):
        vs = set(h["V"])
        if case["unit"] == "anterior":
            qs = [S for S in case["starts"] if set(S) <= vs]
        else:
            qs = [q for q in case["qs"] if q[0] in vs and set(q[1]) <= vs]
        if qs:
            yield dict(case, g=h, **{key: qs})


# ---- REPEAT stream helpers shared by c11.py / c12.py ----
def one_edge_per_pair(g):
    seen = set()
    for k in "DBUC":
        for a, b in g[k]:
            p = frozenset((a, b))
            if p in seen:
                return False
            seen.add(p)
    return True


def legal_neighbour(g, rep, guarded=False):
    """a perturbed neighbour of g (same node and edge counts) to warm the object up on; for classes whose add_edge has a
    guard (PAG) only neighbours with at most one edge per node pair are legal states: try a few seeds, else no warm-up"""
    import random
    if rep is None:
        return None
    for attempt in range(8):
        h = gr.perturb(g, random.Random(rep if attempt == 0 else "%s:%d" % (rep, attempt)))
        if h is not None and (not guarded or one_edge_per_pair(h)):
            return h
    return None


def morph(obj, g_from, g_to, lab, names):
    """graphs.morph with ALL removals (every layer) before ANY addition, so that a guarded class never sees two edges on one pair"""
    plan = []
    for k in "DBUC":
        if k not in names:
            continue
        und = k in "BU"
        norm = (lambda e: tuple(sorted(e))) if und else (lambda e: tuple(e))
        old = {norm(e) for e in g_from[k]}
        new = {norm(e) for e in g_to[k]}
        plan.append((k, sorted(old - new), sorted(new - old)))
    for k, rem, _ in plan:
        for a, b in rem:
            obj.remove_edge(lab(a), lab(b), names[k])
    for k, _, add in plan:
        for a, b in add:
            obj.add_edge(lab(a), lab(b), names[k])
    return obj
