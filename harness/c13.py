"""C13 — stationary time-series graphs stay complete, ordered and shift-invariant under every history of public
operations (add/remove edge(s), add/remove variable, set_max_lag up and down, copy), for the five class shapes
StationaryTimeSeriesGraph / DiGraph / MixedEdgeGraph / CPDAG / PAG.

A case is {"cls": 0..4, "L": initial max_lag, "ops": [...]}; ops (lags are magnitudes, node [x, a] is (x, -a)):
  ["ae", layer, u, v]  add_edge          ["aes", layer, [[u, v], ...]]  add_edges_from
  ["re", layer, u, v]  remove_edge       ["res", layer, [[u, v], ...]]  remove_edges_from
  ["av", x] add_variable   ["rv", x] remove_variable   ["sml", n] set_max_lag   ["cp"] G = G.copy()
  ["or", u, v] orient_uncertain_edge (CPDAG / PAG)     ["he", layer, u, v] has_edge (query; its answer is compared)
  ["avs", [x..]] add_variables_from   ["rvs", [x..]] remove_variables_from (unknown / repeated names allowed)
  ["an", u] add_node   ["ans", [u..]] add_nodes_from   ["rns", [x..]] remove_nodes_from(all nodes of the distinct, present variables)
  ["bad", name] a call with a malformed argument (table BAD_CALLS): must raise and change nothing
After every op the full observable state is compared with the model: raised?, max_lag, node set, per layer the
layer's own max_lag and its edge set; for copy additionally the class of the copy, and every original a copy was
taken from must never change again.  After a raise the model state is the pre-state, so the comparison is the
"unchanged" clause.  The property lets a raising op register new variables (it only fixes edge sets and max_lag):
such variables are removed again by the harness (counted in "resync") to stay aligned with the model."""
import itertools

import graphs as gr

PROP = "C13"
LEVEL_TEXT = ("Coq theorems, all unbounded over histories (induction over the op list) and closed under the global context, about an "
              "executable Gallina state machine of the five stationary time-series class shapes (coq/theories/C13/Model.v): "
              "ts_reachable_inv (after any history: nodes = variables x {0..max_lag}; every layer carries max_lag; each layer's edge set "
              "is exactly the set of in-window shifts of its templates; no stored edge runs from later to earlier; endpoints are nodes), "
              "ts_raise_atomic / ts_raise_keeps_inv (a raising op leaves the whole state unchanged and the invariant intact), ts_copy and "
              "ts_class_stable (copy is an equal state of the same class and max_lag, the original is unaffected by later ops on the copy), "
              "ts_refines (every successful single op acts on each layer's template set exactly as the abstract template machine: add / "
              "remove one template, drop a variable's templates, drop templates longer than the new window; batches are atomic "
              "sequences of single ops and are covered by the invariant and atomicity theorems, not by ts_refines; likewise "
              "orient_uncertain_edge = remove the uncertain edge family then add the directed one, atomically; has_edge is a query whose "
              "answer is compared). Nothing is bounded. "
              "Six old_*_refuted theorems (C13/Refuted.v) are witness statements about an as-is transcription of the code BEFORE the "
              "repairs 35e75c8 / 9a3603d (documentation only; the transcription is not tied to any tree). "
              "The tie of the model to /repo is by correspondence only: the extracted model and the real classes are run on the same "
              "histories (exhaustive short ones over a reduced alphabet, seeded random ones of length 20 / 150) and the full observable "
              "state is compared after every op.")
LEVEL_NOTE = ("The model is the INTENDED machine: before the repairs 35e75c8 / 9a3603d of /repo the check reported set_max_lag (growth incomplete, shrink raises after "
              "overwriting max_lag, mixed-edge layers keep their old max_lag, CPDAG TypeError) and non-atomic add_edges_from / "
              "remove_edges_from; fixes/C13-set-max-lag.patch and fixes/C13-batch-atomic.patch (both applied) repaired them. The property lets a raising "
              "op register new variables; the harness then removes them again (resync) to stay aligned with the stricter model. Open on HEAD e84e538 "
              "until fixes/C13-set-max-lag-integer.patch is applied: set_max_lag with a float lag writes max_lag before it raises (or "
              "does not raise at all on a graph without variables). Exception "
              "classes are not compared. Modelled, not verified: networkx containers, tsdict key validation (as the node-validity "
              "guard), the CPDAG insertion guard (C03's subject, transcribed). Outside the model: edge_type='all', positive time "
              "indices, attributes, non-stationary instances.")
TECHNIQUE = "Coq proof (inductive invariant + refinement to a template machine, unbounded over histories) + extracted-model correspondence on op histories"
LAYER_NAMES = {0: [None], 1: [None], 2: ["directed", "bidirected"], 3: ["directed", "undirected"],
               4: ["directed", "circle", "undirected", "bidirected"]}
ORDERED = {0: [0], 1: [1], 2: [1, 0], 3: [1, 0], 4: [1, 1, 0, 0]}
CLS_NAMES = ["StationaryTimeSeriesGraph", "StationaryTimeSeriesDiGraph", "StationaryTimeSeriesMixedEdgeGraph",
             "StationaryTimeSeriesCPDAG", "StationaryTimeSeriesPAG"]
OPC = {"ae": 0, "aes": 1, "re": 2, "res": 3, "av": 4, "rv": 5, "sml": 6, "cp": 7, "or": 8, "he": 9,
       "avs": 10, "rvs": 11, "an": 12, "ans": 13, "bad": 14, "rns": 11}

RULE = ("histories per class shape (5 shapes): every sequence of exactly 2 (quick) / 3 (thorough) ops over a reduced alphabet "
        "(per layer: add lagged, add contemporaneous, remove lagged; add/remove variable, set_max_lag 1/2/3, copy, one batch) from "
        "max_lag 1 and 2, a sample of length-3 sequences (quick); a boundary stream (per layer a variable with edges at lags 0, 1 and "
        "max_lag, then every pair out of: remove that / the other variable, set_max_lag to the same value / +2 / +3 / 1 / 0, copy, empty "
        "batch, batch listing one edge twice, batch with a bad edge between two copies of a good one); an argument-order stream (one "
        "lagged / contemporaneous / auto-lagged template per layer, then every edge-naming op: add, remove, has_edge, "
        "orient_uncertain_edge on CPDAG / PAG, the bulk forms, add / has_edge in the next and in an unknown layer, naming the edge "
        "earlier-first and later-first, by the inserted copy and by a homologous copy one lag back, then an observing op; a quarter of it "
        "and a third of the random mixed-edge histories with the first edge-type layer removed and re-added so that edge_types has "
        "another order); a bulk / malformed stream (on a graph with edges at several lags: "
        "remove_variables_from / add_variables_from with unknown and repeated names first / in the middle / last, remove_nodes_from of all "
        "nodes of listed variables, add_node / add_nodes_from with a lag outside the window first / last and duplicates, and the 33 "
        "malformed calls of BAD_CALLS (None / scalar / 1-tuple / positive or str lag for a node, None / scalar / wrong-arity elements after a "
        "valid one in bulk lists, None / str / float / negative max_lag, unhashable variable), each followed by copy / set_max_lag / "
        "has_edge / another bulk removal; a raise must leave everything unchanged); a stale-state stream (warm-up "
        "queries, then a node-count-preserving edit: swap a variable, move an edge to another variable / lag / layer, then set_max_lag / "
        "copy / remove_variable); seeded random histories of length 20 (quick) / 150 (thorough) over 2-3 variables, max_lag 1..4, lags "
        "0..max_lag+1, all op kinds, duplicates in batches; the same with variables named like lag tuples ((v,0), (v,-1)) and with "
        "constructor edge lists (modelled as add_edges_from on the empty graph). Variants (case['var'] seeds them per op): batch argument "
        "as list / tuple / generator / iterator, the list argument compared before/after, lags spelled as numpy.int64 (25 % of the ops), warm-up queries before ops and before copy(), "
        "on the graph and on every original a copy was taken from; always: a twin object built from the same constructor arguments must "
        "stay as built. Every prefix is compared. distinct by (class, L, ops, init, variant seed, label family); non-trivial = some state "
        "of the history has an edge and the history contains a successful set_max_lag or variable removal or copy after that")
EXHAUSTIVE = {"quick": "all length-2 histories over the reduced alphabet, 5 class shapes, initial max_lag 1 and 2",
              "thorough": "all length-3 histories over the reduced alphabet, 5 class shapes, initial max_lag 1 and 2"}
TRUSTED = ["networkx Graph/DiGraph add_edge/remove_edge/remove_node/has_edge taken at face value",
           "MixedEdgeGraph layer bookkeeping (C02's subject) observed through get_graphs()"]
ASSUMPTIONS = ["edge type always passed explicitly for mixed-edge classes (edge_type='all' is C03's subject)",
               "undirected-type layers and the circle layer are called with the earlier node first (documented convention); "
               "a later-node-first add_edge must raise (15% of the random edge arguments)",
               "positive time indices and non-tuple nodes are outside the model's state (lags are nat magnitudes); calls with them are "
               "the model op Bad: raise, nothing changes",
               "remove_node / remove_nodes_from remove single (variable, lag) nodes and are documented NOT to keep variables complete "
               "('time-series graphs operate by addition/removal of variables'); outside the property's op list. They are only driven "
               "with the complete node lists of present, distinct variables (= remove_variables_from); with an absent node they raise "
               "NetworkXError after the earlier nodes were removed (observed, not judged)",
               "add_nodes_from is not driven with tuple-named variables (it reads a tuple first element as (node, attrdict))",
               "int variable labels, plus one stream with variables named like lag tuples (other label families: C15)",
               "edge/node attributes are not part of the property; 3-tuple (u, v, data) batch elements are not passed (the CPDAG batch "
               "method unpacks pairs)",
               "non-stationary instances (constructor argument stationary=False / set_stationarity(False)) are NOT modelled: the property's "
               "subject is the stationary graph, for them shift-completeness is not intended and add/remove act on single edges "
               "(remove_edge of an absent edge raises NetworkXError); observed on the current code, outside the quantifier and not "
               "judged: copy() of such an instance builds self.__class__() and therefore returns a STATIONARY graph whose re-added edges "
               "get all homologous copies (copy != original)",
               "StationaryTimeSeriesMixedEdgeGraph built from layer graphs: constructor edge lists of the second layer only mention variables "
               "of the first (MixedEdgeGraph.__init__ registers graphs[0].nodes only: C02's subject, fixes/C02-ctor-node-union.patch)",
               "CPDAG batches are validated against the evolving state (the C03 repair 291cb6e of add_edges_from), as in the model"]
SPOT_N = 12
IMPL_TIMEOUT = 60


# ---------------------------------------------------------------------------------------------- generation
def _alphabet(cls):
    ops = []
    for ly in range(len(LAYER_NAMES[cls])):
        ops.append(["ae", ly, [0, 1], [1, 0]])
        ops.append(["ae", ly, [0, 0], [1, 0]])
        ops.append(["re", ly, [0, 1], [1, 0]])
    ops.append(["aes", 0, [[[1, 2], [1, 0]], [[1, 0], [0, 0]]]])
    ops += [["av", 2], ["rv", 0], ["sml", 1], ["sml", 2], ["sml", 3], ["cp"]]
    if cls >= 3:
        ops += [["or", [0, 1], [1, 0]], ["or", [1, 0], [0, 1]], ["or", [0, 0], [1, 0]], ["or", [1, 0], [0, 0]]]
    return ops


def _rand_node(rng, nv, L):
    a = rng.choice(list(range(L + 1)) * 4 + [L + 1])
    return [rng.randrange(nv), a]


def _rand_edge(rng, cls, ly, nv, L, allow_bad):
    u, v = _rand_node(rng, nv, L), _rand_node(rng, nv, L)
    if u[1] < v[1] and not (allow_bad and rng.random() < 0.15):
        u, v = v, u
    return [u, v]


def _rand_history(rng, cls, nv, L0, length):
    ops, L = [], L0
    nl = len(LAYER_NAMES[cls])
    for _ in range(length):
        r = rng.random()
        ly = rng.randrange(nl)
        if nl > 1 and rng.random() < 0.02:
            ly = nl  # unknown edge type
        bad_ok = True
        if r < 0.30:
            u, v = _rand_edge(rng, cls, ly, nv, L, bad_ok)
            ops.append(["ae", ly, u, v])
        elif r < 0.40:
            es = [_rand_edge(rng, cls, ly, nv, L, bad_ok) for _ in range(rng.randint(0, 3))]
            ops.append(["aes", ly, _with_dups(rng, es)])
        elif r < 0.55:
            u, v = _rand_edge(rng, cls, ly, nv, L, True)
            ops.append(["re", ly, u, v])
        elif r < 0.60:
            ops.append(["res", ly, _with_dups(rng, [_rand_edge(rng, cls, ly, nv, L, True) for _ in range(rng.randint(0, 3))])])
        elif r < 0.67:
            ops.append(["av", rng.randrange(nv)])
        elif r < 0.74:
            ops.append(["rv", rng.randrange(nv)])
        elif r < 0.90:
            n = rng.choice([0, 1, 1, 2, 2, 3, 3, 4, 4, 5, L + 1, max(1, L - 1), L, L])
            ops.append(["sml", n])
            if n > 0:
                L = n
        elif r < 0.95 or cls < 3:
            ops.append(["cp"])
        else:
            u, v = _rand_edge(rng, cls, ly, nv, L, True)
            ops.append(["or", u, v] if rng.random() < 0.7 else ["or", v, u])
        if rng.random() < 0.06:
            u, v = _rand_edge(rng, cls, ly, nv, L, True)
            ops.append(["he", ly, u, v] if rng.random() < 0.5 else ["he", ly, v, u])
        r2 = rng.random()
        if r2 < 0.03:
            ops.append([rng.choice(["rvs", "avs", "rns"]), [rng.choice(list(range(nv)) + [7]) for _ in range(rng.randint(0, 3))]])
        elif r2 < 0.05:
            ops.append(["ans", [_rand_node(rng, nv + 1, L) for _ in range(rng.randint(0, 3))]] if rng.random() < 0.5
                       else ["an", _rand_node(rng, nv + 1, L)])
        elif r2 < 0.08:
            ops.append(["bad", rng.choice([b for b in BAD_CALLS if cls >= 3 or b != "or_None"])])
    return ops


def _with_dups(rng, es):
    """duplicates inside bulk arguments: repeat one element (adjacent or at the end)"""
    if es and rng.random() < 0.3:
        j = rng.randrange(len(es))
        es = es[: j + 1] + [[list(es[j][0]), list(es[j][1])]] + es[j + 1:] if rng.random() < 0.5 else es + [[list(es[j][0]), list(es[j][1])]]
    return es


def _boundary_histories(cls, L0):
    """targeted boundary histories: a variable with edges at several lags in one layer, then two ops out of: remove that
    variable / the other one, set_max_lag to the same value / by several steps up and down / to 0, copy, batches that are
    empty or list the same edge twice"""
    for ly in range(len(LAYER_NAMES[cls])):
        prefix = [["ae", ly, [0, 0], [1, 0]], ["ae", ly, [0, 1], [1, 0]], ["ae", ly, [0, L0], [1, 0]],
                  ["ae", ly, [1, 1], [0, 0]], ["ae", ly, [0, 1], [0, 0]]]
        tails = [["rv", 0], ["rv", 1], ["av", 0], ["sml", L0], ["sml", L0 + 2], ["sml", L0 + 3], ["sml", 1], ["sml", 0], ["cp"],
                 ["aes", ly, []], ["res", ly, []],
                 ["aes", ly, [[[1, 1], [1, 0]], [[1, 1], [1, 0]]]], ["res", ly, [[[0, 1], [1, 0]], [[0, 1], [1, 0]]]],
                 ["aes", ly, [[[1, 1], [1, 0]], [[1, L0 + 1], [1, 0]], [[1, 1], [1, 0]]]]]
        for t1 in tails:
            for t2 in tails:
                yield prefix + [list(t1), list(t2)]


def _stale_histories(cls, L0):
    """state that could go stale across calls: warm-up queries right before (case["warm_at"] = op indices), then edits that keep the
    node count (swap one variable for another, move an edge to another variable / lag / layer) followed by an op that
    reads the derived state (set_max_lag up / down, copy, remove_variable)"""
    nl = len(LAYER_NAMES[cls])
    for ly in range(nl):
        ly2 = (ly + 1) % nl
        edits = [[["rv", 0], ["av", 2]], [["rv", 1], ["av", 2], ["ae", ly, [2, 1], [0, 0]]],
                 [["re", ly, [0, 1], [1, 0]], ["ae", ly, [1, 1], [0, 0]]], [["re", ly, [0, 1], [1, 0]], ["ae", ly2, [0, 1], [1, 0]]],
                 [["re", ly, [0, 1], [1, 0]], ["ae", ly, [0, 0], [1, 0]]], [["sml", L0 + 1], ["sml", L0]]]
        readers = [[["sml", L0 + 1]], [["sml", L0 + 2], ["sml", 1]], [["cp"], ["sml", L0 + 1]], [["rv", 1], ["sml", L0 + 1]],
                   [["sml", 1], ["sml", L0 + 1]]]
        for e in edits:
            for r in readers:
                yield [["av", 0], ["ae", ly, [0, 1], [1, 0]], ["ae", ly, [1, 0], [1, 0]]] + [list(o) for o in e] + [list(o) for o in r]


def _order_histories(cls, L0):
    """argument-order freedom: one template (lagged / contemporaneous / auto-lagged) in one layer, then EVERY edge-naming
    op (add, remove, has_edge, orient_uncertain_edge, the bulk forms, add / has_edge in the next layer) naming that edge
    earlier-first and later-first, by the copy it was inserted with and by a homologous copy one lag further back, then an
    observing / follow-up op.  A raise must leave everything unchanged (the model state is the pre-state)."""
    nl = len(LAYER_NAMES[cls])
    for ly in range(nl):
        ly2 = (ly + 1) % nl
        for u, v in ([[0, 1], [1, 0]], [[0, 0], [1, 0]], [[1, 0], [0, 0]], [[0, 1], [0, 0]]):
            u1, v1 = [u[0], u[1] + 1], [v[0], v[1] + 1]
            for a, b in ((u, v), (v, u), (u1, v1), (v1, u1)):
                mids = [["ae", ly, a, b], ["re", ly, a, b], ["he", ly, a, b], ["aes", ly, [[a, b]]], ["res", ly, [[a, b]]],
                        ["res", ly, [[a, b], [b, a]]], ["aes", ly, [[a, b], [b, a]]]]
                if nl > 1:
                    mids += [["ae", ly2, a, b], ["he", ly2, a, b], ["he", nl, a, b]]
                if cls >= 3:
                    mids += [["or", a, b]]
                tails = [["he", ly, u, v], ["re", ly, u, v], ["sml", L0 + 1], ["cp"]]
                if cls >= 3:
                    tails += [["or", u, v], ["or", v, u], ["he", 0, u, v]]
                for m in mids:
                    for t in tails:
                        yield [["ae", ly, u, v], [m[0]] + [x for x in m[1:]], list(t)]


def _bulk_histories(cls, L0):
    """bulk node / variable ops with unknown (7, 8) and repeated names placed first / in the middle / last, and malformed
    calls, on a graph with edges; then an op that reads the result (copy, set_max_lag up, has_edge)"""
    nl = len(LAYER_NAMES[cls])
    for ly in range(nl):
        prefix = [["ae", ly, [0, 1], [1, 0]], ["ae", ly, [1, L0], [2, 0]], ["ae", ly, [0, 0], [2, 0]]]
        lists = [[7, 0], [0, 7], [0, 7, 1], [7, 8, 2], [2, 2, 1], [1, 2, 2], [0, 1, 0, 2], [], [7], [1]]
        mids = [["rvs", l] for l in lists] + [["avs", l] for l in lists] + [["rns", l] for l in ([0], [2, 0], [1, 1, 7, 0], [])]
        mids += [["ans", [[3, 0], [4, L0]]], ["ans", [[3, 0], [4, L0 + 1]]], ["ans", [[3, L0 + 1], [4, 0]]], ["ans", [[3, 1], [3, 1], [0, 0]]],
                 ["ans", []], ["an", [3, L0]], ["an", [3, L0 + 1]], ["an", [0, 0]]]
        mids += [["bad", b] for b in BAD_CALLS if cls >= 3 or b != "or_None"]
        tails = [["cp"], ["sml", L0 + 1], ["he", ly, [0, 1], [1, 0]], ["rvs", [1, 7]]]
        for m in mids:
            for t in tails:
                yield prefix + [list(m), list(t)]


def _rand_init(rng, cls, nv, L):
    """valid constructor edge lists per layer (only layers without a cross-layer validity check get edges)"""
    nl = len(LAYER_NAMES[cls])
    init = [[] for _ in range(nl)]
    for ly in ([0] if cls != 2 else [0, 1]):
        for _ in range(rng.randint(0, 3)):
            a, b = sorted((rng.randint(0, L), rng.randint(0, L)), reverse=True)
            x, y = rng.randrange(nv), rng.randrange(nv)
            if a == b and (x >= y):
                continue   # keep contemporaneous init edges acyclic / loop free (the CPDAG / PAG constructors validate)
            if ly == 1 and not ({x, y} <= set(n[0] for e in init[0] for n in e)):
                continue   # MixedEdgeGraph.__init__ registers the nodes of the FIRST layer graph only (C02's subject)
            init[ly].append([[x, a], [y, b]])
    return init


def gen_cases(tier, rng):
    full = 2 if tier == "quick" else 3
    for cls in range(5):
        alpha = _alphabet(cls)
        for L0 in (1, 2):
            for seq in itertools.product(alpha, repeat=full):
                yield {"kind": "exh%d" % full, "cls": cls, "L": L0, "ops": [list(o) for o in seq]}
            if tier == "quick":
                for _ in range(250):
                    yield {"kind": "exh3-sample", "cls": cls, "L": L0, "ops": [list(rng.choice(alpha)) for _ in range(3)],
                           "var": rng.randrange(1 << 30)}
        for L0 in (2, 3):
            for k, ops in enumerate(_boundary_histories(cls, L0)):
                c = {"kind": "boundary", "cls": cls, "L": L0, "ops": ops}
                if k % 2:
                    c["var"] = rng.randrange(1 << 30)
                yield c
            if L0 == 2:
                for k, ops in enumerate(_order_histories(cls, L0)):
                    c = {"kind": "order", "cls": cls, "L": L0, "ops": ops}
                    if cls >= 2 and k % 4 == 0:
                        c["_layers"] = "rot"
                    yield c
                for k, ops in enumerate(_bulk_histories(cls, L0)):
                    c = {"kind": "bulk", "cls": cls, "L": L0, "ops": ops}
                    if k % 2:
                        c["var"] = 1000 + k
                    if cls >= 2 and k % 5 == 0:
                        c["_layers"] = "rot"
                    yield c
            for ops in _stale_histories(cls, L0):
                # warm up once, right before the count-preserving edit (a query in between would refresh a memo)
                yield {"kind": "stale", "cls": cls, "L": L0, "ops": ops, "warm_at": [3]}
    nr, length = (60, 20) if tier == "quick" else (400, 150)
    for cls in range(5):
        for i in range(nr):
            nv = rng.choice([2, 3])
            L0 = rng.randint(1, 4)
            c = {"kind": "rand", "cls": cls, "L": L0, "ops": _rand_history(rng, cls, nv, L0, length)}
            if i % 2:
                c["var"] = rng.randrange(1 << 30)
            if cls >= 2 and i % 3 == 0:
                c["_layers"] = "rot"
            yield c
        for i in range(nr // 2):
            nv = rng.choice([2, 3])
            L0 = rng.randint(1, 4)
            yield {"kind": "rand-lagtuple", "cls": cls, "L": L0,
                   "ops": [o for o in _rand_history(rng, cls, nv, L0, length) if o[0] not in ("ans", "bad")], "_lab": "lagtuple",
                   "var": rng.randrange(1 << 30)}
            L0 = rng.randint(1, 4)
            yield {"kind": "rand-init", "cls": cls, "L": L0, "ops": _rand_history(rng, cls, nv, L0, length),
                   "init": _rand_init(rng, cls, nv, L0), "var": rng.randrange(1 << 30)}


# ---------------------------------------------------------------------------------------------- model side
def _all_ops(case):
    """constructor edge lists are modelled as one add_edges_from per layer on the empty graph"""
    pre = [["aes", ly, es] for ly, es in enumerate(case["init"])] if case.get("init") is not None else []
    return pre + case["ops"]


def encode(case):
    ops = []
    for o in _all_ops(case):
        if o[0] == "bad":
            ops.append([OPC["bad"]])
        else:
            ops.append([OPC[o[0]]] + list(o[1:]))
    return [case["cls"], case["L"], ops]


def _canon_state(L, nodes, layers):
    return {"L": L, "nodes": sorted(set(tuple(n) for n in nodes)),
            "layers": [[ll, sorted(set((tuple(u), tuple(v)) for u, v in es))] for ll, es in layers]}


def decode(case, v):
    steps = []
    for raised, st, ans in v:
        _c, L, nodes, layers = st
        d = _canon_state(L, nodes, layers)
        d["raised"] = raised
        d["answer"] = ans
        steps.append(d)
    if case.get("init") is not None:
        k = len(case["init"])
        first = dict(steps[k - 1], raised=int(any(st["raised"] for st in steps[:k])))
        steps = [first] + steps[k:]
    return {"steps": steps}


# ---------------------------------------------------------------------------------------------- implementation side
def _build(cls, L, init=None):
    """init: per layer a list of edges passed to the constructor (the SAME list objects may be passed to two objects)"""
    from pywhy_graphs.classes.timeseries import (StationaryTimeSeriesCPDAG, StationaryTimeSeriesDiGraph,
                                                 StationaryTimeSeriesGraph, StationaryTimeSeriesMixedEdgeGraph,
                                                 StationaryTimeSeriesPAG)
    i0 = init[0] if init is not None else None
    if cls == 0:
        return StationaryTimeSeriesGraph(i0, max_lag=L)
    if cls == 1:
        return StationaryTimeSeriesDiGraph(i0, max_lag=L)
    if cls == 2:
        return StationaryTimeSeriesMixedEdgeGraph(
            graphs=[StationaryTimeSeriesDiGraph(i0, max_lag=L),
                    StationaryTimeSeriesGraph(init[1] if init is not None else None, max_lag=L)],
            edge_types=["directed", "bidirected"], max_lag=L)
    if cls == 3:
        return StationaryTimeSeriesCPDAG(incoming_directed_edges=i0, max_lag=L)
    return StationaryTimeSeriesPAG(incoming_directed_edges=i0, max_lag=L)


def _labeler(case):
    """variable labels; the extra family 'lagtuple' names variables like lag tuples / ts-nodes: (v, 0), (v, -1)"""
    if (case or {}).get("_lab") == "lagtuple":
        table = {}

        def lab(v):
            x = (v, -(v % 2))
            table[x] = v
            return x
        return lab, (lambda x: table[x])
    return gr.labeler(case)


def _warm(G, cls):
    """warm-up queries (must not change anything, may fill caches): every one individually guarded"""
    qs = [lambda: list(G.nodes), lambda: G.variables, lambda: G.max_lag, lambda: G.number_of_nodes(), lambda: str(G),
          lambda: G.nodes_at(0), lambda: G.adj, lambda: [G.lagged_neighbors(n) for n in G.nodes_at(0)],
          lambda: [G.contemporaneous_neighbors(n) for n in G.nodes_at(0)]]
    if cls <= 1:
        qs += [lambda: list(G.edges), lambda: G.contemporaneous_edges, lambda: G.lag_edges, lambda: G.number_of_edges()]
    else:
        qs += [lambda: {k: list(v) for k, v in G.edges().items()}, lambda: {k: list(g.edges) for k, g in G.get_graphs().items()},
               lambda: G.edge_types, lambda: G.number_of_edges()]
    for q in qs:
        try:
            q()
        except Exception:  # noqa
            pass


def _cedge(ordered, u, v):
    """canonical form of an edge of an unordered layer: earlier node first, at equal lags smaller variable first"""
    if ordered:
        return (u, v)
    if u[1] < v[1] or (u[1] == v[1] and v[0] < u[0]):
        return (v, u)
    return (u, v)


def _lagval(x):
    """max_lag as an int; anything that is not a plain integer is reported as its repr (and so differs from the model)"""
    import numbers
    if isinstance(x, numbers.Integral) and not isinstance(x, bool):
        return int(x)
    return repr(x)


BAD_CALLS = ["ae_None_u", "ae_None_v", "ae_scalar", "ae_1tuple", "ae_poslag", "ae_strlag", "re_None", "re_scalar", "aes_None",
             "aes_good_None", "aes_good_1tuple", "aes_good_4tuple", "aes_arg_None", "aes_good_scalar", "res_good_None",
             "res_good_1tuple", "sml_None", "sml_str", "sml_float_up", "sml_float_next", "sml_float_down", "sml_neg",
             "an_None", "an_scalar", "an_1tuple", "an_poslag", "ans_good_None", "ans_good_scalar", "avs_None", "rvs_None",
             "rv_unhashable", "av_unhashable", "or_None"]


def _bad_call(G, name, kw, lab):
    """malformed arguments, one position at a time; 'good' elements placed BEFORE the bad one in bulk lists"""
    u, v = (lab(0), -1), (lab(1), 0)
    good = ((lab(2), -1), (lab(2), 0))
    L = G.max_lag
    table = {
        "ae_None_u": lambda: G.add_edge(None, v, *kw), "ae_None_v": lambda: G.add_edge(u, None, *kw),
        "ae_scalar": lambda: G.add_edge(lab(0), v, *kw), "ae_1tuple": lambda: G.add_edge((lab(0),), v, *kw),
        "ae_poslag": lambda: G.add_edge((lab(0), 1), v, *kw), "ae_strlag": lambda: G.add_edge((lab(0), "a"), v, *kw),
        "re_None": lambda: G.remove_edge(None, v, *kw), "re_scalar": lambda: G.remove_edge(u, lab(1), *kw),
        "aes_None": lambda: G.add_edges_from([None], *kw), "aes_good_None": lambda: G.add_edges_from([good, None], *kw),
        "aes_good_1tuple": lambda: G.add_edges_from([good, (u,)], *kw),
        "aes_good_4tuple": lambda: G.add_edges_from([good, (u, v, u, v)], *kw),
        "aes_arg_None": lambda: G.add_edges_from(None, *kw), "aes_good_scalar": lambda: G.add_edges_from([good, 5], *kw),
        "res_good_None": lambda: G.remove_edges_from([(u, v), None], *kw),
        "res_good_1tuple": lambda: G.remove_edges_from([(u, v), (u,)], *kw),
        "sml_None": lambda: G.set_max_lag(None), "sml_str": lambda: G.set_max_lag(str(L + 1)),
        "sml_float_up": lambda: G.set_max_lag(L + 0.5), "sml_float_next": lambda: G.set_max_lag(float(L + 1)),
        "sml_float_down": lambda: G.set_max_lag(L - 0.5), "sml_neg": lambda: G.set_max_lag(-1),
        "an_None": lambda: G.add_node(None), "an_scalar": lambda: G.add_node(lab(3)), "an_1tuple": lambda: G.add_node((lab(3),)),
        "an_poslag": lambda: G.add_node((lab(3), 1)),
        "ans_good_None": lambda: G.add_nodes_from([(lab(3), 0), None]), "ans_good_scalar": lambda: G.add_nodes_from([(lab(3), 0), 5]),
        "avs_None": lambda: G.add_variables_from(None), "rvs_None": lambda: G.remove_variables_from(None),
        "rv_unhashable": lambda: G.remove_variable([lab(0)]), "av_unhashable": lambda: G.add_variable([lab(0)]),
        "or_None": lambda: G.orient_uncertain_edge(None, v),
    }
    return table[name]()


def _snap(G, cls, inv):
    def nd(n):
        return (inv(n[0]), -int(n[1]))
    out = {"L": _lagval(G.max_lag), "nodes": sorted(set(nd(n) for n in G.nodes))}
    if cls <= 1:
        out["layers"] = [[_lagval(G.max_lag), sorted(set(_cedge(ORDERED[cls][0], nd(u), nd(v)) for u, v in G.edges))]]
    else:
        layers = []
        names = LAYER_NAMES[cls]
        gs = G.get_graphs()
        if sorted(gs.keys()) != sorted(names):
            out["layer_names"] = list(gs.keys())
        for k, name in enumerate(names):
            lg = gs[name]
            layers.append([_lagval(lg.max_lag), sorted(set(_cedge(ORDERED[cls][k], nd(u), nd(v)) for u, v in lg.edges))])
            if sorted(set(nd(n) for n in lg.nodes)) != out["nodes"]:
                out["layer_nodes_differ"] = name
        out["layers"] = layers
    return out


def run_impl(case):
    import copy as _copy
    import random as _random
    import warnings
    warnings.filterwarnings("ignore")
    cls = case["cls"]
    lab, inv = _labeler(case)
    names = LAYER_NAMES[cls]
    var = case.get("var")

    spell = {"np": False}

    def node(n):
        if spell["np"]:
            import numpy as _np
            return (lab(n[0]), _np.int64(-n[1]))   # the library itself creates such nodes (np.abs in add_homologous_edges)
        return (lab(n[0]), -n[1])

    def edges(es):
        return [(node(u), node(v)) for u, v in es]

    def lname(i):
        return names[i] if i < len(names) else "no_such_edge_type"

    steps = []
    init = None
    if case.get("init") is not None:
        init = [edges(es) for es in case["init"]]
        init_before = _copy.deepcopy(init)
    G = _build(cls, case["L"], init)
    if case.get("_layers") == "rot" and cls >= 2:
        # first edge-type layer removed and re-added through the public API: edge_types gets another order
        first = G.edge_types[0]
        lg = G.get_graphs(first)
        G.remove_edge_type(first)
        G.add_edge_type(lg, first)
    # a second live object from the SAME constructor arguments: must stay as built whatever happens to G
    twin = _build(cls, case["L"], init)
    twin0 = _snap(twin, cls, inv)
    if init is not None:
        st = _snap(G, cls, inv)
        if twin0 != st:
            st["twin_differs"] = True
        st["raised"] = 0
        if init != init_before:
            st["argument_mutated"] = True
        steps.append(st)

    originals = []
    for idx, o in enumerate(case["ops"]):
        rv = _random.Random("%s:%d" % (var, idx)) if var is not None else None
        if idx in case.get("warm_at", ()) or (rv is not None and rv.random() < 0.35):
            _warm(G, cls)
            for H, _b in originals:
                _warm(H, cls)
        spell["np"] = rv is not None and rv.random() < 0.25
        pre_vars = set(n[0] for n in G.nodes)
        raised, exc, extra = 0, None, {}
        try:
            k = o[0]
            kw = [] if (cls <= 1 or k not in ("ae", "aes", "re", "res")) else [lname(o[1])]
            if k == "ae":
                G.add_edge(node(o[2]), node(o[3]), *kw)
            elif k in ("aes", "res"):
                arg = edges(o[2])
                kind = rv.choice(["list", "list", "tuple", "gen", "iter"]) if rv is not None else "list"
                before = _copy.deepcopy(arg)
                passed = {"list": arg, "tuple": tuple(arg), "gen": (e for e in arg), "iter": iter(arg)}[kind]
                try:
                    if k == "aes":
                        G.add_edges_from(passed, *kw)
                    else:
                        G.remove_edges_from(passed, *kw)
                finally:
                    if arg != before:
                        extra["argument_mutated"] = True
            elif k == "re":
                G.remove_edge(node(o[2]), node(o[3]), *kw)
            elif k == "av":
                G.add_variable(lab(o[1]))
            elif k == "rv":
                G.remove_variable(lab(o[1]))
            elif k == "sml":
                G.set_max_lag(o[1])
            elif k in ("avs", "rvs", "ans", "rns"):
                if k == "ans":
                    arg = [node(n) for n in o[1]]
                elif k == "rns":
                    present = set(n[0] for n in G.nodes)
                    arg = [n for x in dict.fromkeys(o[1]) if lab(x) in present for n in sorted(G.nodes, key=repr) if n[0] == lab(x)]
                else:
                    arg = [lab(x) for x in o[1]]
                kind = rv.choice(["list", "list", "tuple", "gen", "iter"]) if rv is not None else "list"
                before = list(arg)
                passed = {"list": arg, "tuple": tuple(arg), "gen": (e for e in arg), "iter": iter(arg)}[kind]
                try:
                    {"avs": G.add_variables_from, "rvs": G.remove_variables_from, "ans": G.add_nodes_from,
                     "rns": G.remove_nodes_from}[k](passed)
                finally:
                    if arg != before:
                        extra["argument_mutated"] = True
            elif k == "an":
                G.add_node(node(o[1]))
            elif k == "bad":
                _bad_call(G, o[1], [] if cls <= 1 else [names[0]], lab)
            elif k == "or":
                G.orient_uncertain_edge(node(o[1]), node(o[2]))
            elif k == "he":
                extra["answer"] = int(bool(G.has_edge(node(o[2]), node(o[3]), *([] if cls <= 1 else [lname(o[1])]))))
            elif k == "cp":
                H = G.copy()
                extra["copy_class"] = type(H).__name__
                originals.append((G, _snap(G, cls, inv)))
                G = H
        except Exception as e:  # noqa  (the property does not fix exception classes)
            raised, exc = 1, type(e).__name__
        resync = 0
        if raised:
            try:
                for x in sorted(set(n[0] for n in G.nodes) - pre_vars, key=repr):
                    G.remove_variable(x)
                    resync += 1
            except Exception:  # noqa
                pass
        st = _snap(G, cls, inv)
        st["raised"] = raised
        if exc:
            st["exc"] = exc
        if resync:
            st["resync"] = resync
        st.update(extra)
        for H, before in originals:
            if _snap(H, cls, inv) != before:
                st["original_mutated"] = True
        if _snap(twin, cls, inv) != twin0:
            st["twin_mutated"] = True
        steps.append(st)
    return {"steps": steps}


# ---------------------------------------------------------------------------------------------- comparison
def _first_diff(case, impl, model):
    """(step index, observable name) of the first difference, or None"""
    if "exc" in impl and "steps" not in impl:
        return (0, "harness-exception")
    for i, (a, b) in enumerate(zip(impl["steps"], model["steps"])):
        if a["raised"] != b["raised"]:
            return (i, "raised" if a["raised"] else "not-raised")
        if a["L"] != b["L"]:
            return (i, "max_lag")
        if [list(n) for n in a["nodes"]] != [list(n) for n in b["nodes"]]:
            return (i, "nodes")
        if [l[0] for l in a["layers"]] != [l[0] for l in b["layers"]]:
            return (i, "layer-max_lag")
        if a["layers"] != b["layers"]:
            return (i, "edges")
        if "layer_nodes_differ" in a or "layer_names" in a:
            return (i, "layer-nodes")
        if a.get("answer", 0) != b.get("answer", 0):
            return (i, "answer")
        if "copy_class" in a and a["copy_class"] != CLS_NAMES[case["cls"]]:
            return (i, "copy-class")
        if a.get("original_mutated"):
            return (i, "original-mutated")
        if a.get("twin_mutated") or a.get("twin_differs"):
            return (i, "twin-object")
        if a.get("argument_mutated"):
            return (i, "argument-mutated")
    if len(impl["steps"]) != len(model["steps"]):
        return (min(len(impl["steps"]), len(model["steps"])), "length")
    return None


def compare(case, impl, model):
    d = _first_diff(case, impl, model)
    if d is None:
        return None
    i, what = d
    names = (["init"] if case.get("init") is not None else []) + [o[0] for o in case["ops"]]
    op = names[i] if i < len(names) else "?"
    return "%s:%s" % (op, what)


def classify(case, impl, model):
    return None


def nontrivial(case, model):
    seen_edge = False
    steps = model["steps"][1:] if case.get("init") is not None else model["steps"]
    for o, st in zip(case["ops"], steps):
        if seen_edge and not st["raised"] and o[0] in ("sml", "rv", "cp"):
            return True
        if any(l[1] for l in st["layers"]):
            seen_edge = True
    return False


def key(case):
    import json
    return json.dumps([case["cls"], case["L"], case["ops"], case.get("init"), case.get("var"), case.get("_lab"), case.get("warm_at"), case.get("_layers")])


def shrink(case):
    ops = case["ops"]
    n = len(ops)
    # cut the tail after the first difference is not known here: try halves, then single deletions
    if n > 4:
        yield dict(case, ops=ops[: n // 2])
        yield dict(case, ops=ops[: (3 * n) // 4])
    for i in range(n - 1, -1, -1):
        yield dict(case, ops=ops[:i] + ops[i + 1:])
    for i, o in enumerate(ops):
        if o[0] in ("aes", "res") and len(o[2]) > 0:
            for j in range(len(o[2])):
                yield dict(case, ops=ops[:i] + [[o[0], o[1], o[2][:j] + o[2][j + 1:]]] + ops[i + 1:])
    for i, o in enumerate(ops):
        if o[0] in ("avs", "rvs", "ans", "rns") and len(o[1]) > 0:
            for j in range(len(o[1])):
                yield dict(case, ops=ops[:i] + [[o[0], o[1][:j] + o[1][j + 1:]]] + ops[i + 1:])
    if case["L"] > 1:
        yield dict(case, L=case["L"] - 1)
    if case.get("var") is not None:
        yield {k: v for k, v in case.items() if k != "var"}
    if case.get("init") is not None:
        yield {k: v for k, v in case.items() if k != "init"}
        for ly, es in enumerate(case["init"]):
            for j in range(len(es)):
                yield dict(case, init=[e if l != ly else es[:j] + es[j + 1:] for l, e in enumerate(case["init"])])
    if case.get("_lab") is not None:
        yield {k: v for k, v in case.items() if k != "_lab"}
    if case.get("_layers") is not None:
        yield {k: v for k, v in case.items() if k != "_layers"}
