"""C14 — export followed by import reproduces the graph in every format (numpy enumeration, causal-learn
endpoint matrix, pcalg amat, Tetrad text, ts lag arrays); import then export of a well-formed matrix is the identity;
the matrices carry the documented endpoint codes."""
import itertools
import os
import tempfile

import graphs as gr

PROP = "C14"
CLS = ["ADMG", "CPDAG", "PAG"]
FMT = ["numpy", "clearn", "pcalg", "tetrad"]

# per-pair edge configurations (a<b) each class admits
PAIR = {
    "none": {}, "->": {"D": [(0, 1)]}, "<-": {"D": [(1, 0)]}, "<->": {"B": [(0, 1)]}, "--": {"U": [(0, 1)]},
    "o-o": {"C": [(0, 1), (1, 0)]}, "o->": {"D": [(0, 1)], "C": [(1, 0)]}, "<-o": {"D": [(1, 0)], "C": [(0, 1)]},
    "-o": {"C": [(0, 1)]}, "o-": {"C": [(1, 0)]},
    "->&<->": {"D": [(0, 1)], "B": [(0, 1)]}, "<-&<->": {"D": [(1, 0)], "B": [(0, 1)]},
    "->&--": {"D": [(0, 1)], "U": [(0, 1)]}, "<-&--": {"D": [(1, 0)], "U": [(0, 1)]},
    "<->&--": {"B": [(0, 1)], "U": [(0, 1)]},
    "->&<->&--": {"D": [(0, 1)], "B": [(0, 1)], "U": [(0, 1)]}, "<-&<->&--": {"D": [(1, 0)], "B": [(0, 1)], "U": [(0, 1)]},
}
KINDS = {
    "ADMG": ["none", "->", "<-", "<->", "--", "->&<->", "<-&<->", "->&--", "<-&--", "<->&--", "->&<->&--", "<-&<->&--"],
    "CPDAG": ["none", "->", "<-", "--"],
    "PAG": ["none", "->", "<-", "<->", "--", "o-o", "o->", "<-o", "-o", "o-"],
}


def from_kinds(n, kinds):
    g = {"V": list(range(n)), "D": [], "B": [], "U": [], "C": []}
    for (a, b), k in zip(gr.pairs(n), kinds):
        for layer, es in PAIR[k].items():
            for (i, j) in es:
                g[layer].append([(a, b)[i], (a, b)[j]])
    return g


def enum_graphs(cls, n):
    for ks in itertools.product(KINDS[cls], repeat=len(gr.pairs(n))):
        g = from_kinds(n, ks)
        if gr.is_acyclic(n, g["D"]):
            yield g


# ---- generation-only mirror of the documented codes (used to BUILD well-formed matrices / token lists; the
# expected answers always come from the Coq model, which also re-decides well-formedness)
def _gen_cell(fmt, cls, g, a, b):
    d = lambda x, y: [x, y] in g["D"]  # noqa: E731
    c = lambda x, y: [x, y] in g["C"]  # noqa: E731
    s = lambda L, x, y: [x, y] in g[L] or [y, x] in g[L]  # noqa: E731
    adj = d(a, b) or d(b, a) or c(a, b) or c(b, a) or s("B", a, b) or s("U", a, b)
    if fmt == "numpy":
        return 1 * d(a, b) + 2 * c(a, b) + 10 * s("U", a, b) + 20 * s("B", a, b)
    if fmt == "clearn":
        if c(b, a):
            return 2
        t, h = d(a, b) + s("U", a, b), d(b, a) + s("B", a, b)
        return {(0, 0): -1 if c(a, b) else 0, (1, 0): -1, (0, 1): 1, (1, 1): 4, (0, 2): 5, (2, 0): 6}.get((t, h), 3)
    if fmt == "pcalg" and cls == "CPDAG":
        return 1 if d(b, a) or s("U", a, b) else 0
    return 1 if c(a, b) else 2 if d(a, b) or s("B", a, b) else 3 if adj else 0


def _gen_matrix(fmt, cls, g, order):
    return [[0 if a == b else _gen_cell(fmt, cls, g, a, b) for b in order] for a in order]


def _gen_tokens(cls, g, rng=None):
    toks = []
    for a, b in gr.pairs(len(g["V"])):
        mb, ma = _gen_cell("tetrad", cls, g, a, b), _gen_cell("tetrad", cls, g, b, a)
        if mb == 0:
            continue
        s3 = {1: "o", 2: "<", 3: "-"}[ma] + "-" + {1: "o", 2: ">", 3: "-"}[mb]
        if rng is not None and rng.random() < 0.5:
            a, b, s3 = b, a, mirror(s3)
        toks.append([a, b, s3])
    return toks


def mirror(s3):
    return "".join({"<": ">", ">": "<"}.get(ch, ch) for ch in reversed(s3))


def expressible(fmt, cls, kinds):
    if fmt == "pcalg" and cls == "ADMG":
        return False
    if cls == "ADMG":
        lim = {"numpy": 3, "clearn": 2, "tetrad": 1}[fmt]
        return all(k.count("&") + 1 <= lim for k in kinds if k != "none")
    return True


# Tetrad text grammar demanded of labels: non-empty, no whitespace, no ';' (the separator of the node line).  Everything else
# must round-trip exactly.  pre_build compares this set with the one the translated parser of the repo under test reserves.
TETRAD_RESERVED = [";"]
TETRAD_SPECIALS = ["007", "42", "-->", "<--", "o-o", "<->", "---", "o->", "1.", "2.", "Nodes:", "Edges:", "Graph", "Graph_Nodes:",
                   ".", ":", "-", ">", "<", "o", "a,b", ",", "x|y", "1.5", "-1"]
# non-ASCII names (the writer and the reader must use the same encoding): Greek, accented Latin (precomposed and with a
# combining accent), CJK, emoji, sharp s / dotted capital I (case-mapping oddities), zero-width space, BOM inside a name
TETRAD_NONASCII = ["\u03b1", "\u03b1\u03b2\u03b3", "\u00e9", "e\u0301", "caf\u00e9", "\u8282\u70b9", "\U0001F600", "x\U0001F600y", "\u00df",
                   "\u0130", "x\u200by", "\ufeffx", "\u00b2", "U\u00b2", "U\u2460", "\u00ff", "\u00c3\u00a9", "\u0416-->\u0416"]
# U+00A0 / U+2003 / U+0085 / U+2028 / U+001C are whitespace for str.split(): outside the grammar, like a blank
TETRAD_INEXPRESSIBLE = ["a\u00a0b", "\u00a0", "a\u2003b", "a\u0085b", "a\u2028b", "\u001c","Graph Nodes:", "Graph Edges:", "a b", "x Nodes:", " lead", "trail ", "a\tb", "x;y", ";", "", " ", "a\nb"]


def tetrad_expressible(label):
    return label != "" and label.split() == [label] and not any(c in label for c in TETRAD_RESERVED)


LAYOUTS = ["F", "T", "slice", "ro", "F+ro", "slice+T"]


def _layout(A, lay):
    """the same values, another memory layout"""
    import numpy as np
    for step in (lay or "").split("+"):
        if step == "F":
            A = np.asfortranarray(A)
        elif step == "T":
            A = np.ascontiguousarray(A.T).T            # a transposed view of a C array
        elif step == "slice":
            big = np.full((2 * A.shape[0] + 1, 3 * A.shape[1]), 7, dtype=A.dtype)
            big[1::2, ::3] = A
            A = big[1::2, ::3]                         # non-contiguous view
        elif step == "ro":
            A = A.copy(order="K")
            A.setflags(write=False)
    return A


WEIGHTS = [0, -1, -2.5, 0.5, 3]
DTYPES = ["bool", "int8", "uint8", "float64", "object"]     # besides the default int64


def _fitting_dtypes(m):
    vals = {v for r in m for v in r}
    out = []
    for dt in DTYPES:
        if dt == "bool" and not vals <= {0, 1}:
            continue
        if dt == "uint8" and min(vals) < 0:
            continue
        out.append(dt)
    return out


ALPHABET = {"numpy": list(range(0, 34)), "clearn": list(range(-1, 7)), "pcalg": [0, 1, 2, 3]}

RULE = ("rt: for ADMG, CPDAG, PAG every acyclic graph on 2 and 3 nodes over all per-pair configurations the class admits "
        "(ADMG incl. two and three edge types on a pair, PAG incl. -o / o-), 3 node insertion orders plus construction through "
        "the class constructor's per-type edge lists (each layer with its own node order), exported to all four "
        "formats and re-imported (4 nodes sampled; thorough: more), also with edge 'weight' attributes 0 / -1 / -2.5 / 0.5 / 3 "
        "(every 2-node graph x each weight, every 3-node graph with random weights) and a sample with identity-hashed label "
        "objects (_lab obj); mat: every zero-diagonal 2x2 matrix over each format's "
        "alphabet (numpy 0..33, causal-learn -1..6, pcalg 0..3) in 2 orders and every well-formed 3x3 matrix, import then "
        "export, the well-formed ones additionally as bool / int8 / uint8 / float64 / object arrays where the values fit (all "
        "fitting dtypes for 2x2, one random dtype per 3x3) and as F-ordered / transposed-view / sliced non-contiguous / read-only "
        "arrays (input must not be modified); tet: Tetrad token lists for all such graphs through a scratch file (string labels, random line orientation); "
        "tetlab: Tetrad round trip of 3-node graphs whose str labels contain each printable ASCII punctuation character "
        "except the reserved ';' (alone, leading, trailing, inner, doubled), digits-only labels, look-alikes of edge strings / line "
        "numbers / header words ('-->', 'o-o', '1.', 'Nodes:'), random labels of length 1-6 over punctuation+alphanumerics, non-ASCII names (Greek, accented Latin precomposed and "
        "combining, CJK, emoji, superscript / circled digits, zero-width space, BOM, mojibake look-alikes) in every position: exact "
        "round trip demanded; labels the grammar cannot express (whitespace incl. U+00A0 / U+2003 / U+0085 / U+2028, ';', empty, 'Graph Nodes:') must either survive or be "
        "refused by the exporter with ValueError, never be damaged silently; the reserved set is cross-checked against the "
        "translated parser (tie T). The matrix formats carry labels in arr_idx lists, not in text. "
        "ts/tsarr: stationary directed and undirected ts graphs / lag arrays with 2 variables, max_lag<=2 exhaustive, 3 sampled. "
        "distinct by (kind, class, format, canonical graph or matrix); non-trivial = at least one edge / non-zero entry and "
        "the model defines an expected answer (the format can express the input / the matrix is well formed)")
EXHAUSTIVE = {"quick": "all class-admissible acyclic graphs n<=3 x 3 orders x 4 formats; all 2x2 matrices over the alphabets; "
                       "all well-formed 3x3 matrices; all ts graphs/arrays with 2 variables and max_lag<=2",
              "thorough": "same plus all ts graphs with max_lag=3 (directed 16384) and 4-node samples x20"}
TRUSTED = ["numpy array arithmetic (nx.to_numpy_array, argwhere, transposition), file I/O and str.split are observed through "
           "the round trip, not modelled",
           "translator /verif/translator/codecs.py (tabulating Python-ast interpreter; its tables are re-checked cell by cell "
           "against the real functions on two-node graphs on every run)"]
ASSUMPTIONS = ["default edge-type names", "Tetrad labels: strings without whitespace or ';'",
               "Tetrad files are written and read with open()'s default encoding; the check runs under UTF-8 (the sandbox's Python UTF-8 "
               "mode), where every str without lone surrogates can be encoded; the translator requires reader and writer to pass the same "
               "mode / encoding arguments",
               "ananke / causallearn packages not installed: only pywhy-graphs' own matrix functions are in scope",
               "a pair state is 'expressible' as defined by C14/Defs.v adm (clearn <=2 edge types per ADMG pair, tetrad 1, pcalg no ADMG)"]
SPOT_N = 25
LEVEL_TEXT = ("Coq (17 theorems, all closed under the global context). UNBOUNDED: pair_roundtrip_f_c / pair_roundtrip_inv_f_c (decode(encode s) = s "
              "for every expressible pair state of every format x class, and every accepted code pair re-encodes to itself; 64-state "
              "kernel computations, complete for the pair domain), documented_codes_hold (pcalg PAG 2/3, pcalg CPDAG 0/1, causal-learn "
              "-1/1/2/4/5/6, numpy 1/2/10/20 summed, the nine Tetrad strings), export_import_f_c (import(export g) has the same nodes and "
              "the same marks in every layer between every two nodes), import_export_f_c (for every well-formed matrix - square over "
              "the order, zero diagonal, every off-diagonal entry pair in the image of the class's pair encoder - export(import m) = m as "
              "a matrix: shape, diagonal and every entry; also for whatever the importer accepts, and exported matrices are well formed), "
              "export_entries_are_documented_codes - all for any number of nodes and any node order, by induction over the pair list; "
              "ts_array_roundtrip_thm / _inv_thm (lag arrays). These are about the hand-written codecs the property demands "
              "(C14/Model.v). Tie (T): graph_to_numpy (whole function, per-layer weights and sum, on the two-node graph), the per-pair "
              "chains of numpy_to_graph, graph_to_clearn, clearn_to_graph, graph_to_pcalg, pcalg_to_graph, graph_to_tetrad, "
              "tetrad_to_graph and the enums / EDGE_TO_VALUE_MAPPING of config.py are re-translated from the repo under test on every run "
              "into Gallina tables (Gen/Gen_Codecs.v, Gen_Enums.v) and the repo_* theorems prove by kernel computation that those "
              "tables, composed with the hand-written loop glue, realise the demanded codecs on every expressible state (a semantic "
              "change of a chain breaks the proof). Tie (K): the loop / array glue (that the n-node conversion is the pairwise one: "
              "nodelist ordering, argwhere order, memo maps, transposition), file I/O and the ts converters are tied by correspondence "
              "only, on the inputs listed under 'rule'.")
LEVEL_NOTE = ("Tie per codec: (T)+(K) numpy encoder and decoder, causal-learn encoder/decoder, pcalg remap/decoder, Tetrad edge-string "
              "chain and endpoint parser, config enums; (K) only: tsgraph_to_numpy / numpy_to_tsgraph, the node-pair loops and the "
              "lifting of graph_to_numpy's elementwise array operations from 2 to n nodes (nx.to_numpy_array with nodelist, masks, +=; "
              "the translator rejects a to_numpy_array call without nodelist=<the graph's nodes>), insertion guards of "
              "PAG/CPDAG.add_edge during import (the generated decoder tables record add_edge calls; the guards are only observed "
              "through the round trip). Trusted: Coq kernel incl. vm_compute, extraction + driver.ml, harness, and the translator "
              "/verif/translator/codecs.py - a whitelisting interpreter of the functions' ast over the finite pair domain with mock "
              "graph / array objects, which imports nothing from the repo and fails closed on any other construct; its 815 table cells "
              "are compared with the real functions on two-node inputs on every run. 'Expressible' (C14/Defs.v adm): ADMG pairs with "
              "<=2 edge types for causal-learn, 1 for Tetrad, no ADMG for pcalg; graph-level acyclicity is not part of the theorems. "
              "numpy / networkx are modelled, not verified.")
TECHNIQUE = ("Coq proof (64-state kernel computations + induction over the pair list, unbounded in n) about hand-written codecs; "
             "Python-ast -> Gallina table translator regenerated every run with proofs over the generated tables (tie T); "
             "extracted-model correspondence on exhaustive 2-3 node graphs / matrices / Tetrad files / ts arrays (tie K)")
IMPL_TIMEOUT = 60


# ------------------------------------------------------------------ cases
def _orders(n, rng, k=3):
    perms = list(itertools.permutations(range(n)))
    if len(perms) <= k:
        return [list(p) for p in perms]
    return [list(range(n)), list(reversed(range(n)))] + [list(rng.choice(perms[1:-1]))]


def gen_cases(tier, rng):
    thorough = tier != "quick"
    # --- rt / tet / mat(3) from every class-admissible graph
    for cls in CLS:
        for n in (2, 3):
            for g in enum_graphs(cls, n):
                for order in _orders(n, rng):
                    yield {"kind": "rt", "cls": cls, "g": dict(g, V=order)}
                if g["D"] or g["B"] or g["U"] or g["C"]:
                    # built through the constructor's per-type edge lists: every layer has its own node order
                    for k in range(2 if n == 3 else 1):
                        yield {"kind": "rt", "cls": cls, "g": dict(g, V=rng.choice(_orders(n, rng))), "ctor": rng.randrange(1 << 30)}
                nonempty = bool(g["D"] or g["B"] or g["U"] or g["C"])
                if nonempty:
                    # edge 'weight' attributes (zero, negative, float) must not change what is exported
                    if n == 2:
                        for w in WEIGHTS:
                            yield {"kind": "rt", "cls": cls, "g": dict(g, V=[0, 1]), "weights": [w]}
                    else:
                        yield {"kind": "rt", "cls": cls, "g": dict(g, V=rng.choice(_orders(n, rng))),
                               "weights": [rng.choice(WEIGHTS) for _ in range(4)]}
                for f in ("numpy", "clearn", "pcalg"):
                    if f == "pcalg" and cls == "ADMG":
                        continue
                    order = list(range(n)) if n == 2 else rng.choice(_orders(n, rng))
                    m = _gen_matrix(f, cls, g, order)
                    yield {"kind": "mat", "fmt": f, "cls": cls, "order": order, "m": m}
                    # the same well-formed matrix in the other array dtypes that can hold its values
                    fits = _fitting_dtypes(m)
                    for dt in (fits if n == 2 else [rng.choice(fits)]):
                        yield {"kind": "mat", "fmt": f, "cls": cls, "order": order, "m": m, "dtype": dt}
                    # the same matrix as F-ordered / transposed-view / sliced (non-contiguous) / read-only array
                    for lay in (LAYOUTS if n == 2 else [rng.choice(LAYOUTS)]):
                        yield {"kind": "mat", "fmt": f, "cls": cls, "order": order, "m": m, "layout": lay,
                               "dtype": rng.choice([None, "float64", "int8"])}
                if nonempty and n == 3 and rng.random() < 0.15:
                    # identity-hashed label objects (a copied label would be a different node)
                    yield {"kind": "rt", "cls": cls, "g": dict(g, V=rng.choice(_orders(n, rng))), "_lab": "obj",
                           "ctor": rng.randrange(1 << 30) if rng.random() < 0.5 else None}
                    f = rng.choice(["numpy", "clearn"] + ([] if cls == "ADMG" else ["pcalg"]))
                    order = rng.choice(_orders(n, rng))
                    yield {"kind": "mat", "fmt": f, "cls": cls, "order": order, "m": _gen_matrix(f, cls, g, order), "_lab": "obj"}
                yield {"kind": "tet", "cls": cls, "order": rng.choice(_orders(n, rng)), "toks": _gen_tokens(cls, g, rng)}
        # 4 nodes sampled
        for i in range(150 if not thorough else 3000):
            ks = [rng.choice(KINDS[cls]) if rng.random() < 0.6 else "none" for _ in gr.pairs(4)]
            g = from_kinds(4, ks)
            if not gr.is_acyclic(4, g["D"]):
                continue
            order = list(range(4))
            rng.shuffle(order)
            yield {"kind": "rt", "cls": cls, "g": dict(g, V=order)}
            yield {"kind": "rt", "cls": cls, "g": dict(g, V=order), "ctor": rng.randrange(1 << 30)}
            yield {"kind": "tet", "cls": cls, "order": order, "toks": _gen_tokens(cls, g, rng)}
    # --- every zero-diagonal 2x2 matrix over the alphabet, both orders
    for f in ("numpy", "clearn", "pcalg"):
        for cls in CLS:
            if f == "pcalg" and cls == "ADMG":
                continue
            for x in ALPHABET[f]:
                for y in ALPHABET[f]:
                    for order in ([0, 1], [1, 0]):
                        yield {"kind": "mat", "fmt": f, "cls": cls, "order": order, "m": [[0, x], [y, 0]]}
    # --- all 9 Tetrad edge strings (and their mirrors) on two nodes
    for cls in CLS:
        for c1 in "<-o":
            for c3 in ">-o":
                for a, b in ((0, 1), (1, 0)):
                    yield {"kind": "tet", "cls": cls, "order": [0, 1], "toks": [[a, b, c1 + "-" + c3]]}
    # --- Tetrad label content (the only text format): str labels over every printable punctuation character the
    # format does not reserve, look-alikes of the file's own tokens, and labels the grammar cannot express
    import string
    small = {"ADMG": [gr.G([0, 1, 2], D=[(0, 1)], B=[(1, 2)]), gr.G([0, 1, 2], D=[(2, 0)], U=[(0, 1)])],
             "CPDAG": [gr.G([0, 1, 2], D=[(0, 1)], U=[(1, 2)]), gr.G([0, 1, 2], D=[(2, 1)])],
             "PAG": [gr.G([0, 1, 2], D=[(0, 1)], C=[(1, 0), (1, 2), (2, 1)]), gr.G([0, 1, 2], B=[(0, 2)], C=[(1, 0)]),
                     gr.G([0, 1, 2], D=[(2, 0)], U=[(1, 2)])]}
    free = [c for c in string.punctuation if c not in TETRAD_RESERVED]
    alnum = string.ascii_letters + string.digits
    for cls in CLS:
        for c in free:
            for i, g in enumerate(small[cls]):
                labs = [[c, "a" + c, c + "b"], ["a" + c + "b", c + c, "z"], ["q", c + "1", "2" + c]][i % 3]
                yield {"kind": "tetlab", "cls": cls, "g": dict(g, V=rng.choice(_orders(3, rng))), "labels": labs}
        for special in TETRAD_SPECIALS + TETRAD_NONASCII + TETRAD_INEXPRESSIBLE:
            for pos in range(3):
                g = rng.choice(small[cls])
                labs = ["n0", "n1", "n2"]
                labs[pos] = special
                yield {"kind": "tetlab", "cls": cls, "g": dict(g, V=rng.choice(_orders(3, rng))), "labels": labs}
            # as an edgeless node
            yield {"kind": "tetlab", "cls": cls, "g": gr.G([0, 1, 2], D=[(0, 1)]), "labels": ["n0", "n1", special]}
            yield {"kind": "tetlab", "cls": cls, "g": gr.G([2, 0, 1], D=[(0, 1)]), "labels": ["n0", "n1", special]}
        for i in range(150 if not thorough else 1500):
            labs = set()
            pool = free + list(alnum) + (list("\u03b1\u00e9\u8282\U0001F600\u0301\u00df") if i % 3 == 0 else [])
            while len(labs) < 3:
                labs.add("".join(rng.choice(pool if rng.random() < 0.7 else free) for _ in range(rng.randint(1, 6))))
            ks = [rng.choice([k for k in KINDS[cls] if "&" not in k]) for _ in gr.pairs(3)]
            g = from_kinds(3, ks)
            if gr.is_acyclic(3, g["D"]):
                yield {"kind": "tetlab", "cls": cls, "g": dict(g, V=rng.choice(_orders(3, rng))), "labels": sorted(labs)}
    # --- time series
    for directed in (True, False):
        for ml in (1, 2, 3):
            slots = _ts_slots(directed, 2, ml)
            if ml <= 2 or (thorough and directed):
                subsets = (list(s) for r in range(len(slots) + 1) for s in itertools.combinations(slots, r))
            else:
                subsets = ([t for t in slots if rng.random() < p] for p in [0.2, 0.4, 0.6] * (100 if not thorough else 1000))
            for st in subsets:
                yield {"kind": "ts", "directed": directed, "nv": 2, "ml": ml, "st": [list(t) for t in st]}
                if st and ml <= 2:
                    yield {"kind": "ts", "directed": directed, "nv": 2, "ml": ml, "st": [list(t) for t in reversed(st)],
                           "edges_first": True}
        for ml in (1, 2):
            cells = [(x, y, lag) for x in range(2) for y in range(2) for lag in range(ml + 1) if not (lag == 0 and x == y)]
            for r in range(len(cells) + 1):
                for on in itertools.combinations(cells, r):
                    arr = [[[1 if (x, y, lag) in on else 0 for lag in range(ml + 1)] for y in range(2)] for x in range(2)]
                    if not directed and arr[0][1][0] != arr[1][0][0]:
                        continue
                    yield {"kind": "tsarr", "directed": directed, "nv": 2, "ml": ml, "arr": arr}


def _ts_slots(directed, nv, ml):
    slots = []
    for lag in range(ml + 1):
        for x in range(nv):
            for y in range(nv):
                if lag == 0 and (x == y or (not directed and x > y)):
                    continue
                slots.append((x, y, lag))
    return slots


# ------------------------------------------------------------------ model side
def _order(case):
    return gr.ordered(case, case["g"]["V"], "V")


def _tok_sx(t):
    return [t[0], t[1], [ord(ch) for ch in t[2]]]


def encode(case):
    k = case["kind"]
    if k in ("rt", "tetlab"):
        return [0, CLS.index(case["cls"]), gr.enc(case["g"]), _order(case)]
    if k == "mat":
        return [1, FMT.index(case["fmt"]), CLS.index(case["cls"]), case["order"], [[v + 1 for v in r] for r in case["m"]]]
    if k == "tet":
        return [2, CLS.index(case["cls"]), case["order"], [_tok_sx(t) for t in case["toks"]]]
    if k == "ts":
        return [3, int(case["directed"]), case["nv"], case["ml"], case["st"]]
    return [4, int(case["directed"]), case["nv"], case["ml"], case["arr"]]


def _canon_matrix(m, order):
    """matrix re-indexed to ascending node order, as {'a,b': value} lists"""
    pos = {a: i for i, a in enumerate(order)}
    ks = sorted(order)
    return [[int(m[pos[a]][pos[b]]) for b in ks] for a in ks]


def _graph_obs(cls, v):
    return {"cls": cls, "V": v[0], "D": v[1], "B": v[2], "U": v[3], "C": v[4]}


def _toks_obs(toks):
    out = []
    for a, b, s3 in toks:
        if a > b:
            a, b, s3 = b, a, mirror(s3)
        out.append([a, b, s3])
    return sorted(out)


def _ts_edges_obs(es, directed):
    out = set()
    for x, lx, y, ly in es:
        e = ((x, lx), (y, ly))
        if not directed:
            e = tuple(sorted(e))
        out.add((e[0][0], e[0][1], e[1][0], e[1][1]))
    return sorted(list(e) for e in out)


def decode(case, v):
    k = case["kind"]
    if k == "tetlab":
        r = v[3]
        if r[0] == 0 or not r[2]:
            return None
        return {"g": _graph_obs(case["cls"], r[2][0]), "expressible": all(tetrad_expressible(l) for l in case["labels"])}
    if k == "rt":
        order = _order(case)
        out = {}
        for f, r in zip(FMT, v):
            if r[0] == 0:
                out[f] = None
            elif f == "tetrad":
                out[f] = {"x": _toks_obs([[t[0], t[1], "".join(map(chr, t[2]))] for t in r[1]]),
                          "g": _graph_obs(case["cls"], r[2][0]) if r[2] else "ILLFORMED"}
            else:
                out[f] = {"x": _canon_matrix([[z - 1 for z in row] for row in r[1]], order),
                          "g": _graph_obs(case["cls"], r[2][0]) if r[2] else "ILLFORMED"}
        return out
    if k == "mat":
        if not v:
            return None
        return {"g": _graph_obs(case["cls"], v[0]), "x": _canon_matrix([[z - 1 for z in row] for row in v[1]], case["order"])}
    if k == "tet":
        if not v:
            return None
        return {"g": _graph_obs(case["cls"], v[0]), "x": _toks_obs([[t[0], t[1], "".join(map(chr, t[2]))] for t in v[1]])}
    if k == "ts":
        return {"arr": v[0], "edges": _ts_edges_obs(v[1], case["directed"]), "ml": case["ml"]}
    return {"edges": _ts_edges_obs(v[0], case["directed"]), "arr": v[1], "ml": case["ml"]}


# ------------------------------------------------------------------ implementation side
def _build(cls, g, case):
    if case.get("ctor") is None:
        return {"ADMG": gr.to_admg, "CPDAG": gr.to_cpdag, "PAG": gr.to_pag}[cls](g, case)
    # constructor variant: each edge type is passed as its own edge list (shuffled, symmetric edges randomly flipped),
    # so every layer lists the nodes in its own order; nodes without edges are added afterwards
    import random
    import pywhy_graphs
    rnd = random.Random(case["ctor"])
    lab, inv = gr.labeler(case)
    for v in g["V"]:
        lab(v)
    kw = {}
    for key, name in (("D", "directed"), ("B", "bidirected"), ("U", "undirected"), ("C", "circle")):
        if key in ("B", "C") and cls == "CPDAG" or key == "C" and cls == "ADMG":
            continue
        es = [(lab(a), lab(b)) for a, b in g[key]]
        rnd.shuffle(es)
        if key in "BU":
            es = [(b, a) if rnd.random() < 0.5 else (a, b) for a, b in es]
        kw["incoming_%s_edges" % name] = es
    G = getattr(pywhy_graphs, cls)(**kw)
    rest = [lab(v) for v in g["V"] if lab(v) not in set(G.nodes)]
    rnd.shuffle(rest)
    G.add_nodes_from(rest)
    return G, lab, inv


def _set_weights(G, ws):
    """give every edge of every layer a 'weight' attribute, cycling through ws in sorted edge order"""
    if not ws:
        return
    i = 0
    for name in sorted(G.get_graphs()):
        lg = G.get_graphs()[name]
        for a, b in sorted(lg.edges(), key=repr):
            lg[a][b]["weight"] = ws[i % len(ws)]
            i += 1


def _quiet(f, *a, **kw):
    import contextlib
    import io
    with contextlib.redirect_stdout(io.StringIO()):
        return f(*a, **kw)


def _gobs(H, inv):
    o = gr.from_mixed(H, inv)
    o["cls"] = type(H).__name__
    return o


def _export(fmt, G):
    import numpy as np
    from pywhy_graphs.export import graph_to_clearn, graph_to_numpy, graph_to_pcalg
    if fmt == "numpy":
        return np.asarray(graph_to_numpy(G))
    if fmt == "clearn":
        arr, idx = graph_to_clearn(G)
        if list(idx) != list(G.nodes):
            raise AssertionError("arr_idx differs from G.nodes")
        return np.asarray(arr)
    return np.asarray(graph_to_pcalg(G))


def _import(fmt, cls, A, nodes):
    from pywhy_graphs.export import clearn_to_graph, numpy_to_graph, pcalg_to_graph
    if fmt == "numpy":
        return _quiet(numpy_to_graph, A, list(nodes), cls.lower())
    if fmt == "clearn":
        return _quiet(clearn_to_graph, A, list(nodes), cls.lower())
    return _quiet(pcalg_to_graph, A, list(nodes), cls.lower())


def _exc(e):
    return {"exc": type(e).__name__, "msg": str(e)[:120]}


def _parse_tetrad(text, inv):
    """-> (sorted node ints, normalised tokens)"""
    lines = text.split("\n")
    nodes, toks, state = [], [], None
    for ln in lines:
        s = ln.strip()
        if s == "Graph Nodes:":
            state = "n"
        elif s == "Graph Edges:":
            state = "e"
        elif s and state == "n":
            nodes = [inv(x) for x in s.split(";")]
            state = None
        elif s and state == "e":
            w = s.split()
            if len(w) == 4:
                toks.append([inv(w[1]), inv(w[3]), w[2]])
            else:
                toks.append([-1, -1, " ".join(w[1:])])
    return sorted(nodes), _toks_obs(toks)


def _write_tetrad(path, labels, toks):
    txt = "Graph Nodes:\n" + ";".join(labels) + "\n\nGraph Edges:\n"
    for i, (a, b, s3) in enumerate(toks):
        txt += "%d. %s %s %s\n" % (i + 1, a, s3, b)
    with open(path, "w") as f:
        f.write(txt)


def _tetrad_rt(cls, G, inv, text_nodes):
    from pywhy_graphs.export import graph_to_tetrad, tetrad_to_graph
    out = {}
    with tempfile.TemporaryDirectory(prefix="c14_") as d:
        fn = os.path.join(d, "g.txt")
        try:
            txt = graph_to_tetrad(G, fn)
            with open(fn) as fh:
                ftxt = fh.read()
            nodes, toks = _parse_tetrad(ftxt, inv)
            out["x"] = toks
            if nodes != text_nodes or ftxt != txt:
                out["x_nodes"] = nodes
        except Exception as e:  # noqa
            out["x"] = _exc(e)
            return out
        try:
            H = _quiet(tetrad_to_graph, fn, cls.lower())
            out["g"] = _gobs(H, inv)
        except Exception as e:  # noqa
            out["g"] = _exc(e)
    return out


def _run_tetlab(case):
    import pywhy_graphs
    from pywhy_graphs.export import graph_to_tetrad, tetrad_to_graph
    cls, g, labels = case["cls"], case["g"], case["labels"]
    G = getattr(pywhy_graphs, cls)()
    for v in g["V"]:
        G.add_node(labels[v])
    names = {"D": "directed", "B": "bidirected", "U": "undirected", "C": "circle"}
    for key in "DBUC":
        for a, b in g[key]:
            G.add_edge(labels[a], labels[b], names[key])
    back = {l: i for i, l in enumerate(labels)}
    inv = lambda x: back.get(x, "?" + repr(x))  # noqa: E731
    with tempfile.TemporaryDirectory(prefix="c14_") as d:
        fn = os.path.join(d, "g.txt")
        try:
            graph_to_tetrad(G, fn)
        except Exception as e:  # noqa
            return {"export_exc": type(e).__name__}
        try:
            H = _quiet(tetrad_to_graph, fn, cls.lower())
        except Exception as e:  # noqa
            return {"import_exc": type(e).__name__}
    out = {"V": sorted((inv(v) for v in H.nodes), key=repr), "D": [], "B": [], "U": [], "C": [], "cls": type(H).__name__}
    for name, lg in H.get_graphs().items():
        key = {"directed": "D", "bidirected": "B", "undirected": "U", "circle": "C"}[name]
        for a, b in lg.edges():
            e = [inv(a), inv(b)]
            out[key].append(sorted(e, key=repr) if key in "BU" else e)
        out[key] = sorted(out[key], key=repr)
    return {"g": out}


def run_impl(case):
    k = case["kind"]
    if k == "tetlab":
        return _run_tetlab(case)
    if k == "rt":
        cls, g = case["cls"], case["g"]
        G, lab, inv = _build(cls, g, case)
        _set_weights(G, case.get("weights"))
        nodes = list(G.nodes)
        idx = [inv(x) for x in nodes]
        out = {}
        before = gr.snapshot(G)
        for f in ("numpy", "clearn", "pcalg"):
            o = {}
            try:
                A = _export(f, G)
                o["x"] = _canon_matrix(A.tolist(), idx)
                if any(float(v) != int(v) for row in A.tolist() for v in row):
                    o["x_nonint"] = True
            except Exception as e:  # noqa
                o["x"] = _exc(e)
                out[f] = o
                continue
            try:
                o["g"] = _gobs(_import(f, cls, A, nodes), inv)
            except Exception as e:  # noqa
                o["g"] = _exc(e)
            out[f] = o
        if gr.snapshot(G) != before:
            out["mutated"] = True
        c2 = dict(case, _lab=case.get("_lab") if case.get("_lab") in ("str", "char") else "str")
        G2, lab2, inv2 = _build(cls, g, c2)
        _set_weights(G2, case.get("weights"))
        out["tetrad"] = _tetrad_rt(cls, G2, inv2, sorted(g["V"]))
        return out
    if k == "mat":
        import numpy as np
        lab, inv = gr.labeler(case)
        nodes = [lab(a) for a in case["order"]]
        A = np.array(case["m"], dtype={"bool": bool, "int8": np.int8, "uint8": np.uint8, "float64": np.float64,
                                       "object": object, None: np.int64}[case.get("dtype")])
        A = _layout(A, case.get("layout"))
        A_before = A.tolist()
        H = _import(case["fmt"], case["cls"], A if case.get("layout") else A.copy(), nodes)
        out = {"g": _gobs(H, inv)}
        if A.tolist() != A_before:
            out["node_order"] = "INPUT ARRAY MUTATED"
        if list(H.nodes) != nodes:
            out["node_order"] = [inv(x) for x in H.nodes]
        try:
            B = _export(case["fmt"], H)
            out["x"] = _canon_matrix(B.tolist(), [inv(x) for x in H.nodes])
        except Exception as e:  # noqa
            out["x"] = _exc(e)
        return out
    if k == "tet":
        from pywhy_graphs.export import graph_to_tetrad, tetrad_to_graph
        lab, inv = gr.labeler(dict(case, _lab="str"))
        labels = [lab(a) for a in case["order"]]
        with tempfile.TemporaryDirectory(prefix="c14_") as d:
            fn = os.path.join(d, "in.txt")
            _write_tetrad(fn, labels, [(lab(a), lab(b), s3) for a, b, s3 in case["toks"]])
            H = _quiet(tetrad_to_graph, fn, case["cls"].lower())
            out = {"g": _gobs(H, inv)}
            try:
                fn2 = os.path.join(d, "out.txt")
                graph_to_tetrad(H, fn2)
                with open(fn2) as fh:
                    nodes, toks = _parse_tetrad(fh.read(), inv)
                out["x"] = toks
                if nodes != sorted(case["order"]):
                    out["x_nodes"] = nodes
            except Exception as e:  # noqa
                out["x"] = _exc(e)
        return out
    # time series
    from pywhy_graphs.classes.timeseries import (StationaryTimeSeriesDiGraph, StationaryTimeSeriesGraph,
                                                 numpy_to_tsgraph, tsgraph_to_numpy)
    import numpy as np
    lab, inv = gr.labeler(case)
    K = StationaryTimeSeriesDiGraph if case["directed"] else StationaryTimeSeriesGraph
    var_order = [lab(i) for i in range(case["nv"])]

    def edges(G):
        return _ts_edges_obs([(inv(a[0]), -int(a[1]), inv(b[0]), -int(b[1])) for a, b in G.edges()], case["directed"])
    if k == "ts":
        G = K(max_lag=case["ml"])
        if not case.get("edges_first"):
            G.add_variables_from(var_order)
        for x, y, lag in case["st"]:
            G.add_edge((lab(x), -lag), (lab(y), 0))
        if case.get("edges_first"):
            G.add_variables_from(list(reversed(var_order)))
        arr = tsgraph_to_numpy(G, var_order=var_order)
        out = {"arr": [[[int(v != 0) for v in r] for r in p] for p in arr.tolist()], "orig_edges": edges(G)}
        H = numpy_to_tsgraph(arr, var_order=var_order, create_using=K)
        out.update(edges=edges(H), ml=int(H.max_lag), cls_ok=type(H) is K,
                   vars_ok=sorted(inv(x) for x in H.variables) == list(range(case["nv"])))
        return out
    arr = np.array(case["arr"], dtype=float)
    H = numpy_to_tsgraph(arr, var_order=var_order, create_using=K)
    back = tsgraph_to_numpy(H, var_order=var_order)
    return {"edges": edges(H), "ml": int(H.max_lag), "arr": [[[int(v != 0) for v in r] for r in p] for p in back.tolist()],
            "cls_ok": type(H) is K, "vars_ok": sorted(inv(x) for x in H.variables) == list(range(case["nv"]))}


# ------------------------------------------------------------------ comparison
def _same_graph(a, b):
    return isinstance(a, dict) and isinstance(b, dict) and all(a.get(k) == b.get(k) for k in ("cls", "V", "D", "B", "U", "C")) \
        and "X" not in a


def compare(case, impl, model):
    k = case["kind"]
    if k == "tetlab":
        if model is None:
            return None
        if "exc" in impl:
            return "tetlab:harness"
        exact = _same_graph(impl.get("g"), model["g"])
        if model["expressible"]:
            return None if exact else "tetlab:expressible-label-not-round-tripped"
        # a label outside the grammar: either it happens to survive, or the exporter refuses it; never silent damage
        if exact or impl.get("export_exc") in ("ValueError", "RuntimeError"):
            return None
        return "tetlab:inexpressible-label-silently-damaged"
    if isinstance(impl, dict) and "exc" in impl and k != "rt":
        return None if model is None else "%s:%s:raises" % (k, case.get("fmt", "tetrad" if k == "tet" else "ts"))
    if k == "rt":
        if "exc" in impl:
            return "rt:build"
        if impl.get("mutated"):
            return "rt:argument-mutated"
        for f in FMT:
            mo = model[f]
            if mo is None:
                continue
            im = impl[f]
            if im.get("x") != mo["x"] or "x_nodes" in im or "x_nonint" in im:
                return "rt:%s:export" % f
            if not _same_graph(im.get("g"), mo["g"]):
                return "rt:%s:import-of-export" % f
        return None
    if k in ("mat", "tet"):
        if model is None:
            return None      # ill-formed input: the property says nothing
        f = case.get("fmt", "tetrad")
        if not _same_graph(impl.get("g"), model["g"]) or "node_order" in impl:
            return "%s:%s:import" % (k, f)
        if impl.get("x") != model["x"] or "x_nodes" in impl:
            return "%s:%s:export-of-import" % (k, f)
        return None
    if k == "ts":
        if impl["orig_edges"] != model["edges"]:
            return "ts:harness-graph-construction"
    for key in ("arr", "edges", "ml"):
        if impl[key] != model[key]:
            return "%s:%s" % (k, key)
    if not (impl["cls_ok"] and impl["vars_ok"]):
        return "%s:class-or-variables" % k
    return None


def nontrivial(case, model):
    k = case["kind"]
    if k == "tetlab":
        return model is not None
    if k == "rt":
        g = case["g"]
        return bool(g["D"] or g["B"] or g["U"] or g["C"]) and any(v is not None for v in model.values())
    if k in ("mat", "tet"):
        return model is not None and bool(model["g"]["D"] or model["g"]["B"] or model["g"]["U"] or model["g"]["C"])
    return bool(model["edges"])


def key(case):
    k = case["kind"]
    if k == "tetlab":
        return (k, case["cls"], gr.canon(case["g"]), tuple(case["labels"]))
    if k == "rt":
        return (k, case["cls"], gr.canon(case["g"]), case.get("ctor") is not None, str(case.get("weights")), case.get("_lab"))
    if k == "mat":
        return (k, case["cls"], case["fmt"], str(_canon_matrix(case["m"], case["order"])), case.get("dtype"), case.get("_lab"), case.get("layout"))
    if k == "tet":
        return (k, case["cls"], str(_toks_obs(case["toks"])), len(case["order"]))
    return (k, case["directed"], case["ml"], str(case.get("st") or case.get("arr")))


def classify(case, impl, model):
    return None


def shrink(case):
    if case["kind"] == "rt":
        for h in gr.shrink_graph(case["g"]):
            yield dict(case, g=h)
    elif case["kind"] == "tetlab":
        for key_ in "DBUC":
            for i in range(len(case["g"][key_])):
                yield dict(case, g=dict(case["g"], **{key_: case["g"][key_][:i] + case["g"][key_][i + 1:]}))
    elif case["kind"] == "tet":
        for i in range(len(case["toks"])):
            yield dict(case, toks=case["toks"][:i] + case["toks"][i + 1:])


# ------------------------------------------------------------------ tie (T): translator + cell-by-cell re-check
_TABLES = {}
LAYER_NAMES = ["directed", "bidirected", "undirected", "circle"]


def pre_build(ctx):
    """regenerate coq/theories/Gen/Gen_{Enums,Codecs}.v from the repo under test (fail closed) and make sure the
    extracted model exists even when the proofs about the generated tables no longer compile"""
    import subprocess
    import sys
    import framework as fw
    import importlib.util      # (a stdlib module is also called codecs: load ours by path)
    spec = importlib.util.spec_from_file_location("c14_translator", os.path.join(fw.VERIF, "translator", "codecs.py"))
    tr = importlib.util.module_from_spec(spec)
    spec.loader.exec_module(tr)
    problems = []
    try:
        with fw.Lock():
            T, changed = tr.regenerate(ctx["repo"], fw.COQ)
        _TABLES.update(T)
        _TABLES["_changed"] = changed
        gm = T.get("tetrad_grammar", {})
        extra_reserved = sorted(set(gm.get("reserved_chars", [])) - set(TETRAD_RESERVED) - {" "})
        if extra_reserved or gm.get("bad_specials"):
            problems.append("T:tetrad.py: the translated tetrad_to_graph does not read back labels containing %r / the labels %r "
                            "(only ';' and whitespace are reserved by the format)" % (extra_reserved, gm.get("bad_specials")))
    except tr.TranslationError as e:
        problems.append("translator failed closed: %s" % e)
    except Exception as e:  # noqa
        problems.append("translator crashed (%s: %s)" % (type(e).__name__, str(e)[:200]))
    try:
        with fw.Lock():
            fw.ensure_makefile()
            p = subprocess.run(["make", "theories/C14/Model.vo"], cwd=fw.COQ, env=fw.ENV, timeout=1200,
                               stdout=subprocess.PIPE, stderr=subprocess.STDOUT, text=True)
            if p.returncode == 0:
                subprocess.run([os.path.join(fw.VERIF, "build_models.sh"), PROP], env=fw.ENV, timeout=1200,
                               stdout=subprocess.PIPE, stderr=subprocess.STDOUT, text=True)
    except Exception:  # noqa
        pass
    return problems


def _real_pair_graph(cls, k):
    import pywhy_graphs
    G = getattr(pywhy_graphs, cls)()
    G.add_nodes_from([0, 1])
    bits = [(k >> i) & 1 for i in range(6)]
    for bit, (lay, a, b) in zip(bits, [("directed", 0, 1), ("directed", 1, 0), ("circle", 0, 1), ("circle", 1, 0),
                                       ("bidirected", 0, 1), ("undirected", 0, 1)]):
        if bit:
            G.get_graphs(lay).add_edge(a, b)      # through the layer object: no insertion guard
    return G


def _swapk(k):
    b = [(k >> i) & 1 for i in range(6)]
    b = [b[1], b[0], b[3], b[2], b[4], b[5]]
    return sum(v << i for i, v in enumerate(b))


def _rev(ops):
    return [(1 - r, l) for r, l in ops]


def cell_check():
    """every cell of the translator's tables against the real functions on two-node inputs -> (n_cells, mismatches)"""
    import numpy as np
    import pywhy_graphs
    from pywhy_graphs.export import causallearn as ecl, numpy as enp, pcalg as epc, tetrad as ete
    T = _TABLES
    n, bad = 0, []

    def note(what, cell, exp, got):
        bad.append({"table": what, "cell": cell, "translator": repr(exp), "real": repr(got)})

    # encoders on real two-node graphs
    for cls in CLS:
        for k in range(64):
            row = T["enc_clearn"][cls][k]
            if row[0] == "na":
                continue
            G = _real_pair_graph(cls, k)
            row2 = T["enc_clearn"][cls][_swapk(k)]
            try:
                arr, _ = _quiet(ecl.graph_to_clearn, G)
                got = (int(arr[0, 1]), int(arr[1, 0]))
            except Exception as e:  # noqa
                got = "raise"
            kinds = (row[0], row2[0])
            if "stale" not in kinds:
                if "raise" in kinds:
                    exp = "raise"
                else:
                    exp = (0, 0) if row2[0] == "skip" else (row2[1][1], row2[1][0])
                n += 1
                if exp != got:
                    note("enc_clearn", [cls, k], exp, got)
            nrow = T["enc_numpy"][cls][k]
            try:
                arr = enp.graph_to_numpy(G)
                got = (int(arr[0, 1]), int(arr[1, 0])) if arr[0, 0] == 0 and arr[1, 1] == 0 else "diag"
            except Exception:  # noqa
                got = "raise"
            exp = tuple(nrow[1]) if nrow[0] == "pair" else nrow[0]
            n += 1
            if exp != got:
                note("enc_numpy", [cls, k], exp, got)
            trow = T["enc_tetrad"][cls][k]
            with tempfile.TemporaryDirectory(prefix="c14_") as d:
                try:
                    txt = ete.graph_to_tetrad(G, os.path.join(d, "t.txt"))
                    es = [ln.split() for ln in txt.split("Graph Edges:\n")[1].split("\n") if ln.strip()]
                    got = "skip" if not es else ("stale" if len(es[0]) == 3 else es[0][2])
                except Exception as e:  # noqa
                    got = "raise"
            exp = trow[1] if trow[0] == "str" else trow[0]
            n += 1
            if exp != got:
                note("enc_tetrad", [cls, k], exp, got)
    # pcalg remap (graph_to_clearn stubbed so that every endpoint pair can be fed)
    orig = epc.graph_to_clearn
    try:
        for cls in ("CPDAG", "PAG"):
            G = getattr(pywhy_graphs, cls)()
            G.add_nodes_from([0, 1])
            for i, (x, y) in enumerate(itertools.product(range(-1, 7), repeat=2)):
                if x == 0:
                    continue      # the loop never starts at a zero entry
                row = T["remap_pcalg"][cls][i]
                epc.graph_to_clearn = lambda G_, x=x, y=y: (np.array([[0, y], [x, 0]]), [0, 1])
                try:
                    a = epc.graph_to_pcalg(G)
                    got = (int(a[0, 1]), int(a[1, 0]))
                except Exception:  # noqa
                    got = "raise"
                exp = tuple(row[1]) if row[0] == "pair" else row[0]
                n += 1
                if exp != got:
                    note("remap_pcalg", [cls, x, y], exp, got)
    finally:
        epc.graph_to_clearn = orig
    # decoders: record the add_edge calls of the real functions
    rec = []

    def recorder(self, u, v, edge_type="all", **kw):
        if edge_type not in self.edge_types:
            raise KeyError(edge_type)
        rec.append((u, v, edge_type))
    saved = {c: getattr(pywhy_graphs, c).add_edge for c in CLS}

    def ops_of(names=(0, 1)):
        return [(0 if (u, v) == tuple(names) else 1, LAYER_NAMES.index(t)) for u, v, t in rec]

    def run(f, *a):
        del rec[:]
        try:
            _quiet(f, *a)
            return ops_of()
        except Exception:  # noqa
            return "raise"
    try:
        for c in CLS:
            setattr(getattr(pywhy_graphs, c), "add_edge", recorder)
        for cls in CLS:
            t = T["dec_clearn"][cls]
            for i, (x, y) in enumerate(itertools.product(range(-1, 7), repeat=2)):
                r1, r2 = t[i], t[(y + 1) * 8 + (x + 1)]
                exp = "raise" if "raise" in (r1[0], r2[0]) else list(map(tuple, r1[1])) + _rev(r2[1])
                got = run(ecl.clearn_to_graph, np.array([[0, x], [y, 0]]), [0, 1], cls.lower())
                n += 1
                if exp != got:
                    note("dec_clearn", [cls, x, y], exp, got)
            t = T["dec_numpy"][cls]
            for val in range(1, 34):
                for m, f in (([[0, val], [0, 0]], lambda o: o), ([[0, 0], [val, 0]], _rev)):
                    exp = "raise" if t[val][0] == "raise" else f(list(map(tuple, t[val][1])))
                    got = run(enp.numpy_to_graph, np.array(m), [0, 1], cls.lower())
                    n += 1
                    if exp != got:
                        note("dec_numpy", [cls, m], exp, got)
            if cls != "ADMG":
                t = T["dec_pcalg"][cls]
                for x, y in itertools.product(range(4), repeat=2):
                    if x != 0:
                        r, f = t[x * 4 + y], (lambda o: o)
                    elif y != 0:
                        r, f = t[y * 4 + x], _rev
                    else:
                        continue
                    exp = "raise" if r[0] == "raise" else f(list(map(tuple, r[1])))
                    got = run(epc.pcalg_to_graph, np.array([[0, x], [y, 0]]), [0, 1], cls.lower())
                    n += 1
                    if exp != got:
                        note("dec_pcalg", [cls, x, y], exp, got)
            t = T["dec_tetrad"][cls]
            with tempfile.TemporaryDirectory(prefix="c14_") as d:
                for i, (c1, c3) in enumerate(itertools.product("<-o", ">-o")):
                    fn = os.path.join(d, "in%d.txt" % i)
                    _write_tetrad(fn, ["a", "b"], [("a", "b", c1 + "-" + c3)])
                    del rec[:]
                    try:
                        _quiet(ete.tetrad_to_graph, fn, cls.lower())
                        got = ops_of(("a", "b"))
                    except Exception:  # noqa
                        got = "raise"
                    exp = "raise" if t[i][0] == "raise" else list(map(tuple, t[i][1]))
                    n += 1
                    if exp != got:
                        note("dec_tetrad", [cls, c1 + "-" + c3], exp, got)
    finally:
        for c in CLS:
            setattr(getattr(pywhy_graphs, c), "add_edge", saved[c])
    return n, bad


_CELLS = {"n": 0}


def extra(ctx, pool):
    if "enc_clearn" not in _TABLES:
        return []
    n, bad = cell_check()
    _CELLS["n"] = n
    if bad:
        return [{"reason": "T: %d of %d cells of the translated tables differ from the real functions (translator or glue "
                           "out of date), first: %s" % (len(bad), n, bad[0]), "cells": bad[:20], "found_input": False}]
    return []


def coverage_extra(ctx):
    return {"translator_cells_compared": _CELLS["n"], "generated_files_rewritten": _TABLES.get("_changed", []),
            "translated_sources_sha1": _TABLES.get("sha", {})}
