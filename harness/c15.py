"""C15 — results do not depend on node names, label types, insertion order or hash seed.

Decided for the implementation by re-running the correspondence cases of every graph-algorithm property
(C01, C04-C12, C16-C19) under other label families x insertion orders x PYTHONHASHSEED values and comparing, through the
inverse renaming, with the SAME proved model result on the canonical nat graph (the model has no labels: the Coq theorems
of Props/C15.v say the right answer commutes with renaming and ignores list order)."""
import importlib
import json
import os
import subprocess
import sys

import c15_extra as cx
import framework as fw
import graphs as gr
import sx as sxmod

PROP = "C15"
INNER = ["c01", "c04", "c05", "c06", "c07", "c08", "c09", "c10", "c11", "c12", "c16", "c17", "c18", "c19"]
FAMILIES = [f for f in gr.LABEL_FAMILIES if f != "int"]
SPOT_N = 10
RULE = ("for each graph-algorithm property module present, a seeded sample of its own quick-tier correspondence cases, each re-run under the "
        "label families bigint/int257/tuple/frozenset/str(run-time built)/char x shuffled node+edge insertion order x PYTHONHASHSEED in {0,1,2} "
        "(thorough: 8 seeds, 2 orders), each hash seed in its own interpreter; expected = the inner property's proved model on the canonical graph; "
        "plus the public algorithms no other property reaches (harness/c15_extra.py), tied to the extracted transcription of what the code does (C15 demands invariance, not a meaning): "
        "is_definite_collider / is_definite_noncollider on all mark graphs with <= 3 nodes x all 27 node triples and random 4-6 node ones; is_node_common_cause on all DAGs with <= 3 nodes x every node x every "
        "exclusion set, as DiGraph (children) and as ADMG (descendants), exclusion set as list/tuple/set/frozenset/None; set_nodes_as_latent_confounders on all ADMGs with <= 3 nodes x every node list of size <= 2 "
        "and random 4-7 node graphs, as DiGraph and ADMG, exact result graph (nodes, directed, bidirected, undirected edges) or RuntimeError, node list as list/tuple/set/frozenset, argument integrity; "
        "all_vstructures on all DAGs with <= 3 nodes (thorough: 4) and random 4-6 node DAGs, triples and as_edges; every case under the label families of graphs.LABEL_FAMILIES (incl. identity-hashed objects) "
        "x 3-4 insertion orders, expected = the extracted Coq model of C15/ExtraModel.v on the abstract graph. proper_possibly_directed_path has NO Coq model: metamorphic stream over all ADMGs with <= 3 nodes "
        "x pairs of disjoint node sets (X, Y) and random 4-5 node ADMGs / PAGs, X and Y as sets and frozensets and a single source also as the bare node (not wrapped in a set), expected = the paths (or exception class) obtained with one-character labels, mapped through the renaming; "
        "plus executable cross-checks of the renaming theorems (oracle on g vs on rmap f g). distinct by (module, canonical inner case, family, order, seed); "
        "non-trivial by the inner module's own rule")
EXHAUSTIVE = {"quick": "extension stream only: all mark graphs / DAGs / ADMGs with <= 3 nodes (every second 3-node mark graph, every third 3-node ADMG with bidirected edges) x all argument tuples",
              "thorough": "extension stream only: all mark graphs (10 pair states) / DAGs / ADMGs with <= 3 nodes x all argument tuples; all DAGs with <= 4 nodes for all_vstructures"}
TRUSTED = ["Python object identity, hashing and set iteration order are NOT modelled; the claim for the implementation rests on the sampled label families and hash seeds"]
ASSUMPTIONS = ["inner property modules build their graphs through graphs.to_*(g, case) so that _lab/_order take effect"]
LEVEL_TEXT = ("Unbounded Coq theorems: the separation spec (and its executable oracle) commutes with every one-to-one renaming and depends on node/edge lists only as sets "
              "(spec_equivariant_msep, spec_order_free_msep, oracle_*), and so does the executable model of m_separated on C01's whole domain (model_equivariant_msep, a corollary of C01's unbounded correctness theorem). "
              "The same pair of unbounded theorems is proved for the Prop-level spec of EVERY algorithm (167 theorems spec_equivariant_<cNN>_<pred> / spec_order_free_<cNN>_<pred> / model_* in Props/C15.v; "
              "`rmap f` = one-to-one renaming of all nodes, `gequiv` = same node set and same edge relations, i.e. list order and duplicates ignored; proofs in Graph/RenameMore.v and C15/Equiv_*.v): "
              "C12 collider_path / collider_connected / in_domain / criterion; C10 is_admg, canon_structure (the renamed canonical DAG meets the structure clause of the renamed input for accordingly chosen latent names) ; "
              "C04/C05 Padj, Vstr, acyclic, is_dag, meq, essential, wf_pdag, consistent_ext and the existence of a consistent extension; C06 inducing_path (path- and existence-level), is_dag, dsep, the right-hand sides of the MAG adjacency/independence clauses; "
              "C07 dpath_plus, no_bow, acyclic, ancestral_bi, maximal, is_admg; C08/C09 simple_pdag, rule_closed, consistent_ext, sound_for, only_orients, structure_kept; C11 sep_in, minimal_sep_in, query_ok; "
              "C16 semi_edge, semi_path, semi_target_path, no_lone_circle, semi-directed reachability; C17 pds_def_path, pds_def_walk, walk_ok, connected, guard_ok, on_block, pds_def_asis; "
              "C18 pd_edge_def, updp_shape, updp_def, disc_def (any / strict parent test), their existence forms, par_of; C19 same_scc, sigma_conn, sigma_sep, acy_edges_of. "
              "Model-level corollaries model_equivariant_* / model_order_free_* (the executable model of the renamed / reordered input equals the renamed / same output), all unbounded: "
              "C12 moral_adj (=, both), moral_graph (commutes up to list order, both), moral_sep (=, both), moral_adjacency; C10 canon_sep (separations of the canonical DAG, any admissible latent names), canon_model (commutes up to list order); "
              "C05 pdag_none / pdag_some (pdag_to_dag succeeds on the renamed/reordered PDAG iff it succeeds on the original, and its output is the renaming of a consistent extension); "
              "C06 inducing_model (= with the witness renamed), dag_to_mag (= rmap f of the result); C07 is_maximal, has_adc, valid_mag (=); C16 is_semi, semi_enum (path membership), poss_desc / poss_anc (= map f); "
              "C17 conn, pds_model; C18 updp_paths, disc_paths, spec_updp_dec, spec_disc_dec; C19 acy_model (commutes up to list order). "
              "Not stated: order-freedom of dag_to_mag_model (its edge list is built in list order; needs symmetry of the inducing-path test), the boolean oracles of C08/C09 completeness. "
              "Extension to the algorithms no other property reaches (C15/ExtraModel.v, ExtraProofs.v, ExtraRefuted.v; 34 theorems *extra_*), all unbounded. The models TIED to the code transcribe what the code does and are proved "
              "equivariant under every one-to-one renaming and independent of list order / duplicates: def_collider, noncollider_asis (the case analysis as coded), common_cause (DiGraph: children) and common_cause_mixed_asis "
              "(ADMG: successors are descendants), latent_dg / latent_mx (set_nodes_as_latent_confounders as coded AFTER the order repair fixes/C15-latent-confounders.patch: successors joined pairwise, predecessors x successors, "
              "removed end points put back; children/parents on a DiGraph, descendants/ancestors on an ADMG; result = rmap f of the result, or raises on both), vstructs / vstruct_edges. "
              "Documentation only (not part of C15, nothing is checked against them): the textbook definitions def_noncollider_spec, common_cause_spec, latent_spec with model = definition theorems, and where the code deviates "
              "from the textbook the witnesses extra_noncollider_asis_refuted, extra_common_cause_mixed_asis_refuted, extra_latent_asis_not_definition_refuted, extra_latent_asis_readds_latent_refuted. "
              "The C15 defect proper: extra_latent_asis_order_refuted (the code before the repair, read in insertion order, gives different results for two insertion orders of one graph). "
              "proper_possibly_directed_path: no Coq model, metamorphic correspondence only. "
              "For the implementation the property is decided by metamorphic correspondence: every sampled case of C01, C04-C12, C16-C19 "
              "is re-run under 6 label families x insertion orders x hash seeds and must still agree with the proved model of that property.")
LEVEL_NOTE = ("CPython identity/interning/hash order cannot be expressed in Gallina; C15 is therefore a correspondence claim over sampled label families, not a theorem about the code. "
              "Trusted: the inner modules' builders, harness/c15_worker.py.")
TECHNIQUE = "Coq equivariance theorems for the spec + metamorphic extracted-model correspondence over label families/orders/hash seeds"

_mods = {}


def inner(name):
    if name not in _mods:
        _mods[name] = importlib.import_module(name)
    return _mods[name]


def available():
    out = []
    for n in INNER:
        if os.path.exists(os.path.join(fw.VERIF, "harness", n + ".py")) and os.path.exists(os.path.join(fw.BIN, n)):
            out.append(n)
    return out


def gen_cases(tier, rng):
    import random
    per_mod = 10 if tier == "quick" else 60
    seeds = [0, 1, 2] if tier == "quick" else list(range(8))
    orders = 1 if tier == "quick" else 2
    k = 0
    for name in available():
        m = inner(name)
        pool = []
        for i, c in enumerate(m.gen_cases("quick", random.Random(rng.random()))):
            if getattr(m, "C15_SKIP", None) and m.C15_SKIP(c):
                continue
            if any(k in c and c[k] is not None and c[k] is not False for k in ("_lab", "falsy", "labels", "mixed", "lab", "label", "fam")):
                continue             # the module already varies labels itself for this case
            pool.append(c)
            if len(pool) >= 4000:
                break
        for c in rng.sample(pool, min(per_mod, len(pool))):
            for fam in FAMILIES:
                if fam == "char" and max(c.get("g", {}).get("V", [0]) or [0]) > 20:
                    continue
                for o in range(orders):
                    k += 1
                    yield {"kind": name, "mod": name, "hashseed": seeds[k % len(seeds)],
                           "inner": dict(c, _lab=fam, _order=rng.randrange(10 ** 6))}
    # a node argument that is NOT in the graph, under every label family: the outcome (exception class, or value) must be the one
    # obtained with plain int labels ("a node passed as an argument is treated as one node": a 2-tuple label must not be
    # splatted into a %-format, iterated or unpacked on the error path either)
    for api in MISSING_APIS:
        yield {"kind": "missing", "api": api, "mod": "_missing", "hashseed": 0}
    # library algorithms that no other property's API reaches (is_definite_collider / is_definite_noncollider, is_node_common_cause,
    # set_nodes_as_latent_confounders, all_vstructures): exhaustive small graphs x all argument tuples and random larger ones, under
    # every label family and several insertion orders, against the extracted Coq model of C15/ExtraModel.v (harness/c15_extra.py)
    for c in cx.gen_cases(tier, random.Random(rng.random())):
        yield dict(c, mod="_extra", hashseed=0)
    # executable cross-check of the renaming theorems
    for i in range(40 if tier == "quick" else 400):
        n = rng.randint(2, 5)
        g = gr.random_kinds_graph(rng, n, gr.ANC_KINDS if i % 2 else gr.ADMG_KINDS, p_edge=0.5,
                                  pred=gr.ancestral_und_ok if i % 2 else None)
        vs = list(g["V"])
        rng.shuffle(vs)
        x, y, Z = vs[0], vs[1], [v for v in vs[2:] if rng.random() < 0.5]
        img = rng.sample(range(0, 12), n)
        yield {"kind": "oracle", "g": g, "X": [x], "Y": [y], "Z": Z, "table": [[v, img[v]] for v in g["V"]]}


# ---- implementation side: one persistent interpreter per hash seed in every pool worker ----
_workers = {}


def _worker(seed):
    w = _workers.get(seed)
    if w is None or w.poll() is not None:
        env = dict(os.environ, PYTHONHASHSEED=str(seed), PYTHONDONTWRITEBYTECODE="1", PYTHONPATH=fw.REPO, VERIF_REPO=fw.REPO)
        w = subprocess.Popen([sys.executable, os.path.join(fw.VERIF, "harness", "c15_worker.py")], stdin=subprocess.PIPE,
                             stdout=subprocess.PIPE, text=True, env=env)
        _workers[seed] = w
    return w


# (all_semi_directed_paths' TARGET is left out: like networkx' all_simple_paths it accepts a node or a container of nodes, so a tuple that
# is not a node is by design read as a container of targets)
MISSING_APIS = ["inducing_path:y", "inducing_path:x", "m_separated:y", "m_separated:z", "all_semi_directed_paths:s",
                "possible_ancestors", "possible_descendants", "pds:x", "pds:y", "pds_path:y",
                "uncovered_pd_path:u", "uncovered_pd_path:c", "discriminating_path:u", "minimal_m_separator:y",
                "is_minimal_m_separator:y", "sigma_separated:y", "valid_mag:L", "dag_to_mag:L"]
_MISSING_G = gr.G([0, 1, 2, 3], D=[(0, 1), (1, 2)], B=[(2, 3)])
_MISSING_P = gr.G([0, 1, 2, 3], D=[(0, 1)], C=[(1, 2), (2, 1), (2, 3)], B=[])


def _missing_call(api, fam):
    import pywhy_graphs.algorithms as alg
    import pywhy_graphs.networkx as pywhy_nx
    case = {"_lab": fam}
    name = api.split(":")[0]
    if name in ("possible_ancestors", "possible_descendants", "pds", "pds_path", "uncovered_pd_path", "discriminating_path",
                "all_semi_directed_paths"):
        G, lab, inv = gr.to_pag(_MISSING_P, case)
    else:
        G, lab, inv = gr.to_admg(_MISSING_G, case)
    a, b, c, m = lab(0), lab(1), lab(2), lab(77)
    calls = {
        "inducing_path:y": lambda: alg.inducing_path(G, a, m), "inducing_path:x": lambda: alg.inducing_path(G, m, c),
        "m_separated:y": lambda: pywhy_nx.m_separated(G, {a}, {m}, set()), "m_separated:z": lambda: pywhy_nx.m_separated(G, {a}, {c}, {m}),
        "all_semi_directed_paths:s": lambda: list(alg.all_semi_directed_paths(G, m, c)),
        "all_semi_directed_paths:t": lambda: list(alg.all_semi_directed_paths(G, a, m)),
        "possible_ancestors": lambda: alg.possible_ancestors(G, m), "possible_descendants": lambda: alg.possible_descendants(G, m),
        "pds:x": lambda: alg.pds(G, m, c), "pds:y": lambda: alg.pds(G, a, m), "pds_path:y": lambda: alg.pds_path(G, a, m),
        "uncovered_pd_path:u": lambda: alg.uncovered_pd_path(G, m, c, 10, first_node=b),
        "uncovered_pd_path:c": lambda: alg.uncovered_pd_path(G, a, m, 10, first_node=b),
        "discriminating_path:u": lambda: alg.discriminating_path(G, m, b, c, 10),
        "minimal_m_separator:y": lambda: pywhy_nx.minimal_m_separator(G, a, m),
        "is_minimal_m_separator:y": lambda: pywhy_nx.is_minimal_m_separator(G, a, m, set()),
        "sigma_separated:y": lambda: alg.sigma_separated(G, {a}, {m}, set()),
        "valid_mag:L": lambda: alg.valid_mag(G, L={m}), "dag_to_mag:L": lambda: alg.dag_to_mag(G.get_graphs("directed"), L={m}).number_of_nodes(),
    }
    try:
        r = calls[api]()
        return "value:" + type(r).__name__
    except BaseException as e:  # noqa
        return "exc:" + type(e).__name__


def run_impl(case):
    if case["kind"] == "oracle":
        return {"oracle": True}
    if case["kind"] == "extra":
        return cx.run_impl(case)
    if case["kind"] == "missing":
        return {"outcome": {fam: _missing_call(case["api"], fam) for fam in ["int"] + [f for f in FAMILIES if f != "obj"]}}
    w = _worker(case["hashseed"])
    w.stdin.write(json.dumps({"mod": case["mod"], "case": case["inner"],
                              "timeout": getattr(inner(case["mod"]), "IMPL_TIMEOUT", 20)}) + "\n")
    w.stdin.flush()
    line = w.stdout.readline()
    if not line:
        return {"exc": "WorkerDied"}
    return json.loads(line)


def custom_evaluate(cases, pool):
    sxs, lines, model = [None] * len(cases), ["!skip"] * len(cases), [None] * len(cases)
    by_mod = {}
    for i, c in enumerate(cases):
        by_mod.setdefault(c["mod"] if c["kind"] != "oracle" else "_oracle", []).append(i)
    for name, idxs in by_mod.items():
        if name == "_missing":
            for i in idxs:
                sxs[i], model[i] = [0], {"missing": True}
            continue
        if name == "_extra":
            for i in [i for i in idxs if cx.encode(cases[i]) is None]:      # metamorphic streams: no model call
                sxs[i], model[i] = [0], {"metamorphic": True}
            idxs = [i for i in idxs if cx.encode(cases[i]) is not None]
            enc = [cx.encode(cases[i]) for i in idxs]
            out = fw.run_model("C15", enc, pool)
            for i, e, line in zip(idxs, enc, out):
                sxs[i], lines[i] = e, line
                model[i] = {"model_error": line} if line.startswith("!error") else json.loads(json.dumps(cx.decode(cases[i], sxmod.loads(line))))
            continue
        if name == "_oracle":
            enc = [[gr.enc(cases[i]["g"]), cases[i]["X"], cases[i]["Y"], cases[i]["Z"], cases[i]["table"]] for i in idxs]
            out = fw.run_model("C15", enc, pool)
            for i, e, line in zip(idxs, enc, out):
                sxs[i], lines[i] = e, line
                model[i] = {"model_error": line} if line.startswith("!error") else {"vals": sxmod.loads(line)}
        else:
            m = inner(name)
            enc = [m.encode(cases[i]["inner"]) for i in idxs]
            out = fw.run_model(m.PROP, enc, pool)
            for i, e, line in zip(idxs, enc, out):
                sxs[i] = [0]
                if line.startswith("!error"):
                    model[i] = {"model_error": line}
                else:
                    model[i] = json.loads(json.dumps(m.decode(cases[i]["inner"], sxmod.loads(line))))
    impl = fw.run_impl_all(sys.modules[__name__], cases, pool)
    return sxs, lines, impl, model


def compare(case, impl, model):
    if case["kind"] == "extra":
        return cx.compare(case, impl, model)
    if case["kind"] == "missing":
        if "exc" in impl:
            return "missing-node:harness"
        o = impl["outcome"]
        bad = sorted(f for f, v in o.items() if v != o["int"])
        return None if not bad else "missing-node:%s:outcome-depends-on-label-family" % case["api"]
    if case["kind"] == "oracle":
        a, b, c, d = model["vals"]
        return None if (a == b and c == d) else "renaming-theorem-crosscheck"
    m = inner(case["mod"])
    r = getattr(m, "compare", fw._default_compare)(case["inner"], impl, model)
    return None if r is None else "%s:%s" % (m.PROP, r)


def classify(case, impl, model):
    if case["kind"] == "extra":
        return cx.classify(case, impl, model)
    if case["kind"] in ("oracle", "missing"):
        return None
    m = inner(case["mod"])
    k = getattr(m, "classify", lambda *a: None)(case["inner"], impl, model)
    return None if k is None else "%s/%s" % (m.PROP, k)


def known(ctx):
    """known findings of the inner properties stay known when met through C15 (same call site, same failure class)"""
    out = list(fw.load_known(PROP))
    for name in available():
        p = inner(name).PROP
        for e in fw.load_known(p):
            if e.get("status") == "known":
                out.append({"key": "%s/%s" % (p, e["key"]), "status": "known", "what": "(via %s) %s" % (p, e["what"]), "witness": None})
    return out


def nontrivial(case, model):
    if case["kind"] == "extra":
        return cx.nontrivial(case, model)
    if case["kind"] in ("oracle", "missing"):
        return True
    m = inner(case["mod"])
    return getattr(m, "nontrivial", lambda c, mo: True)(case["inner"], model)


def key(case):
    if case["kind"] == "extra":
        return cx.key(case)
    if case["kind"] == "missing":
        return "missing:" + case["api"]
    if case["kind"] == "oracle":
        return json.dumps([case["g"], case["X"], case["Y"], case["Z"], case["table"]], sort_keys=True)
    return (case["mod"], case["hashseed"], json.dumps(case["inner"], sort_keys=True))


def shrink(case):
    if case["kind"] == "extra":
        yield from cx.shrink(case)
        return
    if case["kind"] in ("oracle", "missing"):
        return
    m = inner(case["mod"])
    if hasattr(m, "shrink"):
        for c in m.shrink(case["inner"]):
            yield dict(case, inner=c)


def coverage_extra(ctx):
    return {"inner_modules_present": available(), "label_families": FAMILIES}
