"""C15 (extension) — the public algorithms that no other property module reaches, under label families x insertion orders:
  is_definite_collider, is_definite_noncollider (algorithms/pag.py), is_node_common_cause, set_nodes_as_latent_confounders,
  all_vstructures, proper_possibly_directed_path (algorithms/generic.py).
C15 demands INVARIANCE under renaming / label type / insertion order, not a particular meaning.  So the expected value is the
extracted Coq model that TRANSCRIBES WHAT THE CODE DOES (coq/theories/C15/ExtraModel.v, run_case tags 1-4: noncollider_asis,
common_cause on a DiGraph / common_cause_mixed_asis on an ADMG where successors are descendants, latent_dg / latent_mx = the code after
the order-independence repair fixes/C15-latent-confounders.patch, vstructs), evaluated on the abstract int graph and mapped through
the renaming; those models are proved to commute with every one-to-one renaming and to ignore list order (C15/ExtraProofs.v).
proper_possibly_directed_path has no Coq model: metamorphic stream, expected = the result with one-character labels.
Hooked into c15.py as kind "extra" (c15.gen_cases yields these cases, c15.custom_evaluate sends encode(case) to bin/c15)."""
import itertools

import graphs as gr

FAMS = list(gr.LABEL_FAMILIES)          # none of these functions copies or rebuilds labels, so "obj" stays in
TAG = {"coll": 1, "cc": 2, "latent": 3, "vs": 4}


# ------------------------------------------------------------------ generation
def _variants(rng, i, full, n_orders):
    """(family, order seed) pairs: every family when `full`, else int + three families rotating with the case index"""
    fams = FAMS if full else ["int"] + [FAMS[1 + (3 * i + k) % (len(FAMS) - 1)] for k in range(3)]
    return [[f, rng.randrange(10 ** 6)] for f in fams for _ in range(n_orders)] + [["int", None]]


def _triples(g):
    vs = g["V"]
    return [[a, b, c] for a in vs for b in vs for c in vs]


def gen_cases(tier, rng):
    quick = tier == "quick"
    i = 0
    # --- definite colliders / non-colliders: all mark graphs (incl. the one-sided circle marks -o) with <= 3 nodes x ALL node triples
    for n in (1, 2, 3):
        for g in gr.enum_marks(n, ext=True):
            i += 1
            if quick and n == 3 and i % 2:
                continue
            yield {"kind": "extra", "fn": "coll", "g": g, "triples": _triples(g), "variants": _variants(rng, i, False, 1 if quick else 2)}
    for j in range(40 if quick else 400):
        n = rng.randint(4, 6)
        g = gr.random_kinds_graph(rng, n, gr.MARK_KINDS_EXT, p_edge=0.6, acyclic=False)
        tr = _triples(g)
        yield {"kind": "extra", "fn": "coll", "g": g, "triples": rng.sample(tr, min(len(tr), 60)), "variants": _variants(rng, j, True, 3)}
    # --- is_node_common_cause: all DAGs with <= 3 nodes x every node x every exclusion set; DiGraph and ADMG inputs
    for n in (1, 2, 3):
        for g in gr.enum_dag(n):
            i += 1
            qs = [[v, ex] for v in g["V"] for ex in gr.subsets([w for w in g["V"]])]
            yield {"kind": "extra", "fn": "cc", "g": g, "queries": qs, "variants": _variants(rng, i, False, 1 if quick else 2)}
    for j in range(40 if quick else 400):
        n = rng.randint(4, 6)
        g = gr.random_kinds_graph(rng, n, gr.DAG_KINDS, p_edge=0.6)
        qs = [[v, [w for w in g["V"] if rng.random() < 0.3]] for v in g["V"] for _ in range(3)]
        yield {"kind": "extra", "fn": "cc", "g": g, "queries": qs, "variants": _variants(rng, j, True, 3)}
    # --- set_nodes_as_latent_confounders: one (graph, nodes, input class, container, family, order) per case
    def latent_cases(g, nodes_list, full, k):
        for nodes in nodes_list:
            for gt in (("digraph", "admg") if not g["B"] else ("admg",)):
                vs = _variants(rng, k, full, 1 if quick and not full else 3)
                if not full:
                    vs = vs[:3] + vs[-1:]
                for vi, (fam, o) in enumerate(vs):
                    yield {"kind": "extra", "fn": "latent", "g": g, "nodes": nodes, "gtype": gt,
                           "cont": ["list", "frozenset", "set", "tuple"][(vi + k) % 4], "variants": [[fam, o]]}
    for n in (1, 2, 3):
        for g in gr.enum_admg(n):
            i += 1
            if quick and n == 3 and g["B"] and i % 3:
                continue
            subs = [s for s in gr.subsets(g["V"], 2) if s]
            yield from latent_cases(g, subs + ([[g["V"][0], g["V"][0]]] if n == 1 else []), False, i)
    for j in range(60 if quick else 600):
        n = rng.randint(4, 7)
        g = gr.random_kinds_graph(rng, n, gr.DAG_KINDS if j % 3 else gr.ADMG_KINDS, p_edge=0.65)
        cands = [v for v in g["V"] if sum(1 for a, b in g["D"] if a == v) >= 2] or g["V"]
        nodes = rng.sample(cands, min(len(cands), rng.choice([1, 1, 2, 2, 3])))
        if rng.random() < 0.15:
            nodes = nodes + [rng.choice(g["V"])]
        fam = FAMS[j % len(FAMS)]
        for gt in (("digraph", "admg") if not g["B"] else ("admg",)):
            yield {"kind": "extra", "fn": "latent", "g": g, "nodes": nodes, "gtype": gt, "cont": ["list", "frozenset", "set", "tuple"][j % 4],
                   "variants": [[fam, rng.randrange(10 ** 6)]]}
    # --- proper_possibly_directed_path (metamorphic, no Coq model): all ADMGs with <= 3 nodes x all pairs of disjoint non-empty
    #     node sets (X, Y), random 4-5 node ADMGs and mark graphs (as PAG); X, Y as sets and as frozensets, a single source also
    #     as the bare node; reference = the call with one-character labels
    def xy_pairs(vs, cap):
        subs = [s for s in gr.subsets(vs, 2) if s]
        ps = [[x, y] for x in subs for y in subs if not set(x) & set(y)]
        return ps if len(ps) <= cap else rng.sample(ps, cap)
    for n in (2, 3):
        for g in gr.enum_admg(n):
            i += 1
            if quick and n == 3 and i % 2:
                continue
            yield {"kind": "extra", "fn": "ppdp", "g": g, "gtype": "admg", "queries": xy_pairs(g["V"], 12), "variants": _variants(rng, i, False, 1 if quick else 2)}
    for j in range(30 if quick else 300):
        n = rng.randint(4, 5)
        pag = j % 2 == 1
        g = gr.random_kinds_graph(rng, n, gr.MARK_KINDS if pag else gr.ADMG_KINDS, p_edge=0.5, acyclic=not pag)
        yield {"kind": "extra", "fn": "ppdp", "g": g, "gtype": "pag" if pag else "admg", "queries": xy_pairs(g["V"], 4), "variants": _variants(rng, j, True, 3)}
    # --- all_vstructures: all DAGs with <= 3 nodes (4 in the thorough tier), random 4-6 node DAGs
    for n in (1, 2, 3) if quick else (1, 2, 3, 4):
        for g in gr.enum_dag(n):
            i += 1
            yield {"kind": "extra", "fn": "vs", "g": g, "variants": _variants(rng, i, False, 1 if quick else 2)}
    for j in range(40 if quick else 400):
        n = rng.randint(4, 6)
        g = gr.random_kinds_graph(rng, n, gr.DAG_KINDS, p_edge=0.55)
        yield {"kind": "extra", "fn": "vs", "g": g, "variants": _variants(rng, j, True, 3)}


# ------------------------------------------------------------------ model side
def _vcase(fam, o):
    c = {"_lab": fam}
    if o is not None:
        c["_order"] = o
    return c


def encode(case):
    g = case["g"]
    fn = case["fn"]
    if fn == "coll":
        return [1, gr.enc(g), case["triples"]]
    if fn == "cc":
        return [2, gr.enc(g), [[v, ex] for v, ex in case["queries"]]]
    if fn == "latent":
        return [3, gr.enc(g), case["nodes"]]
    if fn == "ppdp":
        return None          # metamorphic: no model call
    return [4, gr.enc(g), []]


def _graph_of(sxg):
    return {"V": sxg[0], "D": sxg[1], "B": sxg[2], "U": sxg[3], "C": sxg[4]}


def decode(case, v):
    fn = case["fn"]
    if fn == "coll":
        return {"coll": [bool(r[0]) for r in v], "noncoll": [bool(r[1]) for r in v], "noncoll_asis": [bool(r[2]) for r in v]}
    if fn == "cc":
        return {"cc": [bool(r[0]) for r in v], "cc_mixed_asis": [bool(r[1]) for r in v]}
    if fn == "latent":
        return {"digraph": _graph_of(v[0][0]) if v[0] else None, "admg": _graph_of(v[1][0]) if v[1] else None}
    both = sorted(v[0])
    return {"triples": both, "edges": sorted(v[1])}


# ------------------------------------------------------------------ implementation side
def _container(kind, xs):
    return {"list": list, "frozenset": frozenset, "set": set, "tuple": tuple}[kind](xs)


def _call(f):
    try:
        return {"val": f()}
    except Exception as e:  # noqa
        return {"exc": type(e).__name__}


def _ppdp_call(case, vc):
    from pywhy_graphs.algorithms import proper_possibly_directed_path
    G, lab, inv = (gr.to_pag if case["gtype"] == "pag" else gr.to_admg)(case["g"], vc)
    before = gr.snapshot(G)
    res = []
    for X, Y in case["queries"]:
        # argument forms: X and Y as sets; as frozensets; and a single source given as the bare node (not wrapped in a set), which
        # must be treated as ONE node whatever its label is made of (a tuple label must not be read as a container of sources).
        # A label that itself is a set/frozenset is by the API's design read as a set of sources: that form is skipped (None).
        forms = [(set, set), (frozenset, frozenset)] + ([("bare", set), ("bare", frozenset)] if len(X) == 1 else [])
        rs = []
        for fx, fy in forms:
            ys = fy(lab(v) for v in Y)
            if fx == "bare":
                xs = lab(X[0])
                if isinstance(xs, (set, frozenset)):
                    rs.append(None)
                    continue
            else:
                xs = fx(lab(v) for v in X)
            r = _call(lambda: sorted([inv(v) for v in path] for path in proper_possibly_directed_path(G, xs, ys)))
            if (fx != "bare" and sorted(map(inv, xs)) != sorted(X)) or sorted(map(inv, ys)) != sorted(Y):
                r = {"exc": "argument-modified"}
            rs.append(r)
        res.append(rs)
    return {"res": res, "intact": gr.snapshot(G) == before}


def run_impl(case):
    g, fn = case["g"], case["fn"]
    out = []
    if fn == "ppdp":
        return {"ref": _ppdp_call(case, {"_lab": "char"}), "variants": [_ppdp_call(case, _vcase(fam, o)) for fam, o in case["variants"]]}
    for fam, o in case["variants"]:
        vc = _vcase(fam, o)
        if fn == "coll":
            from pywhy_graphs.algorithms.pag import is_definite_collider, is_definite_noncollider
            P, lab, inv = gr.to_pag(g, vc)
            before = gr.snapshot(P)
            co = [_call(lambda: is_definite_collider(P, lab(a), lab(b), lab(c))) for a, b, c in case["triples"]]
            nc = [_call(lambda: is_definite_noncollider(P, lab(a), lab(b), lab(c))) for a, b, c in case["triples"]]
            out.append({"coll": co, "noncoll": nc, "intact": gr.snapshot(P) == before})
        elif fn == "cc":
            from pywhy_graphs.algorithms import is_node_common_cause
            res = {}
            for gt in ("digraph", "admg"):
                G, lab, inv = (gr.to_digraph if gt == "digraph" else gr.to_admg)(g, vc)
                before = gr.snapshot(G)
                r = []
                for qi, (v, ex) in enumerate(case["queries"]):
                    cont = ["list", "frozenset", "set", "tuple", "none"][qi % 5]
                    if cont == "none" and not ex:
                        r.append(_call(lambda: is_node_common_cause(G, lab(v))))
                    else:
                        arg = _container(cont if cont != "none" else "list", [lab(w) for w in ex])
                        r.append(_call(lambda: is_node_common_cause(G, lab(v), arg)))
                        if not isinstance(arg, (set, frozenset)) and list(arg) != [lab(w) for w in ex]:
                            r[-1] = {"exc": "exclude_nodes-modified"}
                res[gt] = r
                res[gt + "_intact"] = gr.snapshot(G) == before
            out.append(res)
        elif fn == "latent":
            from pywhy_graphs import ADMG
            from pywhy_graphs.algorithms import set_nodes_as_latent_confounders
            G, lab, inv = (gr.to_digraph if case["gtype"] == "digraph" else gr.to_admg)(g, vc)
            before = gr.snapshot(G)
            arg = _container(case["cont"], [lab(v) for v in case["nodes"]])
            r = _call(lambda: set_nodes_as_latent_confounders(G, arg))
            if "val" in r:
                R = r["val"]
                r = {"val": gr.from_mixed(R, inv), "type": type(R).__name__, "is_admg": isinstance(R, ADMG), "fresh": R is not G}
            out.append({"res": r, "intact": gr.snapshot(G) == before,
                        "arg_intact": sorted(map(inv, arg)) == sorted(_container(case["cont"], case["nodes"]))})
        else:
            from pywhy_graphs.algorithms import all_vstructures
            G, lab, inv = gr.to_digraph(g, vc)
            before = gr.snapshot(G)
            t = _call(lambda: sorted([inv(a), inv(c), inv(b)] for a, c, b in all_vstructures(G)))
            e = _call(lambda: sorted([inv(a), inv(c)] for a, c in all_vstructures(G, as_edges=True)))
            out.append({"triples": t, "edges": e, "intact": gr.snapshot(G) == before})
    return {"variants": out}


# ------------------------------------------------------------------ comparison
def _vals(rs):
    return [r.get("val") if "val" in r else r for r in rs]


def _latent_expected(case, model):
    d = model[case["gtype"]]
    return None if d is None else [d["V"], d["D"], d["B"], d["U"]]


def _latent_got(r):
    if "val" not in r:
        return r
    v = r["val"]
    return [v["V"], v["D"], v["B"], v["U"]]


def _diffs(case, impl, model):
    """list of (observable, variant index) that differ"""
    fn, g = case["fn"], case["g"]
    bad = []
    if fn == "ppdp":
        ref = impl["ref"]
        if not ref["intact"]:
            bad.append(("graph-modified", -1))
        for vi, o in enumerate(impl["variants"]):
            if not o["intact"]:
                bad.append(("graph-modified", vi))
            if any(a is not None and a != b for ra, rb in zip(o["res"], ref["res"]) for a, b in zip(ra, rb)) or len(o["res"]) != len(ref["res"]):
                bad.append(("proper_possibly_directed_path:differs-from-the-result-with-one-character-labels", vi))
        return bad
    for vi, o in enumerate(impl["variants"]):
        if fn == "coll":
            if not o["intact"]:
                bad.append(("graph-modified", vi))
            if _vals(o["coll"]) != model["coll"]:
                bad.append(("is_definite_collider", vi))
            if _vals(o["noncoll"]) != model["noncoll_asis"]:
                bad.append(("is_definite_noncollider", vi))
        elif fn == "cc":
            for gt in ("digraph", "admg"):
                if not o[gt + "_intact"]:
                    bad.append(("graph-modified", vi))
                if _vals(o[gt]) != model["cc" if gt == "digraph" else "cc_mixed_asis"]:
                    bad.append(("is_node_common_cause:" + gt, vi))
        elif fn == "latent":
            if not o["intact"] or not o["arg_intact"]:
                bad.append(("argument-modified", vi))
            exp = _latent_expected(case, model)
            r = o["res"]
            if exp is None:
                if r.get("exc") != "RuntimeError":
                    bad.append(("set_nodes_as_latent_confounders:error", vi))
            elif _latent_got(r) != exp or not r.get("is_admg") or not r.get("fresh") or r["val"]["C"] or r["val"].get("X"):
                bad.append(("set_nodes_as_latent_confounders:result", vi))
        else:
            if not o["intact"]:
                bad.append(("graph-modified", vi))
            t, e = o["triples"], o["edges"]
            if "val" not in t or "val" not in e:
                bad.append(("all_vstructures:exception", vi))
                continue
            sym = sorted(t["val"] + [[b, c, a] for a, c, b in t["val"]])
            if sym != model["triples"] or 2 * len(t["val"]) != len(model["triples"]):
                bad.append(("all_vstructures:triples", vi))
            if e["val"] != model["edges"]:
                bad.append(("all_vstructures:edges", vi))
    return bad


def compare(case, impl, model):
    if "exc" in impl:
        return "extra:harness:" + impl["exc"]
    bad = _diffs(case, impl, model)
    return None if not bad else bad[0][0]


def classify(case, impl, model):
    return None      # no deviation of these functions is a known finding


def nontrivial(case, model):
    fn = case["fn"]
    if fn == "coll":
        return any(model["coll"]) or any(model["noncoll"])
    if fn == "cc":
        return any(model["cc"])
    if fn == "latent":
        return model[case["gtype"]] is not None
    if fn == "ppdp":
        return True
    return bool(model["triples"])


def key(case):
    import json
    return "extra:" + json.dumps([case["fn"], case["g"], case.get("nodes"), case.get("gtype"), case.get("cont"), case.get("triples"),
                                  case.get("queries"), case["variants"]], sort_keys=True)


def shrink(case):
    g = case["g"]
    if len(case["variants"]) > 1:
        for v in case["variants"]:
            yield dict(case, variants=[v])
    for h in gr.shrink_graph(g):
        vs = set(h["V"])
        c = dict(case, g=h)
        if case["fn"] == "coll":
            c["triples"] = [t for t in case["triples"] if set(t) <= vs]
        elif case["fn"] == "cc":
            c["queries"] = [[v, [w for w in ex if w in vs]] for v, ex in case["queries"] if v in vs]
        elif case["fn"] == "ppdp":
            c["queries"] = [q for q in case["queries"] if set(q[0]) | set(q[1]) <= vs]
            if not c["queries"]:
                continue
        elif case["fn"] == "latent":
            if not set(case["nodes"]) <= vs:
                continue
        yield c
    if case["fn"] == "coll" and len(case["triples"]) > 1:
        for t in case["triples"]:
            yield dict(case, triples=[t])
    if case["fn"] in ("cc", "ppdp") and len(case["queries"]) > 1:
        for q in case["queries"]:
            yield dict(case, queries=[q])
    if case["fn"] == "latent" and len(case["nodes"]) > 1:
        for i in range(len(case["nodes"])):
            yield dict(case, nodes=case["nodes"][:i] + case["nodes"][i + 1:])
