"""Persistent implementation-side worker for C15: started once per (pool worker, PYTHONHASHSEED) with that hash seed;
reads {"mod":…, "case":…} JSON lines, answers with the module's run_impl observable as one JSON line."""
import importlib
import json
import os
import signal
import sys

sys.path.insert(0, os.environ.get("VERIF_REPO", "/repo"))
sys.path.insert(0, os.path.dirname(os.path.abspath(__file__)))


class _Timeout(BaseException):
    pass


def _alarm(signum, frame):
    raise _Timeout()


def main():
    signal.signal(signal.SIGALRM, _alarm)
    mods = {}
    for line in sys.stdin:
        req = json.loads(line)
        try:
            m = mods.get(req["mod"]) or mods.setdefault(req["mod"], importlib.import_module(req["mod"]))
            signal.alarm(int(req.get("timeout", 30)))
            try:
                out = m.run_impl(req["case"])
            finally:
                signal.alarm(0)
            out = json.loads(json.dumps(out))
        except _Timeout:
            out = {"exc": "TIMEOUT"}
        except RecursionError:
            out = {"exc": "RecursionError"}
        except BaseException as e:  # noqa
            out = {"exc": type(e).__name__, "msg": str(e)[:160]}
        sys.stdout.write(json.dumps(out) + "\n")
        sys.stdout.flush()


if __name__ == "__main__":
    main()
