"""C16 — all_semi_directed_paths yields exactly the semi-directed simple paths to the target(s) within the cutoff, once each;
is_semi_directed_path; possible_descendants / possible_ancestors = s plus the nodes reachable along such paths."""
import itertools
import graphs as gr
import c16_util as cu

PROP = "C16"
RULE = ("every mark graph MARKS(n) (each pair one of none,->,<-,<->,--,o-o,o->,<-o), n<=3, plus a seeded sample of MARKS(4) (150 quick / "
        "6000 thorough); on each graph every ordered pair (s,t) and every target set of 1-2 nodes not containing s, "
        "cutoff in {None,0..n} (for node targets also -1, n+1, n+3) as a Python int and as numpy.int64 / int32 / intp (expected: the model "
        "on the integer value; negative = 0); target passed as a node, set, frozenset, generator or dict-keys view; LAZY stream: for every target set also a call whose set / "
        "dict is edited by the caller (node added, target removed, cleared) before the generator is consumed or after its first path "
        "- expected: the call-time targets (G itself is read lazily by HEAD's generator and is left alone); MISSING-NODE stream (1/8 of "
        "MARKS(n), 1/5 of the random graphs): a label that is not in G from every family (int, big int, negative, str, char, 0-/2-/3-"
        "tuple, frozenset) as source of all_semi_directed_paths / possible_descendants / possible_ancestors and (non-iterable families) "
        "as target must raise NodeNotFound, the class HEAD raises for an int; is_semi_directed_path on every "
        "duplicate-free node sequence, on EVERY node sequence with a repeat up to length 4 (n<=3), on lists built from walks of the "
        "graph that revisit a node (inner node twice, first node again mid-list, return to the start; n>=4 and random graphs; "
        "expected False) and on other non-paths (absent node, empty); both ancestry sets of every node; seeded random "
        "MARKS graphs n<=7 and dense possibly-directed graphs n=5..7 with sampled queries. REPEAT stream (every graph n<=3 with an "
        "edge, 1/3 of the n=4 sample, 1/4 of the random ones): the PAG is built for a neighbour graph (one pair re-marked or one edge "
        "re-wired with the same node and edge counts), all queries are run and discarded, the SAME object is edited in place into g "
        "(read back and checked), then judged; a quarter of these are judged on obj.copy(). Falsy labels \"\", (), frozenset() for "
        "node 0 on a quarter of MARKS(3). Compared: the sorted multiset of yielded paths, the booleans, the sets. distinct by "
        "(canonical graph, repeat seed, falsy label); non-trivial = some query yields a path and some adjacency path is not semi-directed")
EXHAUSTIVE = {"quick": "MARKS(n) n<=3: all graphs, all ordered pairs, all target sets of size<=2, cutoff None,0..n",
              "thorough": "same (n<=3 exhaustive; n<=3 also exhaustively in the REPEAT stream) + 6000 sampled MARKS(4) graphs with all queries"}
TRUSTED = ["MixedEdgeGraph.neighbors / has_edge taken at face value", "model and oracle compared as sorted lists of paths"]
ASSUMPTIONS = ["default edge-type names", "int labels (label families: C15)",
               "pairs carry one of the eight kinds of the quantifier (no lone circle mark)"]
LEVEL_TEXT = ("All clauses are unbounded Coq theorems (Props/C16.v, statements in C16/Spec.v) about the executable model "
              "C16/Model.v: is_semi_spec (is_semi_directed_path decides the definition), semi_enum_exact (for every graph with a "
              "duplicate-free node list, source, target set and cutoff the enumeration contains each semi-directed simple path to a "
              "target with at most cutoff edges exactly once and nothing else), semi_enum_perm (Permutation with the brute-force "
              "filter over all simple paths), semi_api_ok / semi_cutoff_none (source in targets, cutoff None = |V|-1 = no restriction), "
              "poss_desc_exact / poss_anc_exact (closure = s plus the nodes joined to s by a semi-directed path, by closure_spec and "
              "path shortening), semi_edge_marks (on graphs without a lone circle mark a step is 'adjacent and no arrowhead at the "
              "near end'). The link from the model to /repo is differential correspondence (tie K): sorted multiset of yielded paths, "
              "is_semi_directed_path booleans, both ancestry sets, exhaustively on MARKS(n) n<=3 and on sampled n=4..7 graphs."
              " Tie (T) for the local predicates: translator/predicates.py re-translates on every run the per-pair test of is_semi_directed_path, _possibly_directed (both flags), the BFS step of possible_descendants / possible_ancestors and the two arrowhead filters of _all_semi_directed_paths_graph into Gen/Gen_Preds.v; repo_pred_semi proves by complete case analysis that each equals the model's step predicate semi_ok on every pair state of the quantifier (a state a PAG can hold, no lone circle: 14 of 64), repo_pred_poss_step_filters that the model's ancestry closures step along them, repo_pred_cells_C16 that the translator's table equals the printed Gallina; all 448 cells are compared with the real functions on 2-/3-node PAGs each run (replayable).")
LEVEL_NOTE = ("The model is the behaviour the property demands; /repo before fixes/C16-semi-directed-cutoff-filter.patch yields "
              "non-semi-directed paths in the len(visited)==cutoff branch (0->1<-2, default cutoff) and is reported as VIOLATION. "
              "Trusted: Coq kernel incl. vm_compute, extraction + driver.ml, the Python harness; networkx/MixedEdgeGraph views "
              "(neighbors, has_edge) are taken at face value. Lone circle marks (-o) are outside the quantifier and not generated.")
TECHNIQUE = "Coq proof (model = spec, unbounded, all clauses) + extracted-model correspondence on exhaustive small and seeded random graphs"
SPOT_N = 12


# cutoff argument types: 0 Python int, 1 numpy.int64, 2 numpy.int32, 3 numpy.intp (a query's 5th field; [] = None has no type)
CUT_TYPES = 4
# lazy modes (6th field): 0 none; before consuming: 1 add a node, 2 remove a target, 3 clear; after the first path: 4 clear, 5 add a node
LAZY_MODES = 5


def all_queries(n):
    """query = [s, targets, [] | [cutoff], target kind, cutoff type]; cutoffs: None, 0..n as Python ints for every target kind, and for
    node targets also -1, n+1, n+3 and every value -1..n+3 as a numpy integer (expected: the model on the integer VALUE)"""
    qs = []
    cuts = [[]] + [[k] for k in range(n + 1)]
    wide = [[k] for k in (-1, n + 1, n + 3)]
    for s in range(n):
        others = [v for v in range(n) if v != s]
        for t in range(n):                       # includes t == s (must yield nothing)
            for c in cuts + wide:
                qs.append([s, [t], c, 0, 0])     # target passed as a node, cutoff a Python int
            for j, k in enumerate(range(-1, n + 4)):
                qs.append([s, [t], [k], 0, 1 + (j + s + t) % 3])
        for r in (1, 2):
            for T in itertools.combinations(others, r):
                for c in cuts:
                    qs.append([s, list(T), c, 1 + (len(qs) % 4), len(qs) % CUT_TYPES])  # 1 set, 2 frozenset, 3 generator, 4 dict keys
                    # flavour U: the caller's mutable target container (a real set / the dict behind a keys view) is edited after the
                    # call and before (or in the middle of) consuming the generator; expected: the call-time targets
                    qs.append([s, list(T), c, (1, 4)[len(qs) % 2], 0, 1 + (len(qs) // 2) % LAZY_MODES])
    return qs


def all_probes(n):
    ps = [[]]
    for r in range(1, n + 1):
        for p in itertools.permutations(range(n), r):
            ps.append(list(p))
    # every node sequence WITH a repeat up to length 4 (n<=3; contains every walk that revisits a node: an inner node twice, the
    # first node again in the middle, the last node earlier, a walk returning to its start)
    if n <= 3:
        for r in range(2, 5):
            for p in itertools.product(range(n), repeat=r):
                if len(set(p)) < r:
                    ps.append(list(p))
    # non-paths: repeats, absent node
    for a in range(n):
        ps.append([a, a])
        ps.append([n])
        ps.append([a, n])
        for b in range(n):
            if a != b:
                ps.append([a, b, a])
    return ps


def semi_steps(g):
    """{u: [v]} with u, v a step the per-pair test of is_semi_directed_path accepts (an edge u..v without an arrowhead at u)"""
    D = {tuple(e) for e in g["D"]}
    B = {tuple(e) for e in g["B"]} | {(b, a) for a, b in g["B"]}
    U = {tuple(e) for e in g["U"]} | {(b, a) for a, b in g["U"]}
    C = {tuple(e) for e in g["C"]}
    return {u: [v for v in g["V"] if v != u and ((u, v) in D or (u, v) in U or (u, v) in C) and (v, u) not in D and (u, v) not in B]
            for u in g["V"]}


def walk_probes(g, rng, k=12):
    """node lists built from WALKS of g (every consecutive pair passes the edge test) that repeat a node: expected False.
    Shapes: inner node twice, first node again in the middle, last node seen earlier, return to the start; plus a walk prefix
    that is a genuine path (expected True) and a walk with a node that is not in G appended."""
    nxt = semi_steps(g)
    out = []
    starts = [u for u in g["V"] if nxt[u]]
    for _ in range(k):
        if not starts:
            break
        w = [rng.choice(starts)]
        while len(w) < 7 and nxt[w[-1]]:
            w.append(rng.choice(nxt[w[-1]]))
            if w[-1] in w[:-1]:
                break
        out.append(list(w))                                   # ends in a repeat (or is a path if the walk got stuck)
        if w[-1] in w[:-1] and nxt[w[-1]]:
            out.append(w + [rng.choice(nxt[w[-1]])])          # the repeat is now INNER: [.., a, .., a, c]
            fresh = [v for v in nxt[w[-1]] if v not in w]
            if fresh:
                out.append(w + [fresh[0]])                    # first/inner node repeated, last node new
        out.append(w[:-1])                                    # the duplicate-free prefix
        out.append(w[:2])
        out.append(w[:1])
        out.append(w[:-1] + [len(g["V"]) + 3])                # a node that is not in G
    return [p for p in out if p]


def dense_graph(rng, n):
    """5-7 nodes, many possibly-directed edges: several semi-directed paths per pair, several targets reachable"""
    kinds = rng.choice([["o-o", "o->", "<-o", "->", "<-", "--"], ["o-o", "--", "->", "<-", "<->"], gr.MARK_KINDS[1:]])
    p_edge = rng.choice([0.5, 0.65, 0.8])
    return gr.from_kinds(n, [rng.choice(kinds) if rng.random() < p_edge else "none" for _ in gr.pairs(n)])


def random_queries(rng, n, nq=25, nps=40):
    qs = []
    for _ in range(nq):
        s = rng.randrange(n)
        others = [v for v in range(n) if v != s]
        if rng.random() < 0.5:
            T, asset = [rng.choice(others)], 0
        else:
            T, asset = sorted(rng.sample(others, rng.choice([1, 2, 3]))), rng.choice([1, 2, 3, 4])
        c = [] if rng.random() < 0.3 else [rng.choice([rng.randint(0, n), rng.randint(-1, n + 3), n - 1, n, n + 2])]
        lazy = rng.randrange(1, LAZY_MODES + 1) if asset in (1, 4) and rng.random() < 0.5 else 0
        qs.append([s, T, c, asset, rng.randrange(CUT_TYPES), lazy])
    ps = [rng.sample(range(n), rng.randint(1, n)) for _ in range(nps)]
    return qs, ps


def gen_cases(tier, rng):
    for n in (1, 2, 3):
        qs, ps = all_queries(n), all_probes(n)
        for i, g in enumerate(gr.enum_marks(n)):
            c = {"kind": "marks%d" % n, "g": g, "qs": qs, "ps": ps}
            if i % 8 == 0:
                c["miss"] = 1          # flavour S probes: a missing node of every label family as source / target
            yield c
    # REPEAT stream: the object is built for a neighbour graph, queried, edited in place into g, then judged (c16_util.warm_object)
    for n in (2, 3):
        qs, ps = all_queries(n), all_probes(n)
        for g in gr.enum_marks(n):
            if g["D"] or g["B"] or g["U"] or g["C"]:
                yield {"kind": "marks%d-rep" % n, "g": g, "qs": qs, "ps": ps, "rep": rng.randrange(1 << 30)}
    # falsy labels ("", (), frozenset()) for node 0, as source and as target
    qs, ps = all_queries(3), all_probes(3)
    for i, g in enumerate(gr.enum_marks(3)):
        if i % 4 == 0:
            yield {"kind": "marks3-falsy", "g": g, "qs": qs, "ps": ps, "falsy": (i // 4) % 3}
    qs, ps = all_queries(4), all_probes(4)
    for i in range(150 if tier == "quick" else 6000):
        g = gr.from_kinds(4, [rng.choice(gr.MARK_KINDS) for _ in gr.pairs(4)])
        c = {"kind": "marks4s", "g": g, "qs": qs, "ps": ps + walk_probes(g, rng)}
        if i % 3 == 0:
            c["rep"] = rng.randrange(1 << 30)
            c["kind"] = "marks4s-rep"
        yield c
    for i in range(250 if tier == "quick" else 2500):
        n = rng.randint(4, 7)
        p_edge = rng.choice([0.3, 0.5, 0.7])
        kinds = rng.choice([gr.MARK_KINDS, ["none", "->", "<-", "o-o", "o->", "<-o", "--"], ["none", "o-o", "--", "->", "<-"]])
        g = gr.from_kinds(n, [rng.choice(kinds[1:]) if rng.random() < p_edge else "none" for _ in gr.pairs(n)])
        qs, ps = random_queries(rng, n)
        c = {"kind": "rand", "g": g, "qs": qs, "ps": ps + walk_probes(g, rng)}
        if i % 5 == 1:
            c["miss"] = 1
        if i % 4 == 0:
            c["rep"] = rng.randrange(1 << 30)
            c["kind"] = "rand-rep"
        yield c
    for i in range(200 if tier == "quick" else 1500):
        n = rng.randint(5, 7)
        g = dense_graph(rng, n)
        qs, ps = random_queries(rng, n, nq=12, nps=30)
        qs = [q if q[2] and q[2][0] <= 4 else [q[0], q[1], [rng.randint(1, 4)]] + q[3:] for q in qs] if n == 7 else qs  # bound the path count
        c = {"kind": "dense", "g": g, "qs": qs, "ps": ps + walk_probes(g, rng)}
        if i % 4 == 0:
            c["rep"] = rng.randrange(1 << 30)
            c["kind"] = "dense-rep"
        yield c


def encode(case):
    # the model gets the integer value; a negative cutoff behaves like 0 (cutoff < 1: nothing)
    return [0, gr.enc(case["g"]), [[q[0], q[1], [max(0, k) for k in q[2]]] for q in case["qs"]], case["ps"]]


def decode(case, v):
    nodes = case["g"]["V"]
    return {"paths": [r[0] for r in v[0]], "spec": [r[1] for r in v[0]], "is_semi": v[1],
            "desc": {str(n): s for n, s in zip(nodes, v[2])}, "anc": {str(n): s for n, s in zip(nodes, v[3])}}


def as_target(T, asset, lab):
    """target argument kinds: 0 a node, 1 set, 2 frozenset, 3 generator, 4 dict keys view; returns (argument, mutable container)"""
    if asset == 0:
        return lab(T[0]), None
    if asset == 2:
        return frozenset(lab(t) for t in T), None
    if asset == 3:
        return (lab(t) for t in T), None
    if asset == 4:
        d = {lab(t): None for t in T}
        return d.keys(), d
    st = {lab(t) for t in T}
    return st, st


def edit_container(box, mode, T, s, nodes, lab):
    """what a caller may do to its own set / dict after the call"""
    extra = [v for v in nodes if v != s and v not in T]
    if mode in (1, 5):
        new = lab(extra[0]) if extra else ("absent", "extra")
        if isinstance(box, dict):
            box[new] = None
        else:
            box.add(new)
    elif mode == 2:
        if isinstance(box, dict):
            box.pop(lab(T[0]))
        else:
            box.discard(lab(T[0]))
    else:
        box.clear()


def lazy_paths(f, P, src, T, cutoff, asset, lazy, s, nodes, lab):
    arg, box = as_target(T, asset, lab)
    gen = f(P, src, arg, cutoff=cutoff)
    if not lazy or box is None:
        return list(gen)
    out = []
    if lazy >= 4:
        for p in gen:
            out.append(p)
            break
    edit_container(box, lazy, T, s, nodes, lab)
    out.extend(gen)
    return out


def as_cutoff(c, ctype):
    if not c:
        return None
    if ctype == 0:
        return c[0]
    import numpy as np
    return (np.int64, np.int32, np.intp)[ctype - 1](c[0])


def run_queries(case, P, lab, inv):
    from pywhy_graphs.algorithms import (all_semi_directed_paths, is_semi_directed_path, possible_ancestors,
                                         possible_descendants)
    present = set(case["g"]["V"])
    lab2 = lambda v: lab(v) if v in present else ("absent", v)  # noqa: E731
    paths = []
    for q in case["qs"]:
        s, T, c, asset = q[:4]
        cutoff = as_cutoff(c, q[4] if len(q) > 4 else 0)
        lazy = q[5] if len(q) > 5 else 0
        try:
            res = sorted([inv(x) for x in p] for p in lazy_paths(all_semi_directed_paths, P, lab(s), T, cutoff, asset, lazy, s,
                                                                 case["g"]["V"], lab))
        except Exception as e:  # noqa
            res = "exc:" + type(e).__name__
        paths.append(res)
    sem = []
    for p in case["ps"]:
        try:
            sem.append(int(bool(is_semi_directed_path(P, [lab2(v) for v in p]))))
        except Exception as e:  # noqa
            sem.append("exc:" + type(e).__name__)
    desc, anc = {}, {}
    for v in case["g"]["V"]:
        desc[str(v)] = sorted(inv(x) for x in possible_descendants(P, lab(v)))
        anc[str(v)] = sorted(inv(x) for x in possible_ancestors(P, lab(v)))
    out = {"paths": paths, "is_semi": sem, "desc": desc, "anc": anc}
    if case.get("miss") and case["g"]["V"]:
        v0 = lab(case["g"]["V"][0])
        err = {}
        for fam, m in cu.MISSING.items():
            if m in P:              # (the falsy / environment label variants may use this very label)
                continue
            err[fam] = [cu.exc_class(all_semi_directed_paths, P, m, v0), cu.exc_class(possible_descendants, P, m),
                        cu.exc_class(possible_ancestors, P, m),
                        cu.exc_class(all_semi_directed_paths, P, v0, m) if fam in cu.NON_ITERABLE else "NodeNotFound",
                        "no-exception" if is_semi_directed_path(P, [v0, m]) is False else "not-False"]
        out["err"] = err
    return out


# flavour S: what HEAD raises for a missing INT label, required for a missing label of every family
# (source of all_semi_directed_paths, possible_descendants, possible_ancestors, non-iterable target; is_semi_directed_path: False)
ERR_EXPECTED = ["NodeNotFound", "NodeNotFound", "NodeNotFound", "NodeNotFound", "no-exception"]


def run_impl(case):
    P, lab, inv = cu.warm_object(case, cu.build_pag, lambda P, lab, inv: run_queries(case, P, lab, inv))
    before = gr.snapshot(P)
    out = run_queries(case, P, lab, inv)
    out["mutated"] = gr.snapshot(P) != before
    return out


def compare(case, impl, model):
    if "exc" in impl:
        return "exception"
    if model["paths"] != model["spec"]:
        return "model-vs-oracle"
    if impl["paths"] != model["paths"]:
        return "paths"
    if impl["is_semi"] != model["is_semi"]:
        return "is_semi_directed_path"
    if impl["desc"] != model["desc"]:
        return "possible_descendants"
    if impl["anc"] != model["anc"]:
        return "possible_ancestors"
    if impl["mutated"]:
        return "argument-mutated"
    if any(v != ERR_EXPECTED for v in impl.get("err", {}).values()):
        return "missing-node-exception-class"
    return None


def nontrivial(case, model):
    g = case["g"]
    adj = {(a, b) for k in "DBUC" for a, b in g[k]}
    adj |= {(b, a) for a, b in adj}
    neg = any(len(p) == 2 and tuple(p) in adj and not r for p, r in zip(case["ps"], model["is_semi"]))
    return neg and any(model["paths"])


def key(case):
    return (gr.canon(case["g"]), case.get("rep"), case.get("falsy"))


def shrink(case):
    for i in range(len(case["qs"])):
        yield dict(case, qs=[case["qs"][i]], ps=[])
    if len(case["ps"]) > 1:
        for i in range(len(case["ps"])):
            yield dict(case, qs=[], ps=[case["ps"][i]])
    for h in gr.shrink_graph(case["g"]):
        vs = set(h["V"])
        if h["V"] != case["g"]["V"]:
            # relabelling is not attempted: keep only queries / probes over surviving nodes
            qs = [q for q in case["qs"] if q[0] in vs and all(t in vs for t in q[1])]
            ps = [p for p in case["ps"] if all(v in vs for v in p)]
            yield dict(case, g=h, qs=qs, ps=ps)
        else:
            yield dict(case, g=h)


# tie (T) for the local predicates (translator/predicates.py -> Gen/Gen_Preds.v -> Tie/Preds_C16.v): pre_build, extra, replay of cells
import tie_preds  # noqa: E402
tie_preds.install(globals(), PROP)
