"""Helpers shared by c16.py and c17.py: kind-level neighbour graphs, in-place morphing of a PAG from one abstract graph to
another (REPEAT stream: state that goes stale across calls on the SAME object), falsy node labels."""
import random
import graphs as gr

_BY_EDGES = {}
for _k, _spec in gr.PAIR_KINDS.items():
    _BY_EDGES[frozenset((layer, i, j) for layer, es in _spec.items() for (i, j) in es)] = _k


def pair_kinds(g):
    """{(a,b), a<b: kind name} for every pair that carries an edge (None as kind if it is not one of PAIR_KINDS)"""
    per = {}
    for layer in "DBUC":
        for a, b in g[layer]:
            lo, hi = (a, b) if a < b else (b, a)
            i, j = (0, 1) if a < b else (1, 0)
            if layer in "BU":
                i, j = 0, 1
            per.setdefault((lo, hi), set()).add((layer, i, j))
    return {p: _BY_EDGES.get(frozenset(s)) for p, s in per.items()}


def pair_edges(pair, kind):
    """[(layer, u, v)] in the insertion order D, B, U, C"""
    out = []
    if kind in (None, "none"):
        return out
    spec = gr.PAIR_KINDS[kind]
    for layer in "DBUC":
        for (i, j) in spec.get(layer, []):
            out.append((layer, pair[i], pair[j]))
    return out


def from_pair_kinds(V, pk):
    g = {"V": list(V), "D": [], "B": [], "U": [], "C": []}
    for p in sorted(pk):
        for layer, u, v in pair_edges(p, pk[p]):
            g[layer].append([u, v])
    return g


def neighbour(g, rng, kinds=None):
    """a graph on the same nodes that differs from g in one pair ('remark': another mark kind on an existing edge) or in two
    pairs ('move': one edge re-wired onto an empty pair, same node and edge counts); None if g has no edge or odd kinds"""
    kinds = [k for k in (kinds or gr.MARK_KINDS) if k != "none"]
    pk = pair_kinds(g)
    if not pk or any(k is None for k in pk.values()):
        return None
    V = sorted(g["V"])
    pairs = sorted(pk)
    empty = [(a, b) for i, a in enumerate(V) for b in V[i + 1:] if (a, b) not in pk]
    mode = rng.choice(["remark", "move", "move"]) if empty else "remark"
    p = rng.choice(pairs)
    new = dict(pk)
    if mode == "remark":
        new[p] = rng.choice([k for k in kinds if k != pk[p]])
    else:
        share = [q for q in empty if set(q) & set(p)]
        q = rng.choice(share or empty)
        del new[p]
        new[q] = rng.choice([pk[p]] + [k for k in kinds if len(pair_edges((0, 1), k)) == len(pair_edges((0, 1), pk[p]))])
    return from_pair_kinds(g["V"], new)


def morph_pairs(obj, g_from, g_to, lab, names=None):
    """edit obj in place from g_from to g_to: for every pair whose marks differ remove all its edges, then add the new ones"""
    names = names or gr.LAYER_NAMES
    a, b = pair_kinds(g_from), pair_kinds(g_to)
    changed = [p for p in sorted(set(a) | set(b)) if a.get(p) != b.get(p)]
    for p in changed:
        for layer, u, v in pair_edges(p, a.get(p)):
            obj.remove_edge(lab(u), lab(v), names[layer])
    for p in changed:
        for layer, u, v in pair_edges(p, b.get(p)):
            obj.add_edge(lab(u), lab(v), names[layer])
    return obj


FALSY = ["", (), frozenset()]


def labeler(case):
    """graphs.labeler, except that case["falsy"] = k labels node 0 with the falsy hashable FALSY[k]"""
    lab0, inv0 = gr.labeler(case)
    k = (case or {}).get("falsy")
    if k is None:
        return lab0, inv0
    special = FALSY[k]

    def lab(v):
        return special if v == 0 else lab0(v)

    def inv(x):
        return 0 if (type(x) is type(special) and x == special) else inv0(x)
    return lab, inv


def build_pag(g, case):
    """graphs.to_pag with the labeler above"""
    from pywhy_graphs import PAG
    lab, inv = labeler(case)
    P = PAG()
    for v in gr.ordered(case, g["V"], "V"):
        P.add_node(lab(v))
    es = [(k, a, b) for k in "DBUC" for a, b in g[k]]
    for k, a, b in gr.ordered(case, es, "E"):
        P.add_edge(lab(a), lab(b), gr.LAYER_NAMES[k])
    return P, lab, inv


def warm_object(case, build, run_queries):
    """REPEAT protocol: (obj, lab, inv) representing case["g"]; with case["rep"] the object is first built for a neighbour
    graph, queried (answers discarded), then edited in place; rep % 4 == 3 additionally hands out obj.copy()"""
    g = case["g"]
    rep = case.get("rep")
    if rep is None:
        return build(g, case)
    rng = random.Random(rep)
    g0 = neighbour(g, rng)
    if g0 is None:
        return build(g, case)
    try:
        obj, lab, inv = build(g0, case)
    except Exception:  # noqa  (the neighbour is not constructible, e.g. a lagged arrow against time): plain case
        return build(g, case)
    try:
        run_queries(obj, lab, inv)
    except Exception:  # noqa  (warm-up answers are discarded; an exception here is judged by the plain stream)
        pass
    morph_pairs(obj, g0, g, lab)
    if gr.canon(gr.from_mixed(obj, inv)) != gr.canon(g):
        raise AssertionError("REPEAT stream: object edited in place does not read back as the target graph")
    if rep % 4 == 3 and not case.get("ts"):
        obj = obj.copy()
    return obj, lab, inv


# ---- flavour S: a node that is NOT in the graph, drawn from every label family (2-/3-/0-tuples break '"%s" % label') ----
MISSING = {"int": 10 ** 6 + 7, "bigint": (1 << 61) + 3, "neg": -(10 ** 6) - 3, "str": "Xmissq", "char": "~", "tuple2": ("n", 10 ** 6),
           "tuple3": ("n", 1, 2), "tuple0": (), "frozenset": frozenset({"missing"})}
NON_ITERABLE = ("int", "bigint", "neg")


def exc_class(f, *a, **kw):
    """class name of the exception of f(*a) (a returned generator is consumed), or 'no-exception'"""
    try:
        r = f(*a, **kw)
        if hasattr(r, "__next__"):
            list(r)
        return "no-exception"
    except Exception as e:  # noqa
        return type(e).__name__
