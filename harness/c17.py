"""C17 — pds / pds_path / pds_t / pds_t_path equal their definition (never smaller; equal under the walk reading)."""
import itertools
import graphs as gr
import c16_util as cu

PROP = "C17"
RULE = ("every mark graph MARKS(n) n<=3, a seeded sample of MARKS(4) (quick) / MARKS(4) and MARKS(5) (thorough), seeded random "
        "graphs n<=8 with forced collider chains x*->a<->b<->... and triangle chains, stationary time-series PAGs with 2 variables "
        "and max_lag<=2 (edge set replicated over all lags); on each graph every x (no endpoint) and every ordered pair (x,y), "
        "adjacent or not, connected or not (y = node 0 is a falsy label): pds, pds_path (+ pds_t, pds_t_path on the time-series "
        "graphs). REPEAT stream (every graph n<=3 with an edge, 1/3 of the n=4,5 samples, 1/4 of the chain and time-series graphs): "
        "the object is built for a neighbour graph (one pair re-marked, or one edge re-wired keeping node and edge counts), all "
        "queries are run and discarded, the SAME object is edited in place into g (read back and checked), then judged; a quarter of "
        "these are judged on obj.copy(). Falsy labels \"\", (), frozenset() for node 0 (as x and as y) on a third of MARKS(3) and "
        "an eighth of the chain graphs. Numeric argument max_path_length (beyond the quantifier): on a share of the queries of a "
        "share of the cases 1000 / |V|^2+1 as Python int, numpy.int64, int32, intp must give the result of None for all four "
        "functions; 0,1,2 must give the same pds as int and as numpy.int64, between the neighbours of x and the unbounded result, "
        "and exactly the neighbours for 0. MISSING-NODE stream (1/8 of MARKS(n), 1/5 of the chain and 1/4 of the time-series graphs): a "
        "label that is not in G from every family (int, big int, negative, str, char, 0-/2-/3-tuple, frozenset; (label, lag) on "
        "time-series graphs) as x and as y of pds / pds_path / pds_t / pds_t_path must raise the class HEAD raises for an int "
        "(NetworkXError for pds(x) alone, NodeNotFound otherwise). Verdict per returned set S: "
        "definition over simple paths not within S => violation; S not within the walk definition (= proved model) => violation; "
        "S strictly larger than the simple-path definition but inside the walk definition => known finding. "
        "distinct by (canonical graph, repeat seed, falsy label); non-trivial = some pds set contains a node that is not adjacent to x")
EXHAUSTIVE = {"quick": "MARKS(n) n<=3: all graphs, all x, all ordered (x,y)", "thorough": "same (n<=3 exhaustive)"}
TRUSTED = ["MixedEdgeGraph.neighbors / has_edge / to_undirected and nx.has_path / nx.biconnected_component_edges at face value "
           "(the block of the edge x-y is computed on the model side by its definition: nodes on a simple cycle through x-y)",
           "time-series graphs are built with stationary=False and the full replicated edge set, then read back and compared with "
           "the abstract graph before any query"]
ASSUMPTIONS = ["default edge-type names", "int labels (label families: C15)",
               "max_path_length=None for every judged set (other values: only the argument-type probes described in RULE)", "x != y"]
SPOT_N = 10
LEVEL_TEXT = ("Unbounded Coq theorems (Props/C17.v, statements in C17/Spec.v) about the executable model C17/Model.v (edge-state "
              "search with the repaired enqueue (this_node, next_node)): pds_model_is_walk and pds_with_y (the returned set is exactly "
              "the definition read over walks that never re-enter x, avoid y and never step straight back; empty when y is not "
              "connected to x), pds_walk_excludes (never x, never y), pds_never_smaller(_y) (superset of the definition over SIMPLE "
              "paths - the direction FCI needs), block_spec (the model's block of the edge x-y is the set of nodes on a simple cycle "
              "through it), pds_path_block and pds_t_filter (definitional intersections / lag filter), pds_def_path_dec_exact (the "
              "simple-path oracle used by the check is sound and complete for the Prop pds_def_path, with and without endpoint), "
              "pds_path_never_smaller / pds_t_never_smaller / pds_t_path_never_smaller (end to end: definition intersected with the "
              "block and the lag bound is contained in the result), ts_enc_bijection + pds_t_ts_spec / pds_t_pairs_spec (time-series "
              "nodes (variable,|lag|) encoded as variable*(L+1)+|lag|, the encoding the harness uses; the filter keeps exactly the "
              "nodes with |lag| <= max(|lag x|,|lag y|)), pds_asis_spec / pds_asis_depth2 / pds_asis_subset (the search of /repo as "
              "it is reaches exactly the walks whose triples are all tested against x = the neighbours of x plus one collider step, "
              "always inside the walk definition). pds_exact_refuted / pds_walk_path_differ: kernel computation on a 5-node witness, "
              "'exactly' is false for the simple-path reading. The link to /repo is differential correspondence (tie K) on MARKS(n) "
              "n<=3 exhaustively, sampled n=4,5, forced collider / triangle chains n<=8, stationary 2-variable time-series PAGs."
              " Tie (T) for the local predicates: translator/predicates.py re-translates is_definite_collider and the triple test of pds (is_def_collider or is_triangle) into Gen/Gen_Preds.v on every run; repo_pred_pds / repo_pred_pds_next prove by complete case analysis (18 x 18 x 18 pair states a PAG can hold) that they are collider3 / triple_ok and that pds_next / pds_asis_next filter by the generated test; 4096 cells of is_definite_collider are compared with the real function and 5184 cells of the inline test are observed inside the running pds by a line tracer each run (replayable).")
LEVEL_NOTE = ("Verdict per returned set S: simple-path definition not within S => VIOLATION; S not within the walk definition => "
              "VIOLATION; S between the two => known finding (over-approximation). /repo as it is enqueues (prev_node, next_node) "
              "and returns sets SMALLER than the definition (2->1<->0<->3: pds(2)={0,1}); the one-line repair is "
              "fixes/C17-pds-enqueue-this-next.patch, but two baseline tests pin the defective output, so it is also recorded as a "
              "known finding recognised mechanically: every returned set must equal the as-is model pds_asis (proved smaller than the "
              "definition on the witness, C17/Refuted.v). nx.biconnected_component_edges / nx.has_path are modelled by their "
              "definitions, not verified; time-series graphs are built with stationary=False and the replicated edge set.")
TECHNIQUE = ("Coq proof (model = walk definition, superset of simple-path definition, unbounded; refutation of exactness by vm_compute) "
             "+ extracted-model and extracted-oracle correspondence")
KNOWN_KEY = "pds:walk-reading-over-approximates-simple-path-definition"
ASIS_KEY = "pds:enqueue-prev-next-loses-nodes-behind-second-inner-node"


def all_queries(nodes):
    qs = [[x, []] for x in nodes]
    qs += [[x, [y]] for x in nodes for y in nodes if x != y]
    return qs


def set_kind(ks, n, u, v, kind):
    """kind is read from u to v"""
    swap = {"->": "<-", "<-": "->", "o->": "<-o", "<-o": "o->"}
    if u > v:
        u, v, kind = v, u, swap.get(kind, kind)
    ks[gr.pairs(n).index((u, v))] = kind


def chain_graph(rng, n):
    """random mark graph with a forced collider chain and/or triangle chain"""
    p_edge = rng.choice([0.05, 0.15, 0.3])
    ks = [rng.choice(gr.MARK_KINDS[1:]) if rng.random() < p_edge else "none" for _ in gr.pairs(n)]
    order = list(range(n))
    rng.shuffle(order)
    mode = rng.choice(["coll", "tri", "mix"])
    k = rng.randint(3, n)
    chain = order[:k]
    for i in range(len(chain) - 1):
        u, v = chain[i], chain[i + 1]
        m = mode if mode != "mix" else rng.choice(["coll", "tri"])
        if m == "coll":
            set_kind(ks, n, u, v, rng.choice(["->", "o->", "<->"]) if i == 0 else "<->")
        else:
            set_kind(ks, n, u, v, rng.choice(["o-o", "--", "o->", "->", "<->"]))
            if i + 2 < len(chain):
                set_kind(ks, n, u, chain[i + 2], rng.choice(["o-o", "o->", "<-o", "--"]))
    return gr.from_kinds(n, ks)


TS_LAGGED_KINDS = ["none", "none", "->", "<->", "o-o", "o->"]


def ts_graph(rng, nv, L):
    """stationary edge set over nodes id = var*(L+1)+lag; lags[id] = lag"""
    n = nv * (L + 1)
    nid = lambda var, lag: var * (L + 1) + lag  # noqa: E731
    ks = ["none"] * len(gr.pairs(n))
    for a in range(nv):
        for b in range(a + 1, nv):
            kind = rng.choice(gr.MARK_KINDS)
            for t in range(L + 1):
                set_kind(ks, n, nid(a, t), nid(b, t), kind)
    for u in range(nv):
        for v in range(nv):
            for d in range(1, L + 1):
                kind = rng.choice(TS_LAGGED_KINDS)      # read from the earlier node (u, t+d) to the later node (v, t)
                for t in range(0, L - d + 1):
                    set_kind(ks, n, nid(u, t + d), nid(v, t), kind)
    g = gr.from_kinds(n, ks)
    lags = [i % (L + 1) for i in range(n)]
    return g, lags


def _rep(c, rng):
    return dict(c, rep=rng.randrange(1 << 30), kind=c["kind"] + "-rep")


def gen_cases(tier, rng):
    for n in (1, 2, 3):
        qs = all_queries(range(n))
        for i, g in enumerate(gr.enum_marks(n)):
            c = {"kind": "marks%d" % n, "g": g, "qs": qs}
            if n < 3 or i % 2 == 0:
                c["mpl"] = 2      # numeric-argument probes (max_path_length in every integer type) on every 2nd query
            if i % 8 == 0:
                c["miss"] = 1     # flavour S probes: a missing node of every label family as x and as y
            yield c
    # REPEAT stream: the object is built for a neighbour graph (one pair re-marked, or one edge re-wired keeping the node and edge
    # counts), queried, edited in place into g, then judged (c16_util.warm_object); every graph n<=3 that has an edge
    for n in (2, 3):
        qs = all_queries(range(n))
        for g in gr.enum_marks(n):
            if g["D"] or g["B"] or g["U"] or g["C"]:
                yield _rep({"kind": "marks%d" % n, "g": g, "qs": qs}, rng)
    # falsy labels ("", (), frozenset()) for node 0: as x and as the optional endpoint y
    qs = all_queries(range(3))
    for i, g in enumerate(gr.enum_marks(3)):
        if i % 3 == 0:
            yield {"kind": "marks3-falsy", "g": g, "qs": qs, "falsy": (i // 3) % 3}
    for n, cnt in ((4, 1500),) if tier == "quick" else ((4, 8000), (5, 8000)):
        qs = all_queries(range(n))
        for i in range(cnt):
            p = rng.choice([0.3, 0.5, 0.7, 0.9])
            g = gr.from_kinds(n, [rng.choice(gr.MARK_KINDS[1:]) if rng.random() < p else "none" for _ in gr.pairs(n)])
            c = {"kind": "marks%ds" % n, "g": g, "qs": qs}
            if i % 5 == 1:
                c["mpl"] = 3
            yield _rep(c, rng) if i % 3 == 0 else c
    for i in range(400 if tier == "quick" else 4000):
        n = rng.randint(5, 8)
        g = chain_graph(rng, n)
        qs = all_queries(range(n))
        if len(qs) > 30:
            qs = [q for q in qs if not q[1]] + rng.sample([q for q in qs if q[1]], 22)
        c = {"kind": "chain", "g": g, "qs": qs}
        if i % 8 == 1:
            c["falsy"] = i % 3
        if i % 3 == 0:
            c["mpl"] = 5
        if i % 5 == 2:
            c["miss"] = 1
        yield _rep(c, rng) if i % 4 == 0 else c
    for i in range(200 if tier == "quick" else 2500):
        L = rng.choice([1, 2])
        g, lags = ts_graph(rng, 2, L)
        c = {"kind": "ts", "g": g, "qs": all_queries(g["V"]), "ts": {"nv": 2, "L": L, "lags": lags}}
        if i % 3 == 0:
            c["mpl"] = 7
        if i % 4 == 1:
            c["miss"] = 1
        yield _rep(c, rng) if i % 4 == 0 else c


def encode(case):
    lags = case["ts"]["lags"] if case.get("ts") else []
    return [0, gr.enc(case["g"]), lags, case["qs"]]


NAMES = ["pds", "pds_path", "pds_t", "pds_t_path"]


def decode(case, v):
    out = []
    for q, r in zip(case["qs"], v):
        if not q[1]:
            out.append({"pds": {"m": r[0], "o": r[1], "a": r[2]}})
        else:
            out.append({nm: {"m": r[2 * i], "o": r[2 * i + 1], "a": r[8 + i]} for i, nm in enumerate(NAMES)})
    return out


def to_tspag(g, case):
    from pywhy_graphs import StationaryTimeSeriesPAG
    L = case["ts"]["L"]
    nlab, _ = gr.labeler(case)
    lab = lambda v: (nlab(v // (L + 1)), -(v % (L + 1)))  # noqa: E731
    table = {}
    P = StationaryTimeSeriesPAG(max_lag=L, stationary=False)
    for v in gr.ordered(case, g["V"], "V"):
        table[lab(v)] = v
        P.add_node(lab(v))
    names = {"D": "directed", "B": "bidirected", "U": "undirected", "C": "circle"}
    es = [(k, a, b) for k in "DBUC" for a, b in g[k]]
    for k, a, b in gr.ordered(case, es, "E"):
        P.add_edge(lab(a), lab(b), names[k])
    inv = lambda x: table[(x[0], int(x[1]))]  # noqa: E731
    back = gr.from_mixed(P, inv)
    canon = lambda h: gr.canon({"V": h["V"], **{k: h[k] for k in "DBUC"}})  # noqa: E731
    if canon(back) != canon(g):
        raise AssertionError("time-series graph read back differs from the abstract graph")
    return P, lab, inv


def _seeds(g, x, yo):
    """neighbours of x except y; nothing when y is given and not connected to x (what max_path_length=0 must return)"""
    adj = {v: set() for v in g["V"]}
    for k in "DBUC":
        for a, b in g[k]:
            adj[a].add(b)
            adj[b].add(a)
    if yo:
        seen, todo = {x}, [x]
        while todo:
            for w in adj[todo.pop()]:
                if w not in seen:
                    seen.add(w)
                    todo.append(w)
        if yo[0] not in seen:
            return []
    return sorted(v for v in adj[x] if not yo or v != yo[0])


def probe_max_path_length(case, P, lab, call, fs, x, yo, base):
    """numeric argument max_path_length (beyond the quantifier, which fixes None): effectively unbounded values in every integer
    type must give the result of None; small values must give the same result as Python int and as numpy.int64, between the
    neighbours of x and the unbounded result, and exactly the neighbours for 0.  Returns a list of problem strings."""
    import numpy as np
    n = len(case["g"]["V"])
    args = (lab(x),) + ((lab(yo[0]),) if yo else ())
    bad = []
    for nm, f in fs.items():
        for tag, v in (("int1000", 1000), ("int64", np.int64(1000)), ("int32", np.int32(1000)), ("intp", np.intp(n * n + 1)),
                       ("intn2", n * n + 1)):
            r = call(f, *args, max_path_length=v)
            if r != base[nm]:
                bad.append("%s(max_path_length=%s) differs from max_path_length=None" % (nm, tag))
    seeds = _seeds(case["g"], x, yo)
    for k in (0, 1, 2):
        r_int = call(fs["pds"], *args, max_path_length=k)
        r_np = call(fs["pds"], *args, max_path_length=np.int64(k))
        if r_int != r_np:
            bad.append("pds(max_path_length=%d): int and numpy.int64 differ" % k)
        if isinstance(r_int, str) or isinstance(base["pds"], str):
            bad.append("pds(max_path_length=%d) raised" % k)
        elif not (set(seeds) <= set(r_int) <= set(base["pds"])):
            bad.append("pds(max_path_length=%d) not between the neighbours of x and the unbounded result" % k)
        elif k == 0 and r_int != seeds:
            bad.append("pds(max_path_length=0) is not the set of neighbours of x")
    return bad


def run_queries(case, P, lab, inv, judged=True):
    from pywhy_graphs.algorithms import pds, pds_path, pds_t, pds_t_path
    ts = bool(case.get("ts"))

    def call(f, *a, **kw):
        try:
            return sorted(inv(v) for v in f(P, *a, **kw))
        except Exception as e:  # noqa
            return "exc:" + type(e).__name__
    out, bad = [], []
    stride = case.get("mpl") if judged else None
    for i, (x, yo) in enumerate(case["qs"]):
        if not yo:
            r = {"pds": call(pds, lab(x))}
            fs = {"pds": pds}
        else:
            y = yo[0]
            r = {"pds": call(pds, lab(x), lab(y)), "pds_path": call(pds_path, lab(x), lab(y))}
            fs = {"pds": pds, "pds_path": pds_path}
            if ts:
                r["pds_t"] = call(pds_t, lab(x), lab(y))
                r["pds_t_path"] = call(pds_t_path, lab(x), lab(y))
                fs.update(pds_t=pds_t, pds_t_path=pds_t_path)
        out.append(r)
        if stride and i % stride == 0:
            bad.extend("q%d: %s" % (i, b) for b in probe_max_path_length(case, P, lab, call, fs, x, yo, r))
    if judged and case.get("miss") and case["g"]["V"]:
        v0 = lab(case["g"]["V"][0])
        for fam, m0 in cu.MISSING.items():
            for m in ([(m0, 0), (m0, -1)] if ts else [m0]):
                if m in P:          # (the falsy / environment label variants may use this very label)
                    continue
                got = [cu.exc_class(pds, P, m), cu.exc_class(pds, P, m, v0), cu.exc_class(pds, P, v0, m),
                       cu.exc_class(pds_path, P, v0, m), cu.exc_class(pds_path, P, m, v0)]
                if ts:
                    got += [cu.exc_class(pds_t, P, v0, m), cu.exc_class(pds_t, P, m, v0),
                            cu.exc_class(pds_t_path, P, v0, m), cu.exc_class(pds_t_path, P, m, v0)]
                if got != ERR_EXPECTED[:len(got)]:
                    bad.append("missing node of family %s: exception classes %s" % (fam, got))
    return out, bad


# flavour S: what HEAD raises for a missing INT label, required for a missing label of every family:
# pds(m), pds(m, v), pds(v, m), pds_path(v, m), pds_path(m, v), pds_t(v, m), pds_t(m, v), pds_t_path(v, m), pds_t_path(m, v)
ERR_EXPECTED = ["NetworkXError"] + ["NodeNotFound"] * 8


def run_impl(case):
    build = to_tspag if case.get("ts") else cu.build_pag
    P, lab, inv = cu.warm_object(case, build, lambda P, lab, inv: run_queries(case, P, lab, inv, judged=False))
    before = gr.snapshot(P)
    out, bad = run_queries(case, P, lab, inv)
    return {"res": out, "mpl": bad[:5], "mutated": gr.snapshot(P) != before}


_ORDER = ["exception", "model-vs-oracle", "max_path_length-argument", "missing-node-exception-class", "missing-nodes", "extra-nodes-outside-walk-definition",
          "argument-mutated", "over-approximation"]


def verdicts(case, impl, model):
    if "exc" in impl:
        return {"exception"}
    vs = set()
    for r, m in zip(impl["res"], model):
        for nm, s in r.items():
            mo = m[nm]
            if not set(mo["o"]) <= set(mo["m"]):
                vs.add("model-vs-oracle")
            if isinstance(s, str):
                vs.add("exception")
            elif not set(mo["o"]) <= set(s):
                vs.add("missing-nodes")
            elif not set(s) <= set(mo["m"]):
                vs.add("extra-nodes-outside-walk-definition")
            elif set(s) != set(mo["o"]):
                vs.add("over-approximation")
    if impl["mutated"]:
        vs.add("argument-mutated")
    if impl.get("mpl"):
        vs.add("missing-node-exception-class" if any("missing node" in b for b in impl["mpl"]) else "max_path_length-argument")
    return vs


def compare(case, impl, model):
    vs = verdicts(case, impl, model)
    for k in _ORDER:
        if k in vs:
            return k
    return None


def _matches(impl, model, which):
    return all(s == m[nm][which] for r, m in zip(impl["res"], model) for nm, s in r.items())


def classify(case, impl, model):
    vs = verdicts(case, impl, model)
    if vs == {"over-approximation"}:
        return KNOWN_KEY
    # the search of /repo as it is, (prev_node, next_node) enqueued: recognised only if EVERY returned set equals the as-is model
    if vs and vs <= {"missing-nodes", "extra-nodes-outside-walk-definition", "over-approximation"} and _matches(impl, model, "a"):
        return ASIS_KEY
    return None


def nontrivial(case, model):
    g = case["g"]
    adj = {(a, b) for k in "DBUC" for a, b in g[k]}
    adj |= {(b, a) for a, b in adj}
    return any(any((q[0], v) not in adj for v in m["pds"]["m"]) for q, m in zip(case["qs"], model))


def key(case):
    return (gr.canon(case["g"]), case.get("rep"), case.get("falsy"))


def shrink(case):
    for i in range(len(case["qs"])):
        yield dict(case, qs=[case["qs"][i]])
    if case.get("ts"):
        return
    for h in gr.shrink_graph(case["g"]):
        vs = set(h["V"])
        qs = [q for q in case["qs"] if q[0] in vs and all(y in vs for y in q[1])]
        if qs:
            yield dict(case, g=h, qs=qs)


# tie (T) for the local predicates (translator/predicates.py -> Gen/Gen_Preds.v -> Tie/Preds_Cxx.v): pre_build, extra, replay of cells
import tie_preds  # noqa: E402
tie_preds.install(globals(), PROP)
