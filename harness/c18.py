"""C18 — uncovered_pd_path / discriminating_path: found iff a path exists (definition), every returned path valid.

Model side per query (coq/theories/C18/Model.v run_case): the definitional enumeration of ALL valid paths (proved:
In p (updp_paths ..) <-> updp_def .. p, same for disc_paths), hence `exists` and the validity of any returned path,
plus the search models (disc_search: repaired BFS, proved sound and complete; updp_search: BFS with one global
explored set, neighbours ascending, proved sound, incomplete)."""
import itertools
import graphs as gr

PROP = "C18"
RULE = ("every MARKS(n) graph (per pair one of none,->,<-,<->,--,o-o,o->,<-o) n<=3, sampled n=4,5, random n<=8, planted "
        "collider-chain graphs; per graph every ordered (u,c), every first_node/second_node in V-{u}, forbid_node in V-{u}, "
        "force_circle in {F,T} (sampled for n>=5), one both-given call, every ordered triple (u,a,c); max_path_length=None; "
        "REPEAT stream (every n<=3 graph, 25 % of the sampled/random ones, 50 % of the planted ones): the PAG object is built "
        "for a neighbour graph (marks of 1-2 pairs changed, -> / <-> swaps favoured), the same queries are run and discarded, "
        "the object is edited in place into the target graph, then judged - state kept across calls must not go stale; "
        "label stream: str/tuple/bigint/int257/frozenset/char labels with every query label built by a separate call "
        "(equal, not identical objects; falsy label 0 used as first/second/forbid node throughout); "
        "LARGE/DEEP stream (run by extra(), quick: 6 graphs, thorough: 22): o-o / mixed p.d. chains of 200-700 nodes with leaf "
        "side branches (trees: the chain is the only simple path, so a path exists iff the chain is valid), o-o grids 12x12..20x20, "
        "collider chains of 150-400 nodes; expected = verdict of the extracted verified checker on a closed-form candidate path "
        "(valid => a path exists), every returned path judged by the same checker (found=True with an empty path is a violation), "
        "recursion head-room 120 frames (_reclimit; both functions are iterative at HEAD); "
        "distinct by (canonical graph, warm-up graph, label family); non-trivial = some query has a path and some has none")
EXHAUSTIVE = {"quick": "all MARKS(n) n<=3 x all queries", "thorough": "all MARKS(n) n<=3 x all queries"}
TRUSTED = ["PAG construction (add_edge guards), MixedEdgeGraph.neighbors/has_edge taken at face value",
           "CPython iteration order of a set of ints 0..7 is ascending (order-faithful model of uncovered_pd_path)"]
ASSUMPTIONS = ["LARGE stream: non-existence is only asserted on trees (unique simple path); graphs stay below the documented "
               "budget of 1000 visited nodes that max_path_length=None stands for",
               "default edge-type names", "int node labels 0..7 (label families: C15)", "max_path_length=None only",
               "forbid_node read as the implementation does: it constrains the first node the search takes (the node "
               "after u, or after second_node when that is given)",
               "a path has at least one edge after u (u == c has no path)"]
SPOT_N = 6
IMPL_TIMEOUT = 120
KNOWN_KEY = "uncovered_pd_path:not-found-although-path-exists"


# ------------------------------------------------------------------ queries
def opt(x):
    return [] if x is None else [x]


def all_queries(V):
    qs = []
    for u in V:
        others = [v for v in V if v != u]
        qs.append([0, u, u, [], [], [], 0])
        for c in others:
            for first, second in [(None, None)] + [(f, None) for f in others] + [(None, s) for s in others]:
                for forbid in [None] + others:
                    for fc in (0, 1):
                        qs.append([0, u, c, opt(first), opt(second), opt(forbid), fc])
    for u, a, c in itertools.permutations(V, 3):
        qs.append([1, u, a, c])
    if len(V) >= 4:
        qs.append([0, V[0], V[1], [V[2]], [V[3]], [], 0])   # both given: RuntimeError
    return qs


_QCACHE = {}


def pick_queries(V, rng, limit):
    if limit is None:      # share one list object between all graphs on the same node set (memory)
        if tuple(V) not in _QCACHE:
            _QCACHE[tuple(V)] = all_queries(V)
        return _QCACHE[tuple(V)]
    qs = all_queries(V)
    if limit is not None and len(qs) > limit:
        disc = [q for q in qs if q[0] == 1]
        upd = [q for q in qs if q[0] == 0]
        k = min(len(disc), limit // 3)
        qs = rng.sample(disc, k) + rng.sample(upd, limit - k)
    return qs


def planted(rng, n):
    """collider chain v *-> q1 <-> ... <-> a <-* u, all q -> c, u *-* c, plus noise (so that discriminating paths exist)"""
    V = list(range(n))
    rng.shuffle(V)
    k = rng.randint(1, n - 3)
    v, qs, u, c = V[0], V[1:1 + k], V[1 + k], V[2 + k]
    kinds = {}

    def put(a, b, kind):   # kind written for the ordered pair (a,b)
        if a < b:
            kinds[(a, b)] = kind
        else:
            kinds[(b, a)] = {"->": "<-", "<-": "->", "o->": "<-o", "<-o": "o->"}.get(kind, kind)
    put(v, qs[0], rng.choice(["->", "<->", "o->"]))
    for x, y in zip(qs, qs[1:]):
        put(x, y, "<->")
    put(u, qs[-1], rng.choice(["->", "<->", "o->"]))
    for q in qs:
        put(q, c, "->")
    put(u, c, rng.choice(["->", "<-", "<->", "o-o", "o->", "<-o", "--"]))
    for p in gr.pairs(n):
        if p not in kinds:
            if rng.random() < 0.3 and p not in ((min(v, c), max(v, c)),):
                kinds[p] = rng.choice(gr.MARK_KINDS[1:])
            else:
                kinds[p] = "none"
        elif rng.random() < 0.12:
            kinds[p] = rng.choice(gr.MARK_KINDS)      # sabotage
    return gr.from_kinds(n, [kinds[p] for p in gr.pairs(n)])


def crossing(rng, n):
    """two p.d. routes u -> x1 -> y -> .. -> c and u -> x2 -> y -> .. -> c crossing in y, random shields and noise"""
    V = list(range(n))
    rng.shuffle(V)
    u, x1, x2, y, c = V[:5]
    kinds = {}

    def put(a, b, kind):
        kinds[(min(a, b), max(a, b))] = kind if a < b else {"->": "<-", "<-": "->", "o->": "<-o", "<-o": "o->"}.get(kind, kind)
    pd = ["->", "o->", "o-o"]
    for a, b in ((u, x1), (u, x2), (x1, y), (x2, y), (y, c)):
        put(a, b, rng.choice(pd))
    put(rng.choice([x1, x2]), c, rng.choice(["<-", "<->", "--", "<-o"]))
    for p in gr.pairs(n):
        if p not in kinds:
            kinds[p] = rng.choice(gr.MARK_KINDS[1:]) if rng.random() < 0.15 else "none"
    return gr.from_kinds(n, [kinds[p] for p in gr.pairs(n)])


def kinds_of(g):
    """per pair (a<b, V = 0..n-1) the kind name of a simple-mark graph"""
    D = {tuple(e) for e in g["D"]}
    B = {tuple(sorted(e)) for e in g["B"]}
    U = {tuple(sorted(e)) for e in g["U"]}
    C = {tuple(e) for e in g["C"]}
    out = []
    for a, b in gr.pairs(len(g["V"])):
        if (a, b) in B:
            k = "<->"
        elif (a, b) in U:
            k = "--"
        elif (a, b) in D:
            k = "o->" if (b, a) in C else "->"
        elif (b, a) in D:
            k = "<-o" if (a, b) in C else "<-"
        elif (a, b) in C:
            k = "o-o" if (b, a) in C else "-o"
        elif (b, a) in C:
            k = "o-"
        else:
            k = "none"
        out.append(k)
    return out


ARROWISH = ["->", "<-", "<->"]


def neighbour(g, rng):
    """a graph on the same nodes that differs from g in the marks of one or two adjacent pairs (biased towards
    -> / <- / <-> swaps: what "is w a parent of c" depends on), sometimes also in one adjacency"""
    n = len(g["V"])
    ks = kinds_of(g)
    adj = [i for i, k in enumerate(ks) if k != "none"]
    if not adj:
        return None
    h = list(ks)
    for _ in range(rng.choice([1, 1, 2])):
        i = rng.choice(adj)
        pool = ARROWISH if (ks[i] in ARROWISH and rng.random() < 0.6) else gr.MARK_KINDS[1:]
        h[i] = rng.choice([k for k in pool if k != ks[i]])
    if rng.random() < 0.2:
        i = rng.randrange(len(h))
        h[i] = "none" if h[i] != "none" else rng.choice(gr.MARK_KINDS[1:])
    return gr.from_kinds(n, h) if h != ks else None


def with_rep(case, rng):
    """REPEAT variant: the object is built for a neighbour graph, queried (answers discarded), edited in place into g"""
    g0 = neighbour(case["g"], rng)
    return dict(case, rep=g0, kind=case["kind"] + "+rep") if g0 is not None else case


LAB_FAMILIES = ["str", "tuple", "bigint", "int257", "frozenset", "char", "obj", "mixed"]


def gen_cases(tier, rng):
    quick = tier == "quick"
    for n in (2, 3):
        for g in gr.enum_marks(n):
            yield {"kind": "marks%d" % n, "g": g, "qs": all_queries(g["V"])}
    for g in gr.enum_marks(3):      # REPEAT stream on every n<=3 graph
        if g["D"] or g["B"] or g["U"] or g["C"]:
            yield with_rep({"kind": "marks3", "g": g, "qs": all_queries(g["V"])}, rng)
    kinds = gr.MARK_KINDS
    for i in range(520 if quick else 12000):
        g = gr.from_kinds(4, [rng.choice(kinds) for _ in gr.pairs(4)])
        case = {"kind": "marks4s", "g": g, "qs": pick_queries(g["V"], rng, 240 if quick else None)}
        yield with_rep(case, rng) if i % 4 == 0 else case
    for i in range(180 if quick else 6000):
        g = gr.from_kinds(5, [rng.choice(kinds) if rng.random() < 0.7 else "none" for _ in gr.pairs(5)])
        case = {"kind": "marks5s", "g": g, "qs": pick_queries(g["V"], rng, 200)}
        yield with_rep(case, rng) if i % 4 == 0 else case
    for i in range(100 if quick else 2000):
        n = rng.randint(6, 8)
        g = gr.random_kinds_graph(rng, n, kinds, p_edge=rng.choice([0.25, 0.4, 0.55]), acyclic=False)
        case = {"kind": "rand", "g": g, "qs": pick_queries(g["V"], rng, 150)}
        yield with_rep(case, rng) if i % 4 == 0 else case
    for i in range(320 if quick else 5000):
        # collider chains, 5-8 nodes in the majority (several parents of c, several bidirected neighbours)
        n = rng.randint(4, 8) if i % 3 == 0 else rng.randint(5, 7)
        g = planted(rng, n)
        disc = [[1, u, a, c] for u, a, c in itertools.permutations(g["V"], 3)]
        qs = pick_queries(g["V"], rng, 100) + rng.sample(disc, min(len(disc), 120))
        case = {"kind": "planted", "g": g, "qs": qs}
        yield with_rep(case, rng) if i % 2 == 0 else case
    for i in range(120 if quick else 3000):
        n = rng.randint(5, 7)
        g = crossing(rng, n)
        plain = [[0, u, c, [], [], [], fc] for u in g["V"] for c in g["V"] if u != c for fc in (0, 1)]
        case = {"kind": "crossing", "g": g, "qs": plain + pick_queries(g["V"], rng, 120)}
        yield with_rep(case, rng) if i % 4 == 0 else case
    # label families: the query labels are built by a SEPARATE call of the label function, so they are equal to but
    # not identical with the objects stored in the graph (catches `is` comparisons on nodes)
    for i in range(160 if quick else 2000):
        n = rng.randint(3, 6)
        pick = i % 3
        g = (planted(rng, max(n, 4)) if pick == 0 else crossing(rng, max(n, 5)) if pick == 1
             else gr.from_kinds(n, [rng.choice(kinds) if rng.random() < 0.7 else "none" for _ in gr.pairs(n)]))
        forb = [q for q in all_queries(g["V"]) if q[0] == 0 and q[5]]
        qs = pick_queries(g["V"], rng, 80) + rng.sample(forb, min(len(forb), 80))
        yield {"kind": "labels", "g": g, "qs": qs, "_lab": rng.choice(LAB_FAMILIES), "_order": rng.randrange(1000)}


# ------------------------------------------------------------------ LARGE / DEEP stream (run by extra(), not spot-checked)
FLIP = {"->": "<-", "<-": "->", "o->": "<-o", "<-o": "o->"}


def graph_of_edges(n, edges):
    """edges: (a, b, kind) with the kind written for the ordered pair (a, b)"""
    g = {"V": list(range(n)), "D": [], "B": [], "U": [], "C": []}
    for a, b, k in edges:
        for layer, es in gr.PAIR_KINDS[k].items():
            for (i, j) in es:
                g[layer].append([(a, b)[i], (a, b)[j]])
    return g


def large_chain(rng, n, kinds, leaves, bad=None):
    """tree: chain 0..n-1 plus leaves; the chain is the ONLY simple path from 0 to n-1 (a tree has exactly one), so it is
    the only candidate: an uncovered p.d. path exists iff the chain is one"""
    edges = [(i, i + 1, rng.choice(kinds)) for i in range(n - 1)]
    if bad is not None:
        edges[bad] = (bad, bad + 1, rng.choice(["<-", "<->", "--", "<-o"]))
    for j in range(leaves):
        edges.append((rng.randrange(1, n - 1), n + j, rng.choice(gr.MARK_KINDS[1:])))
    g = graph_of_edges(n + leaves, edges)
    path = list(range(n))
    circ = all(k == "o-o" for _, _, k in edges[:n - 1])
    qs, cand, expect = [], [], []

    def add(q, p, e):
        qs.append(q), cand.append(p), expect.append(e)
    ok = bad is None
    add([0, 0, n - 1, [], [], [], 0], path, ok)
    if n <= 450:
        add([0, 0, n - 1, [], [1], [], 0], path, ok)
        add([0, 0, n - 1, [], [], [], 1], path, ok and circ)
        add([0, 1, n - 1, [0], [], [], 0], path, ok)
        add([0, 0, n - 1, [], [], [1], 0], path, False)          # the only path is forbidden
        add([0, 0, n - 1, [], [1], [2], 0], path, False)
        if circ:
            add([0, n - 1, 0, [], [], [], 1], path[::-1], ok)
    return {"kind": "large:chain%d" % n, "g": g, "qs": qs, "cand": cand, "expect": expect, "_reclimit": 120}


def large_grid(rng, r, c):
    """r x c grid of o-o edges: no triangles and nodes two steps apart are not adjacent, so the path along the first
    row and down the last column is an uncovered circle path (validated by the checker)"""
    nid = lambda i, j: i * c + j  # noqa: E731
    edges = [(nid(i, j), nid(i, j + 1), "o-o") for i in range(r) for j in range(c - 1)]
    edges += [(nid(i, j), nid(i + 1, j), "o-o") for i in range(r - 1) for j in range(c)]
    g = graph_of_edges(r * c, edges)
    far = [nid(0, j) for j in range(c)] + [nid(i, c - 1) for i in range(1, r)]
    near = [nid(0, 0), nid(0, 1), nid(1, 1)]
    mid = [nid(0, j) for j in range(c // 2 + 1)] + [nid(i, c // 2) for i in range(1, r // 2 + 1)]
    qs, cand, expect = [], [], []
    for p in (far, near, mid):
        for fc in (0, 1):
            qs.append([0, p[0], p[-1], [], [], [], fc]), cand.append(p), expect.append(True)
    qs.append([0, far[0], far[-1], [], [far[1]], [], 0]), cand.append(far), expect.append(True)
    return {"kind": "large:grid%dx%d" % (r, c), "g": g, "qs": qs, "cand": cand, "expect": expect, "_reclimit": 120}


def large_disc(rng, k):
    """v=0 *-> 1 <-> 2 <-> ... <-> k <-* u=k+1, every collider -> c=k+2, u *-* c, plus a few side nodes:
    (0, 1, .., k, u, c) is a discriminating path for (u, a=k, c) (validated by the checker)"""
    u, c = k + 1, k + 2
    edges = [(0, 1, rng.choice(["->", "<->", "o->"]))]
    edges += [(i, i + 1, "<->") for i in range(1, k)]
    edges += [(u, k, rng.choice(["->", "<->", "o->"])), (u, c, rng.choice(["->", "<-", "o-o", "<->"]))]
    edges += [(i, c, "->") for i in range(1, k + 1)]
    n = k + 3
    for j in range(5):      # side branches: spouses of colliders that are adjacent to c but no parents of c
        edges.append((rng.randrange(1, k), n + j, "<->"))
        edges.append((n + j, c, "<->"))
    g = graph_of_edges(n + 5, edges)
    path = list(range(0, k + 1)) + [u, c]
    return {"kind": "large:disc%d" % k, "g": g, "qs": [[1, u, k, c]], "cand": [path], "expect": [True], "_reclimit": 120}


def large_cases(tier, rng):
    pdk = ["->", "o->", "o-o"]
    yield large_chain(rng, 540, ["o-o"], 0)
    yield large_chain(rng, rng.randint(300, 420), pdk, 12)
    yield large_chain(rng, rng.randint(200, 300), pdk, 8, bad=rng.randint(50, 150))
    yield large_grid(rng, 20, 20)
    yield large_grid(rng, rng.randint(12, 16), rng.randint(12, 16))
    yield large_disc(rng, rng.randint(200, 300))
    if tier != "quick":
        for _ in range(4):
            yield large_chain(rng, rng.randint(450, 700), ["o-o"] if rng.random() < 0.5 else pdk, rng.randint(0, 20))
            yield large_chain(rng, rng.randint(300, 450), pdk, rng.randint(0, 20), bad=rng.randint(10, 250))
            yield large_grid(rng, rng.randint(12, 20), rng.randint(12, 20))
            yield large_disc(rng, rng.randint(150, 400))


def _eval_large(case):
    import framework as fw
    line = sxmod_dumps(encode(case))
    out = fw._run_shard((fw.BIN + "/c18", [line]))[0]
    import sx as _sx
    if out.startswith("!error"):
        return case, {"model_error": out}, None, "model_error"
    model = decode(case, _sx.loads(out))
    impl = fw._impl_worker((case, IMPL_TIMEOUT))
    return case, model, impl, compare(case, impl, model)


_LARGE_STATS = {}


def extra(ctx, pool):
    """the LARGE / DEEP stream: long chains, grids, long collider chains (150-700 nodes), recursion head-room 120 frames"""
    import random
    rng = random.Random("%s:large" % ctx["seed"])
    cases = list(large_cases(ctx["tier"], rng))
    out = []
    res = pool.map(_eval_large, cases, chunksize=1)
    for case, model, impl, r in res:
        if r is not None:
            small = {k: v for k, v in case.items()}
            out.append({"reason": "impl differs from proved checker / closed form on %s (LARGE stream, %s)" % (r, case["kind"]),
                        "found_input": True, "correspondence": "K:C18:%s" % r, "case": small, "impl": impl, "model": model,
                        "problems": problems(case, impl, model)[:10] if r != "model_error" else [],
                        "how_to_replay": "cd /verif && ./check C18 --replay <this file>"})
    _LARGE_STATS.update(large_cases=len(cases), large_queries=sum(len(c["qs"]) for c in cases),
                        large_nodes_max=max(len(c["g"]["V"]) for c in cases), large_failing=len(out))
    return out


def coverage_extra(ctx):
    return dict(_LARGE_STATS)


def encode(case):
    if "cand" in case:      # LARGE stream: check mode, the verified checker judges one closed-form candidate path per query
        return [1, gr.enc(case["g"]), [[q, p] for q, p in zip(case["qs"], case["cand"])]]
    return [0, gr.enc(case["g"]), case["qs"]]


NONE_U = {"code": 0, "paths": [], "sfound": 0, "spath": []}
NONE_D = dict(NONE_U, len=NONE_U)
NOT_FOUND = {"found": False, "path": []}


def decode(case, v):
    """per query a dict; the overwhelmingly common answer "no path, nothing found" is stored as 0 (memory)"""
    if "cand" in case:
        return [int(b) for b in v]
    out = []
    for r in v:
        d = {"code": r[0], "paths": sorted(r[1]), "sfound": r[2], "spath": r[3]}
        if len(r) > 4:   # discriminating_path: the lenient reading ("a -> c or a o-> c" counts as a parent of c)
            d["len"] = {"code": r[4], "paths": sorted(r[5]), "sfound": r[6], "spath": r[7]}
        out.append(0 if d == NONE_U or d == NONE_D else d)
    return out


def m_at(case, model, i):
    m = model[i]
    return m if m != 0 else (NONE_D if case["qs"][i][0] == 1 else NONE_U)


def r_at(impl, i):
    r = impl["res"][i]
    return r if r != 0 else NOT_FOUND


# ------------------------------------------------------------------ implementation
def morph_marks(P, g0, g, lab):
    """edit the PAG built for g0 in place into g: first remove every edge g lacks, then add the missing ones
    (all removals first, so that the PAG insertion guards never see a half-changed pair)"""
    names = {"D": "directed", "B": "bidirected", "U": "undirected", "C": "circle"}
    for phase in ("remove", "add"):
        for k in "DBUC":
            norm = (lambda e: tuple(sorted(e))) if k in "BU" else (lambda e: tuple(e))
            old = {norm(e) for e in g0[k]}
            new = {norm(e) for e in g[k]}
            if phase == "remove":
                for a, b in sorted(old - new):
                    P.remove_edge(lab(a), lab(b), names[k])
            else:
                for a, b in sorted(new - old):
                    P.add_edge(lab(a), lab(b), names[k])


def run_impl(case):
    g0 = case.get("rep")
    if g0 is None:
        P, lab, inv = gr.to_pag(case["g"], case)
    else:
        P, lab, inv = gr.to_pag(g0, case)
        run_queries(P, lab, inv, case["qs"])          # warm-up on the neighbour graph, answers discarded
        morph_marks(P, g0, case["g"], lab)
        if gr.canon(gr.from_mixed(P, inv)) != gr.canon(case["g"]):
            raise AssertionError("harness: morph did not produce the target graph")
    before = gr.snapshot(P)
    res = run_queries(P, lab, inv, case["qs"])
    return {"res": res, "mutated": gr.snapshot(P) != before}


def run_queries(P, lab, inv, qs):
    """every label passed to the API is built by a fresh call of lab (equal to, not identical with, the stored node)"""
    from pywhy_graphs.algorithms import discriminating_path, uncovered_pd_path
    res = []
    for q in qs:
        try:
            if q[0] == 0:
                _, u, c, first, second, forbid, fc = q
                kw = {}
                if first:
                    kw["first_node"] = lab(first[0])
                if second:
                    kw["second_node"] = lab(second[0])
                if forbid:
                    kw["forbid_node"] = lab(forbid[0])
                path, found = uncovered_pd_path(P, lab(u), lab(c), None, force_circle=bool(fc), **kw)
            else:
                _, u, a, c = q
                found, path, _expl = discriminating_path(P, lab(u), lab(a), lab(c), None)
            r = {"found": bool(found), "path": [inv(x) for x in path]}
            res.append(0 if r == NOT_FOUND else r)
        except Exception as e:  # noqa
            res.append({"exc": type(e).__name__})
    return res


# ------------------------------------------------------------------ comparison
PRIORITY = ["model-soundness", "model-vs-oracle", "argument-mutated", "invalid-path", "exception", "not-found"]
KNOWN_KEY_A = "discriminating_path:a-with-circle-mark-accepted-as-parent-of-c"


def check_paths(g, entries):
    """verdicts of the verified checker (extracted updp_valid_b / disc_valid_b) on [(query, path)]"""
    import subprocess
    import framework as fw
    if not entries:
        return []
    line = sxmod_dumps([1, gr.enc(g), [[q, p] for q, p in entries]])
    out = subprocess.run([fw.BIN + "/c18"], input=line + "\n", stdout=subprocess.PIPE, text=True,
                         env=dict(fw.ENV, OCAMLRUNPARAM="s=4M,l=8G")).stdout.strip()
    import sx as _sx
    return [int(b) for b in _sx.loads(out)]


def sxmod_dumps(v):
    import sx as _sx
    return _sx.dumps(v)


def problems_large(case, impl, model):
    """LARGE stream: model[i] = verdict of the verified checker on the closed-form candidate of query i.
    candidate valid  => a path exists (c18_updp_valid_b_spec / c18_disc_valid_b_spec), found must be True;
    expect False     => the graph is a tree, the candidate is its unique simple path and it is invalid: found must be False;
    every returned path is judged by the same verified checker (found=True with an empty path is invalid)."""
    out = []
    if "exc" in impl:
        return [(-1, "exception")]
    if impl["mutated"]:
        out.append((-1, "argument-mutated"))
    tocheck = []
    for i, q in enumerate(case["qs"]):
        r = r_at(impl, i)
        if bool(model[i]) != bool(case["expect"][i]):
            out.append((i, "model-vs-oracle"))       # the closed form stated by the generator is wrong
        elif "exc" in r:
            out.append((i, "exception"))
        elif r["found"]:
            if not case["expect"][i]:
                out.append((i, "invalid-path"))       # no path exists at all
            else:
                tocheck.append((i, q, r["path"]))
        elif case["expect"][i]:
            out.append((i, "not-found"))
    for (i, q, p), ok in zip(tocheck, check_paths(case["g"], [(q, p) for _, q, p in tocheck])):
        if not ok:
            out.append((i, "invalid-path"))
    return sorted(out)


def problems(case, impl, model):
    """list of (query index, class)"""
    if "cand" in case:
        return problems_large(case, impl, model)
    out = []
    if "exc" in impl:
        return [(-1, "exception")]
    if impl["mutated"]:
        out.append((-1, "argument-mutated"))
    for i, q in enumerate(case["qs"]):
        r, m = r_at(impl, i), m_at(case, model, i)
        if m["sfound"] and m["spath"] not in m["paths"]:
            out.append((i, "model-soundness"))
        if q[0] == 1 and (m["sfound"] != m["code"] or m["len"]["sfound"] != m["len"]["code"]
                          or (m["len"]["sfound"] and m["len"]["spath"] not in m["len"]["paths"])):
            out.append((i, "model-vs-oracle"))
        if m["code"] == 2:
            if r.get("exc") != "RuntimeError":
                out.append((i, "exception"))
            continue
        if "exc" in r:
            out.append((i, "exception"))
            continue
        if r["found"]:
            if r["path"] not in m["paths"]:
                out.append((i, "invalid-path"))
        elif m["code"] == 1:
            out.append((i, "not-found"))
    return out


def compare(case, impl, model):
    ps = {c for _, c in problems(case, impl, model)}
    for c in PRIORITY:
        if c in ps:
            return c
    return None


def classify(case, impl, model):
    if "cand" in case:
        return None
    return classify_small(case, impl, model)


def classify_small(case, impl, model):
    """known class: uncovered_pd_path says found=False although a path exists, the returned values are otherwise
    fine, and (int labels) the order-faithful global-explored-set model reproduces found=False"""
    ps = problems(case, impl, model)
    if not ps:
        return None
    faithful = case.get("_lab", "int") == "int" and all(0 <= v <= 7 for v in case["g"]["V"])
    keys = set()
    for i, c in ps:
        if i < 0:
            return None
        q, r, m = case["qs"][i], r_at(impl, i), m_at(case, model, i)
        if q[0] == 0 and c == "not-found" and not (faithful and m["sfound"]):
            keys.add(KNOWN_KEY)
        elif (q[0] == 1 and c == "invalid-path" and r["path"] in m["len"]["paths"]
              and not gr_is_parent(case["g"], q[2], q[3])):
            # found a path that is discriminating except that a o-> c (circle at a) was taken for "a is a parent of c"
            keys.add(KNOWN_KEY_A)
        else:
            return None
    return min(keys)   # a batched case may show both recorded classes; every problem in it is a recorded one


def gr_is_parent(g, a, c):
    return [a, c] in g["D"] and [c, a] not in g["C"] and [c, a] not in g["D"]


def nontrivial(case, model):
    if "cand" in case:
        return True
    codes = {0 if m == 0 else m["code"] for m in model}
    return 0 in codes and 1 in codes


def key(case):
    return (gr.canon(case["g"]), gr.canon(case["rep"]) if case.get("rep") else None, case.get("_lab", "int"))


def shrink(case):
    if "cand" in case:
        for i in range(len(case["qs"])) if len(case["qs"]) > 1 else []:
            yield dict(case, qs=[case["qs"][i]], cand=[case["cand"][i]], expect=[case["expect"][i]])
        return
    qs = case["qs"]
    if len(qs) > 1:
        for i in range(len(qs)):
            yield dict(case, qs=[qs[i]])
    if case.get("rep"):
        yield {k: v for k, v in case.items() if k != "rep"}      # still failing without the warm-up?
        for h0 in gr.shrink_graph(case["rep"]):
            if h0["V"] == case["rep"]["V"]:
                yield dict(case, rep=h0)
    for h in gr.shrink_graph(case["g"]):
        vs = set(h["V"])
        c2 = case
        if case.get("rep"):
            r0 = case["rep"]
            c2 = dict(case, rep={"V": [v for v in r0["V"] if v in vs],
                                 **{k: [e for e in r0[k] if e[0] in vs and e[1] in vs] for k in "DBUC"}})

        def ok(q):
            flat = [x for x in q[1:] if isinstance(x, int)] if q[0] == 1 else [q[1], q[2]] + q[3] + q[4] + q[5]
            return all(v in vs for v in flat)
        keep = [q for q in qs if ok(q)]
        if keep:
            yield dict(c2, g=h, qs=keep)


TECHNIQUE = ("Coq proof (definitional path enumerations = definitions, deciders reflect existence, search models sound, "
             "repaired discriminating_path search complete - all unbounded; incompleteness of the one-explored-set "
             "uncovered_pd_path search by a kernel-computed witness) + extracted-model correspondence: every returned path "
             "checked against the proved enumeration, found against the proved decider")
LEVEL_TEXT = ("proof, all unbounded (no _bounded_n clause): c18_updp_paths_spec / c18_disc_paths_spec (the enumerations the "
              "harness validates returned paths against are exactly updp_def / disc_def), c18_updp_valid_b_spec / "
              "c18_disc_valid_b_spec (checkers), c18_spec_updp_dec_spec / c18_spec_disc_dec_spec (deciders <-> a path "
              "exists), c18_pd_edge_words (edge test = wording of the property), c18_updp_sound / c18_disc_sound (every path "
              "returned by the search models satisfies the definition), c18_disc_complete / c18_disc_search_iff (the "
              "repaired discriminating_path search finds a path whenever one exists). updp_complete is FALSE for the "
              "breadth-first search with one global explored set: c18_updp_complete_refuted (witness by vm_compute) - "
              "recorded as known finding, the order-faithful model updp_search reproduces found=False exactly. "
              "Only by correspondence (tie K): that the implementation computes these functions - exhaustive for all "
              "MARKS(n) n<=3 with all option combinations, sampled n=4,5 with all / sampled combinations, random and "
              "planted graphs n<=8"
              " Tie (T) for the local predicate: translator/predicates.py re-translates the nested _pd_edge of uncovered_pd_path into Gen/Gen_Preds.v on every run; repo_pred_pd_edge(_words, _paths) prove by complete case analysis that on every pair state a PAG can hold (18 of 64) it equals the model's pd_edge (= the wording of the property), with and without force_circle; 256 cells are compared with the real function (through second_node= and through the search) each run (replayable).")
LEVEL_NOTE = ("the theorems are about the repaired behaviour (fixes/C18-1..6); on the unpatched tree the check reports "
              "VIOLATIONs. Two recorded deviations remain after the patches: uncovered_pd_path incompleteness (needs a "
              "(prev,node)-state search) and discriminating_path accepting a o-> c as 'a is a parent of c' (pinned test "
              "test_discriminating_path asserts it; recognised through the lenient oracle par_of g true, for which the "
              "same theorems hold). Interpretation decisions: forbid_node constrains the first node taken by the search; "
              "the given first/second edge must itself be potentially directed; second_node = c means the path [u, c]; "
              "'parent' = PAG.parents (tail at the parent). max_path_length other than None is not modelled.")


# tie (T) for the local predicates (translator/predicates.py -> Gen/Gen_Preds.v -> Tie/Preds_Cxx.v): pre_build, extra, replay of cells
import tie_preds  # noqa: E402
tie_preds.install(globals(), PROP)
