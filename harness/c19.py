"""C19 — acyclification (edge characterisation, acyclic, copy=True keeps the input) and sigma_separated vs the path definition."""
import itertools
import graphs as gr

PROP = "C19"
RULE = ("every directed mixed graph CYC(n) (any subset of the n(n-1) directed and n(n-1)/2 bidirected edges) n<=3 complete, "
        "plus 900 (quick) / 50000 (thorough) sampled n=4 (half of them with edge probability 1/4), the design's two witnesses, "
        "all pairwise-disjoint (X,Y,Z) with X<Y; seeded random n<=8 (sigma oracle up to n=6 and 14 edges), half of them "
        "built from 2-3 non-trivial strongly connected components feeding each other; graphs without a bidirected edge also "
        "with the bidirected layer absent; every small graph, a quarter of the n=4 samples and half of the random ones again as "
        "REPEAT case (object built and queried for a neighbour graph with one edge reversed/moved, edited in place, judged; the "
        "returned graph is edited and the call repeated, also on G.copy(); frozenset arguments) and a CUSTOM edge-type names stream "
        "for acyclification (beyond the property's quantifier); the empty graph; every n<=2 and a third of the n=3 graphs and a third of the random ones also as pywhy_graphs.ADMG "
        "instance / three-layer MixedEdgeGraph with an edge-less undirected layer; query sets checked for mutation; "
        "a MANY-COMPONENT stream (3-6 cyclic components of 2-3 nodes plus 2-5 trivial ones, 9-16 nodes, interleaved node ids, sparse "
        "directed and bidirected links between components, each graph under 4 (10 when the cyclic components are joined in disjoint pairs) insertion orders, sigma oracle off there) and two "
        "2-cycles plus an outside node with a bidirected edge into one of them under 6 insertion orders each; "
        "identity-hashed label objects (graphs.labeler family 'obj'); a preceding call on an unrelated graph (cross-call contamination); "
        "a DEEP stream of three chains of 75-150 two-cycles (150-300 nodes) run with the recursion limit lowered to depth+120, whose "
        "expected edges come from an independent Python reference of the characterisation (the cubic Coq model is not run there) and "
        "whose expected sigma answers are known by construction; "
        "distinct by (canonical graph, layers, repeat, names, object kind); non-trivial = the graph has a directed cycle "
        "and the queries contain a sigma-separated and a sigma-connected one")
EXHAUSTIVE = {"quick": "all CYC(n) n<=3, all disjoint X,Y,Z (n=4: 900 sampled)", "thorough": "all CYC(n) n<=3, all disjoint X,Y,Z (n=4: 50000 sampled)"}
TRUSTED = ["networkx strongly_connected_components / complete_graph and their yield order taken at face value",
           "m_separated (property C01) is what sigma_separated delegates to"]
ASSUMPTIONS = ["default edge-type names", "only directed and bidirected layers (the property's domain)", "int labels (label families: C15)",
               "no self-loops: a directed mixed graph has edges between DISTINCT nodes (Mooij & Claassen 2020, Def. of DMG; Forre & Mooij "
               "2017); wf of the formal graph excludes them and acyclification/sigma_separated are not judged on graphs with v -> v "
               "(HEAD keeps a self-loop, after which m_separated raises; recorded as outside the claimed domain)"]
LEVEL_TEXT = ("ALL clauses about the formal graph are Coq theorems for ALL directed mixed graphs (any cycles, any bidirected edges): "
              "acy_nodes_edges (the model's directed / bidirected edges are exactly the property's characterisation, with 'strongly "
              "connected component' = mutual directed reachability by definition), acy_acyclic, acy_idempotent_on_acyclic, and the sigma "
              "clause sigma_equiv: m-separation in the acyclification (path definition) <-> every simple path between X and Y is "
              "sigma-blocked by Z (path definition), UNBOUNDED, with its two directions msep_acy_implies_sigma_sep / "
              "sigma_sep_implies_msep_acy, and sigma_equiv_dec / sigma_sep_dec_reflects for the boolean oracles the harness runs. "
              "Independently of that proof the same equivalence is re-checked by kernel computation on all directed mixed graphs on "
              "<=3 nodes (sigma_equiv_bounded_3) and on all 90112 graphs on 4 nodes with any directed layer and <=2 bidirected edges "
              "(sigma_equiv_bounded_4_le2_bidirected). The code is tied to the model by correspondence.")
LEVEL_NOTE = ("The unbounded proof goes through walks: sigma-open path of G -> open walk of the acyclification -> m-connecting path "
              "(Graph/Walks.open_walk_to_path, acyclic case), and m-connecting path of the acyclification -> sigma-open walk of G -> "
              "sigma-connecting path (loop removal that needs no acyclicity, C19/SigmaConv.v). The bounded theorems quantify over the "
              "enumerated graphs (cyc_enumeration_complete: every edge set occurs up to set equality). copy=True integrity, object kinds, "
              "custom edge-type names and exception-free behaviour are observed by correspondence only; sigma_separated delegates to "
              "m_separated (property C01).")
TECHNIQUE = "Coq proof (model = characterisation and sigma clause, unbounded; plus vm_compute re-check on small graphs) + extracted-model correspondence (tie K)"
SPOT_N = 10
NAME_SETS = [["dir", "bidir"], ["bidirected", "directed"], ["->", "<->"]]


def queries(nodes, rng=None, limit=None):
    qs = []
    nodes = list(nodes)
    for rx in range(1, len(nodes)):
        for X in itertools.combinations(nodes, rx):
            rest = [v for v in nodes if v not in X]
            for ry in range(1, len(rest) + 1):
                for Y in itertools.combinations(rest, ry):
                    if X > Y:
                        continue
                    rest2 = [v for v in rest if v not in Y]
                    for Z in gr.subsets(rest2):
                        qs.append([list(X), list(Y), Z])
    if limit and len(qs) > limit:
        qs = rng.sample(qs, limit)
    return qs


def rand_queries(rng, n, k):
    qs = []
    for _ in range(k):
        vs = list(range(n))
        rng.shuffle(vs)
        a, b = rng.randint(1, 2), rng.randint(1, 2)
        c = rng.randint(0, min(3, n - a - b))
        qs.append([sorted(vs[:a]), sorted(vs[a:a + b]), sorted(vs[a + b:a + b + c])])
    return qs


def cyc_from_code(n, code):
    ords = [(a, b) for a in range(n) for b in range(n) if a != b]
    D = [[a, b] for i, (a, b) in enumerate(ords) if code >> i & 1]
    code >>= len(ords)
    B = [[a, b] for i, (a, b) in enumerate(gr.pairs(n)) if code >> i & 1]
    return gr.G(range(n), D=D, B=B)


def n_codes(n):
    return 1 << (n * (n - 1) + n * (n - 1) // 2)


def random_components_graph(rng, n):
    """2-3 non-trivial strongly connected components in a random block order, edges between blocks forward"""
    vs = list(range(n))
    rng.shuffle(vs)
    blocks, i = [], 0
    want = rng.randint(2, 3)
    while i < n:
        size = rng.randint(2, 3) if want > 0 and n - i >= 2 and rng.random() < 0.8 else 1
        size = min(size, n - i)
        if size > 1:
            want -= 1
        blocks.append(vs[i:i + size])
        i += size
    rng.shuffle(blocks)
    D = set()
    for b in blocks:
        if len(b) > 1:
            for k in range(len(b)):
                D.add((b[k], b[(k + 1) % len(b)]))
            for x in b:
                for y in b:
                    if x != y and rng.random() < 0.2:
                        D.add((x, y))
    p = rng.choice([0.15, 0.3, 0.5])
    for i in range(len(blocks)):
        for j in range(i + 1, len(blocks)):
            forced = j == i + 1 and len(blocks[i]) > 1 and len(blocks[j]) > 1
            es = [(x, y) for x in blocks[i] for y in blocks[j]]
            chosen = [e for e in es if rng.random() < p / max(1, len(es)) ** 0.5]
            if forced and not chosen:
                chosen = [rng.choice(es)]
            D.update(chosen)
    pb = rng.choice([0.0, 0.1, 0.25])
    B = [[a, b] for a, b in gr.pairs(n) if rng.random() < pb]
    return gr.G(range(n), D=sorted(D), B=B)


def many_sc_graph(rng, matched=False):
    """3-6 cyclic strongly connected components (2-3 nodes) plus 2-5 trivial ones, 9-16 nodes, in a random topological order of
    the components; sparse directed links forward, sparse bidirected links between components and from single nodes to
    components; node ids shuffled so that the components interleave"""
    while True:
        sizes = [rng.randint(2, 3) for _ in range(rng.randint(4 if matched else 3, 6))] + [1] * rng.randint(3 if matched else 2, 5)
        if 9 <= sum(sizes) <= 16:
            break
    rng.shuffle(sizes)
    ids = list(range(sum(sizes)))
    rng.shuffle(ids)
    comps, i = [], 0
    for sz in sizes:
        comps.append(ids[i:i + sz])
        i += sz
    D, B = set(), set()
    for c in comps:
        if len(c) > 1:
            for k in range(len(c)):
                D.add((c[k], c[(k + 1) % len(c)]))
            if len(c) == 3 and rng.random() < 0.3:
                D.add((c[1], c[0]))
    pd, pb = rng.choice([0.1, 0.2]), rng.choice([0.15, 0.3])
    for a in range(len(comps)):
        for b in range(a + 1, len(comps)):
            if rng.random() < pd:
                D.add((rng.choice(comps[a]), rng.choice(comps[b])))
            both_cyclic = len(comps[a]) > 1 and len(comps[b]) > 1
            if rng.random() < (pb if both_cyclic else pb / 2):
                x, y = rng.choice(comps[a]), rng.choice(comps[b])
                B.add((min(x, y), max(x, y)))
    if matched:
        # the cyclic components are joined in disjoint pairs by one bidirected edge each (several joined pairs at once)
        cyc = [c for c in comps if len(c) > 1]
        rng.shuffle(cyc)
        for a, b in zip(cyc[0::2], cyc[1::2]):
            x, y = rng.choice(a), rng.choice(b)
            B.add((min(x, y), max(x, y)))
    return gr.G(range(len(ids)), D=sorted(D), B=sorted(B))


def random_digraph(rng, n):
    p = rng.choice([0.1, 0.2, 0.3])
    D = [[a, b] for a in range(n) for b in range(n) if a != b and rng.random() < p]
    pb = rng.choice([0.0, 0.1, 0.25])
    B = [[a, b] for a, b in gr.pairs(n) if rng.random() < pb]
    return gr.G(range(n), D=D, B=B)


def variants(g):
    yield ["directed", "bidirected"]
    if not g["B"]:
        yield ["directed"]


def gen_cases(tier, rng):
    for n in range(1, 4):
        for code in range(n_codes(n)):
            g = cyc_from_code(n, code)
            qs = queries(g["V"])
            for layers in variants(g):
                yield {"kind": "cyc%d" % n, "g": g, "layers": layers, "qs": qs, "oracle": True}
            # REPEAT stream (every small graph with an edge) and CUSTOM NAMES stream (acyclification only: sigma_separated
            # has no edge-type parameters)
            if g["D"] or g["B"]:
                yield {"kind": "rep%d" % n, "g": g, "layers": ["directed", "bidirected"], "qs": qs, "oracle": True,
                       "rep": rng.randrange(1 << 30)}
                if code % 4 == 0:
                    yield {"kind": "names%d" % n, "g": g, "layers": ["directed", "bidirected"], "qs": [], "oracle": True,
                           "names": NAME_SETS[(code // 4) % len(NAME_SETS)],
                           **({"rep": rng.randrange(1 << 30)} if code % 8 == 0 else {})}
    # BOUNDARY: the empty graph;  OBJECT KINDS: ADMG instance / three-layer MixedEdgeGraph with an edge-less third layer
    for ok in ("mixed", "admg", "mixed3"):
        yield {"kind": "cyc0", "g": gr.G([]), "layers": ["directed", "bidirected"], "qs": [], "oracle": True, "okind": ok}
    for n in range(1, 4):
        for code in range(n_codes(n)):
            if n == 3 and code % 3:
                continue
            g = cyc_from_code(n, code)
            yield {"kind": "kinds%d" % n, "g": g, "layers": ["directed", "bidirected"], "qs": queries(g["V"]), "oracle": True,
                   "okind": ("admg", "mixed3")[code % 2],
                   **({"rep": rng.randrange(1 << 30)} if code % 4 == 0 and (g["D"] or g["B"]) else {})}
    # DEEP stream: chains of 2-cycles {2i,2i+1}, 2i+1 -> 2i+2, a few bidirected edges between early components and side
    # branches; run with the recursion limit lowered to depth + 120; expected edges from reference_acy (Python), expected
    # sigma answers known by construction: the exit node 2m+1 of the middle component blocks, its entry node 2m does not
    for L in (150, 220, 300):
        k = L // 2
        D = [[2 * i, 2 * i + 1] for i in range(k)] + [[2 * i + 1, 2 * i] for i in range(k)] + \
            [[2 * i + 1, 2 * i + 2] for i in range(k - 1)] + [[2 * i, L + i // 10] for i in range(0, k, 10)]
        B = [[2, 6], [1, 8]]
        g = gr.G(range(L + k // 10 + 1), D=D, B=B)
        m = k // 2
        qs = [[[0], [L - 1], []], [[0], [L - 1], [2 * m + 1]], [[0], [L - 1], [2 * m]], [[L - 1], [0], [2 * m + 1, L]]]
        yield {"kind": "deep", "g": g, "layers": ["directed", "bidirected"], "qs": qs, "expect_sigma": [0, 1, 0, 1], "deep": True,
               "oracle": False, "_reclimit": 120, "okind": ("mixed", "admg", "mixed3")[L % 3]}
    # IDENTITY-HASHED LABEL OBJECTS (graphs.labeler family "obj")
    for n in (2, 3):
        for code in range(0, n_codes(n), 5):
            g = cyc_from_code(n, code)
            yield {"kind": "obj%d" % n, "g": g, "layers": ["directed", "bidirected"], "qs": queries(g["V"]), "oracle": True,
                   "_lab": "obj", **({"rep": rng.randrange(1 << 30)} if code % 10 == 0 and (g["D"] or g["B"]) else {})}
    # MANY-COMPONENT stream (flavour Q): 9-16 nodes, each graph under several node / edge insertion orders (`_order`), sigma
    # oracle off (too slow), model = proved acyclification + m-separation model
    for i in range(90 if tier == "quick" else 600):
        g = many_sc_graph(rng, matched=i % 2 == 1)
        qs = rand_queries(rng, len(g["V"]), 12)
        for o in range(10 if i % 2 == 1 else 4):
            yield {"kind": "manysc", "g": g, "layers": ["directed", "bidirected"], "qs": qs if o == 0 else qs[:3], "oracle": False,
                   **({"_order": rng.randrange(1 << 30)} if o else {}), **({"okind": "admg"} if o == 3 else {})}
    # two 2-cycles {0,1},{2,3} and one outside node 4 with a bidirected edge into one of them (and variants), 6 insertion orders each
    for b4 in range(4):
        for link in ([], [[1, 2]], [[3, 0]], [[4, 2]], [[1, 4]]):
            for extra in ([], [[0, 3]]):
                g = gr.G(range(5), D=[[0, 1], [1, 0], [2, 3], [3, 2]] + link, B=[[b4, 4]] + extra)
                qs = queries(g["V"])[:40]
                for o in range(6):
                    yield {"kind": "two2c", "g": g, "layers": ["directed", "bidirected"], "qs": qs if o == 0 else qs[:4],
                           "oracle": o == 0, **({"_order": 1000 * b4 + o} if o else {})}
    # the design's witness and its bidirected sibling, always
    for g in (gr.G(range(4), D=[[0, 1], [1, 0], [1, 2], [2, 3], [3, 2]]),
              gr.G(range(4), D=[[0, 1], [1, 0], [2, 3], [3, 2]], B=[[1, 2]])):
        yield {"kind": "witness", "g": g, "layers": ["directed", "bidirected"], "qs": queries(g["V"]), "oracle": True}
    n4 = 900 if tier == "quick" else 50000
    for i in range(n4):
        code = rng.randrange(n_codes(4))
        if i % 2:
            code &= rng.randrange(n_codes(4))      # sparser half: every edge with probability 1/4
        g = cyc_from_code(4, code)
        c = {"kind": "cyc4s", "g": g, "layers": ["directed", "bidirected"], "qs": queries(g["V"]), "oracle": True}
        if i % 4 == 0 and (g["D"] or g["B"]):
            c.update(kind="cyc4s-rep", rep=rng.randrange(1 << 30))
        yield c
    nr = 400 if tier == "quick" else 4000
    for i in range(nr):
        n = rng.randint(4, 8)
        g = random_components_graph(rng, n) if i % 2 == 0 else random_digraph(rng, n)
        layers = ["directed"] if not g["B"] and rng.random() < 0.3 else ["directed", "bidirected"]
        c = {"kind": "comps" if i % 2 == 0 else "rand", "g": g, "layers": layers, "qs": rand_queries(rng, n, 25),
             "oracle": n <= 6 and len(g["D"]) + len(g["B"]) <= 14}
        if i % 4 in (2, 3) and (g["D"] or g["B"]):
            c.update(kind=c["kind"] + "-rep", rep=rng.randrange(1 << 30))
        elif i % 8 == 1:
            c.update(kind=c["kind"] + "-names", names=rng.choice(NAME_SETS), qs=[])
        if i % 5 == 0:
            c.update(pre=True)
        if i % 7 == 0 and "names" not in c:
            c.update(_lab="obj")
        if "names" not in c and layers == ["directed", "bidirected"] and i % 3 == 0:
            c.update(okind=("admg", "mixed3")[(i // 3) % 2])
        yield c


def encode(case):
    if case.get("deep"):
        return [2, gr.enc(case["g"]), []]
    return [0 if case["oracle"] else 1, gr.enc(case["g"]), case["qs"]]


def reference_acy(g):
    """independent Python reference of the property's edge characterisation (used for DEEP cases only, where the cubic Coq
    model is too slow): component = mutual reachability; i->j iff comp differs and i has an edge into comp(j); i<->j iff same
    component or a bidirected edge joins the components"""
    ch = {v: [] for v in g["V"]}
    for a, b in g["D"]:
        ch[a].append(b)
    reach = {}
    for v in g["V"]:
        seen, st = {v}, [v]
        while st:
            u = st.pop()
            for w in ch[u]:
                if w not in seen:
                    seen.add(w)
                    st.append(w)
        reach[v] = seen
    comp = {v: frozenset(w for w in reach[v] if v in reach[w]) for v in g["V"]}
    D = sorted({(i, j) for i, k in map(tuple, g["D"]) for j in comp[k] if comp[i] != comp[j]})
    B = set()
    for v in g["V"]:
        for w in comp[v]:
            if v < w:
                B.add((v, w))
    for a, b in g["B"]:
        for i in comp[a]:
            for j in comp[b]:
                if i != j:
                    B.add((min(i, j), max(i, j)))
    return [list(e) for e in D], [list(e) for e in sorted(B)]


def decode(case, v):
    graph, acyc, res = v
    if case.get("deep"):
        D, B = reference_acy(case["g"])
        return {"V": graph[0], "D": D, "B": B, "acyclic": acyc, "sigma": list(case["expect_sigma"])}
    out = {"V": graph[0], "D": graph[1], "B": graph[2], "acyclic": acyc, "sigma": [r[0] for r in res]}
    if case["oracle"]:
        out["msep_dec_acy"] = [r[1] for r in res]
        out["sigma_def"] = [r[2] for r in res]
    return out


def build(g, case):
    """MixedEdgeGraph for g with exactly case["layers"]; custom layer names from case["names"] = [directed, bidirected]"""
    names = case.get("names")
    okind = case.get("okind", "mixed")
    if okind == "admg":                      # a pywhy_graphs.ADMG instance (directed, bidirected and an empty undirected layer)
        M, lab, inv = gr.to_admg(g, case)
        return M, lab, inv, "directed", "bidirected"
    if okind == "mixed3":                    # three-layer MixedEdgeGraph, third layer edge-less
        M, lab, inv = gr.to_mixed(g, case, layers=("directed", "bidirected", "undirected"))
        return M, lab, inv, "directed", "bidirected"
    if not names:
        M, lab, inv = gr.to_mixed(g, case, layers=tuple(case["layers"]))
        return M, lab, inv, "directed", "bidirected"
    import networkx as nx
    import pywhy_graphs.networkx as pywhy_nx
    dn, bn = names
    lab, inv = gr.labeler(case)
    has_b = "bidirected" in case["layers"]
    M = pywhy_nx.MixedEdgeGraph(graphs=[nx.DiGraph()] + ([nx.Graph()] if has_b else []), edge_types=[dn] + ([bn] if has_b else []))
    for v in gr.ordered(case, g["V"], "V"):
        M.add_node(lab(v))
    es = [(dn, a, b) for a, b in g["D"]] + ([(bn, a, b) for a, b in g["B"]] if has_b else [])
    for k, a, b in gr.ordered(case, es, "E"):
        M.add_edge(lab(a), lab(b), k)
    return M, lab, inv, dn, bn


def extract(R, inv, dn, bn):
    out = {"V": sorted(inv(v) for v in R.nodes), "D": [], "B": [], "other": []}
    for name, lg in R.get_graphs().items():
        for a, b in lg.edges():
            a, b = inv(a), inv(b)
            if name == dn:
                out["D"].append([a, b])
            elif name == bn:
                out["B"].append(sorted([a, b]))
            else:
                out["other"].append([name, a, b])
    for k in ("D", "B", "other"):
        out[k] = sorted(out[k])
    return out


def run_impl(case):
    import random
    from pywhy_graphs.algorithms.cyclic import acyclification, sigma_separated
    g = case["g"]
    rep = case.get("rep")
    kw = {}
    if case.get("names"):
        kw = {"directed_edge_type": case["names"][0], "bidirected_edge_type": case["names"][1]}
    mkset = frozenset if rep is not None and rep % 2 else set

    def sigma(Mx):
        res = []
        for X, Y, Z in case["qs"]:
            X, Y, Z = (mkset(lab(v) for v in S) for S in (X, Y, Z))
            keep = (set(X), set(Y), set(Z))
            try:
                res.append(int(bool(sigma_separated(Mx, X, Y, Z))))
            except Exception as e:  # noqa
                res.append("exc:" + type(e).__name__)
            if (set(X), set(Y), set(Z)) != keep:
                res[-1] = "query-sets-mutated"
        return res

    if case.get("pre"):
        # CROSS-CALL CONTAMINATION: first use the API on an unrelated graph (other nodes, no bidirected layer)
        import networkx as nx
        import pywhy_graphs.networkx as pywhy_nx
        A = pywhy_nx.MixedEdgeGraph(graphs=[nx.DiGraph([("p", "q"), ("q", "p"), ("q", 0), (0, 1), (1, 0)])], edge_types=["directed"])
        acyclification(A)
        sigma_separated(A, {"p"}, {1}, {"q"})
    if rep is None:
        M, lab, inv, dn, bn = build(g, case)
    else:
        # REPEAT: the object is built and used for a neighbour graph (same node and edge counts where possible: one edge
        # reversed or moved), the answers are discarded, then it is edited in place into g
        rr = random.Random(rep)
        g0 = gr.perturb(g, rr, acyclic=False) or gr.perturb(g, rr, keep_counts=False, acyclic=False) or g
        M, lab, inv, dn, bn = build(g0, case)
        acyclification(M, **kw)
        sigma(M)
        gr.morph(M, g0, g, lab, {"D": dn, "B": bn} if "bidirected" in case["layers"] else {"D": dn})
    before = gr.snapshot(M)
    R = acyclification(M, **kw)
    out = {"mutated": gr.snapshot(M) != before, "same_object": R is M}
    out.update(extract(R, inv, dn, bn))
    out["sigma"] = sigma(M)
    out["mutated_by_sigma"] = gr.snapshot(M) != before
    if rep is not None:
        # the caller edits the returned graph; a second conversion of the same object, and of a copy, must still be right
        first = extract(R, inv, dn, bn)
        for x in list(R.nodes)[:2]:
            R.remove_node(x)
        out["second_call_same"] = extract(acyclification(M, **kw), inv, dn, bn) == first
        Mc = M.copy()
        out["copy_same"] = extract(acyclification(Mc, **kw), inv, dn, bn) == first and sigma(Mc) == out["sigma"]
        out["mutated"] = out["mutated"] or gr.snapshot(M) != before
    return out


def compare(case, impl, model):
    if model["acyclic"] != 1 or 2 in model["sigma"]:
        return "model-not-acyclic"
    if case["oracle"] and not (model["sigma"] == model["msep_dec_acy"] == model["sigma_def"]):
        return "model-vs-sigma-oracle"
    if "exc" in impl:
        return "exception"
    if impl["mutated"] or impl["same_object"] or impl["mutated_by_sigma"]:
        return "argument-mutated"
    if impl["V"] != model["V"]:
        return "nodes"
    if impl["D"] != model["D"]:
        return "directed-edges"
    if impl["B"] != model["B"]:
        return "bidirected-edges"
    if impl["other"]:
        return "other-layers"
    if impl["sigma"] != model["sigma"]:
        return "sigma_separated"
    if impl.get("second_call_same") is False:
        return "second-call-after-editing-the-result"
    if impl.get("copy_same") is False:
        return "result-on-copy"
    return None


def nontrivial(case, model):
    g = case["g"]
    return (not gr.is_acyclic(g["V"], g["D"])) and 0 in model["sigma"] and 1 in model["sigma"]


def key(case):
    return (gr.canon(case["g"]), tuple(case["layers"]), case.get("rep") is not None, tuple(case.get("names") or ()),
            case.get("okind", "mixed"), case.get("_order"))


def shrink(case):
    for i in range(len(case["qs"])):
        if len(case["qs"]) > 1:
            yield dict(case, qs=[case["qs"][i]])
    for h in gr.shrink_graph(case["g"]):
        vs = set(h["V"])
        qs = [q for q in case["qs"] if all(v in vs for part in q for v in part)]
        layers = case["layers"] if (h["B"] or "bidirected" in case["layers"]) else case["layers"]
        yield dict(case, g=h, qs=qs, layers=layers)
