"""C20 — AugmentedGraph / AugmentedPAG: F-/S-node registries agree with the graph after any history; fresh names;
a copy and its original, and separately constructed graphs, are independent.

A case is a HISTORY over a small world of live objects:
  ["new", cls, vs] ["copy", o] ["addf", o, ts] ["addfs", o, tss] ["adds", o, d1, d2, ch]
  ["rm", o, kind, pos] ["rmfrom", o, [[kind, pos]..], argkind] ["node", o, n] ["edge", o, u, v]
argkind (optional trailing string; the model never sees it, the expected behaviour is the same for every kind):
  rmfrom: list | set | tuple | frozenset | gen | filter | map | keysF | keysS (the registry's own .keys() view: removes
          every F- / S-node; the position list is then ignored);   addf / adds: list | set | frozenset | tuple | keys
          (only when the targets have no duplicates).
["addfa", o, ts, [[kind, pos]..]] = add_f_node(ts + the augmented nodes at these registry positions); ["addfall", o] =
add_f_node(set(G.nodes)).  HEAD accepts existing augmented nodes as targets and registers them as given (edge F -> target);
the model follows ("registered with exactly the targets it was created with").  Once a history removes an augmented node that
is a registered target ("removal of target nodes": outside the claim) the comparison of that history stops there.
["new", cls, vs, "nx"]: the constructor gets networkx graph objects per layer (nodes vs, no edges); every "nx" new of one
history gets the SAME objects, which must stay untouched and must not be shared by the graphs built from them.
ATTRIBUTE ops (the model ignores attributes: registries are the only source of truth, so these are no-ops / a plain add_node):
["nodeattr", o, n, key, val] = add_node(n, **{key: val}) with keys named like the library's own ("domain_ids", "S-nodes", ...);
["setattr", o, [2, n] | [kind, pos], how, key, val] edits node data of an ordinary / F- / S-node: how = "set" (G.nodes[x][key] = val),
"del" (G.nodes[x].pop(key, None)), "nxset" (nx.set_node_attributes); keys may be str, int or tuple;
["gattr", o, key, val] = G.graph[key] = val for keys other than the two registries.  val is never a str (ints, lists -> tuples, None).
LABEL-VALUE ops: ["twin", o, n, cs] adds the ordinary node n in TWINS (100.. : labels EQUAL to generated names but of another type:
('F', 0.0), ('F', True), ('S', 1.0), ('F', np.int64(0)), ('S', 0.0); 104.. : near misses that are NOT equal: ('F', '0'), ('F', 0, 0), 'F0')
and the edges n -> c for c in cs.  Equal labels are the same name: when a node of that name exists the op is skipped altogether (both
sides), otherwise the ordinary node occupies the name and a later add_f_node / add_s_node must avoid it (model: occ).
MALFORMED ops: ["bad", o, which, i] calls one mutating API with the i-th malformed argument of BAD[which] (None, a scalar where a pair /
an iterable is expected, an unhashable inside, an absent node, None as a node, ...).  Expected: it raises and the FULL observable state
of every live object is unchanged (the model runs a no-op and the expected status is "raised").
case["obs"] = "all" (default: every live object is observed after every op, so each op runs on objects whose f_nodes /
s_nodes / intervention_sets / domain_ids / children were just queried -- a cached property would go stale) or "last"
(nothing is queried before the final op: statuses are compared at every step, observables only at the end).
cls 0 = AugmentedGraph, 1 = AugmentedPAG; objects are numbered in creation order; augmented nodes are referred to
by kind (0 F, 1 S) and POSITION in the registry (insertion order) and every observable is rendered without the names
of augmented nodes: the naming policy is free, only freshness is checked.  After EVERY op EVERY live object is observed.
C20_ASIS=1 compares against the as-coded machine instead (development aid: validates Refuted.v's machine on the
unpatched tree)."""
import os
import itertools

import graphs as gr

PROP = "C20"
MODE = 1 if os.environ.get("C20_ASIS") else 0
FIELDS = ["cls", "nodes", "F-registry", "S-registry", "unregistered-aug-nodes", "edges", "domains",
          "intervention_sets", "domain_ids", "f_nodes/s_nodes/non_augmented_nodes/augmented_nodes"]
OPN = {"new": 0, "copy": 1, "addf": 2, "addfs": 3, "adds": 4, "rm": 5, "rmfrom": 6, "node": 7, "edge": 8, "addfa": 2, "addfall": 9,
       "nodeattr": 7, "setattr": 6, "gattr": 6, "twin": 10, "bad": 6}
# ordinary node id -> (kind, index) of the generated name its label is EQUAL to, or None for a near miss (labels: _twin_label)
TWINS = {100: (0, 0), 101: (0, 1), 102: (1, 1), 103: (0, 0), 107: (1, 0), 104: None, 105: None, 106: None}
BAD = {"adds_dom": 4, "adds_ch": 7, "addf": 7, "addfs": 3, "rm": 3, "rmfrom": 3, "allsn": 3}      # number of malformed variants
LIB_KEYS = ["domain_ids", "S-nodes", "F-nodes", "targets", "domain", "domains", "invariant_domains"]

RULE = ("histories over 1-3 live objects (AugmentedGraph and AugmentedPAG, also mixed), ordinary nodes 0..2 (+3 via add_node): "
        "ALL histories of length <=3 (quick) / <=4 (thorough; at length 4 at most 2 live objects) over the reduced alphabet "
        "{new, copy o, add_f_node o {0}|{1}|{0,1}, add_f_nodes_from o [{2},{0}], add_s_node o (1,2){0}|(2,3){1}, "
        "remove_node o F#0|F#1|S#0, remove_nodes_from o [F#0] as list|generator, {S#0} as set, the F-registry's own keys() view, "
        "add_node o 3, add_edge o 0->1} after a `new`, each history of length >=2 also with NO query before the last op (obs=last); then seeded random "
        "histories of length 20 (quick) / 120 (thorough) biased to remove-then-add, copy-then-mutate, second-object; plus the "
        "Refuted.v witnesses and argument-kind witnesses. Iterable arguments are passed as list/set/frozenset/tuple/dict-keys/generator/filter/map/"
        "registry key view (random stream: uniformly), same expected behaviour. After every op every live object is observed (so every op runs "
        "on objects whose properties were just queried); 1 in 4 random histories observe only at the end. distinct by (op list, obs); non-trivial = at least one "
        "augmented node was created and the history contains a removal, a copy or a second object")
EXHAUSTIVE = {"quick": "all histories of length <=3 over the reduced alphabet (both classes)",
              "thorough": "all histories of length <=4 over the reduced alphabet (both classes; length 4 with at most 2 live objects)"}
TRUSTED = ["networkx node / adjacency dict semantics and MixedEdgeGraph layer bookkeeping taken at face value",
           "registry insertion order (dict order) is used to refer to augmented nodes by position"]
ASSUMPTIONS = ["ordinary labels EQUAL to a generated name (('F', 0.0), ('F', True), ('F', np.int64(0)), ('S', 1.0)) are the same name: the "
               "twin stream checks that a new augmented node avoids them; the model therefore uses the code's own probe (start at "
               "len(registry), first index not a node), proved fresh",
               "malformed-argument stream: add_s_node / add_f_node / add_f_nodes_from / remove_node / remove_nodes_from / "
               "add_all_snode_combinations with None, scalars, unhashables, absent nodes, None as a node: must raise with every "
               "observable of every live object unchanged. Wrong-ARITY domain_ids ((1,2,3), (7,), 'ab') are accepted by HEAD without "
               "a raise (G.domain_ids then fails on unpacking for arity != 2); not modelled, not generated",
               "ordinary nodes are not named like augmented nodes (('F', i) / ('S', i))",
               "only directed edges among ordinary nodes, never reversed (u < v), so no PAG/ADMG edge guard fires",
               "set_f_node re-targeting and removal of target nodes are outside the claim (property text) and never generated",
               "add_f_node with the default domain and require_unique=True"]
LEVEL_TEXT = ("Coq proof, all clauses UNBOUNDED over histories (induction over the op list through a world invariant: per-object "
              "registry invariant + registries of distinct live objects are distinct heap cells) for the machine the property "
              "demands (deep-copied registries on copy, per-instance domains, index fresh w.r.t. the nodes present, remove_node and "
              "remove_nodes_from unregister F- and S-nodes): registry_inv, created_stable, fresh_names, fresh_names_s, "
              "objects_independent, copy_faithful, registries_not_aliased. Nothing is bounded. The machine AS CODED is refuted "
              "clause by clause (Refuted.v: kernel-evaluated witnesses of length 3-5; each_repair_necessary: each of the five "
              "deviations alone breaks a clause); the witnesses are replayed on the real classes by this harness, and the as-coded "
              "machine was compared with the unpatched classes on the whole thorough stream (C20_ASIS=1: 0 disagreements). "
              "That /repo behaves like the intended machine is established by correspondence only (exhaustive short + random "
              "long histories, every live object observed after every op).")
LEVEL_NOTE = ("heap model: only the aliasing the property is about (registry dicts, `domains`) is by reference; node/edge "
              "attribute dicts are by value. Augmented nodes compared up to renaming.")
TECHNIQUE = "Coq proof (inductive invariant + refinement to a by-value abstract state, unbounded) + extracted-model correspondence"
SPOT_N = 12
IMPL_TIMEOUT = 60


# ------------------------------------------------------------------ generation
def alphabet_aug(nobj, maxobj, cls, nx=False):
    """reduced alphabet around augmented nodes as intervention targets"""
    ops = []
    if nobj < maxobj:
        for o in range(nobj):
            ops.append(["copy", o])
    for o in range(nobj):
        ops += [["addf", o, [0]], ["adds", o, 1, 2, [0]], ["addfa", o, [1], [[0, 0]]], ["addfa", o, [], [[0, 0], [1, 0]]],
                ["addfall", o], ["rm", o, 0, 0], ["rm", o, 0, 1], ["rm", o, 1, 0]]
    return ops


def alphabet_attr(nobj, maxobj, cls, nx=False):
    """reduced alphabet around node / graph attributes named like the library's own, and copies (of copies)"""
    ops = []
    if nobj < maxobj:
        for o in range(nobj):
            ops.append(["copy", o])
    for o in range(nobj):
        ops += [["adds", o, 1, 2, [0]], ["addf", o, [0]], ["rm", o, 1, 0],
                ["nodeattr", o, 3, "domain_ids", [3, 4]], ["setattr", o, [2, 0], "set", "domain_ids", [5, 6]],
                ["setattr", o, [1, 0], "del", "domain_ids", None], ["setattr", o, [1, 0], "nxset", "domain_ids", [7, 8]],
                ["setattr", o, [0, 0], "set", "domain_ids", [1, 2]], ["gattr", o, "domain_ids", [9, 9]]]
    return ops


def alphabet_twin(nobj, maxobj, cls, nx=False):
    """reduced alphabet around ordinary nodes whose labels equal (or nearly equal) generated names"""
    ops = []
    if nobj < maxobj:
        for o in range(nobj):
            ops.append(["copy", o])
    for o in range(nobj):
        ops += [["addf", o, [0]], ["addf", o, [1]], ["adds", o, 1, 2, [0]], ["adds", o, 2, 3, []], ["rm", o, 0, 0], ["rm", o, 1, 0],
                ["twin", o, 100, [1]], ["twin", o, 101, []], ["twin", o, 102, [0]], ["twin", o, 103, []], ["twin", o, 107, [2]],
                ["twin", o, 104, [1]], ["twin", o, 105, []], ["twin", o, 106, []]]
    return ops


def bad_histories(cls):
    base = [["addf", 0, [0]], ["adds", 0, 1, 2, [1]], ["addf", 0, [1]]]
    prefixes = [[]] + [[a] for a in base] + [[a, b] for a in base for b in base if a != b]
    for pre in prefixes:
        for which, n in BAD.items():
            for i in range(n):
                yield [["new", cls, [0, 1, 2]]] + pre + [["bad", 0, which, i], ["copy", 0], ["addf", 1, [2]], ["adds", 0, 3, 4, [2]]]


def alphabet(nobj, maxobj, cls, nx=False):
    ops = []
    if nobj < maxobj:
        ops.append(["new", cls, [0, 1, 2]] + (["nx"] if nx else []))
        for o in range(nobj):
            ops.append(["copy", o])
    for o in range(nobj):
        ops += [["addf", o, [0]], ["addf", o, [1]], ["addf", o, [0, 1]], ["addfs", o, [[2], [0]]],
                ["adds", o, 1, 2, [0]], ["adds", o, 2, 3, [1]],
                ["rm", o, 0, 0], ["rm", o, 0, 1], ["rm", o, 1, 0],
                ["rmfrom", o, [[0, 0]], "list"], ["rmfrom", o, [[1, 0]], "set"],
                ["rmfrom", o, [[0, 0]], "gen"], ["rmfrom", o, [], "keysF"],
                ["node", o, 3], ["edge", o, 0, 1]]
    return ops


def histories(length, cls, maxobj=3, nx=False, alpha=None):
    alpha = alpha or alphabet

    def rec(prefix, nobj, left):
        if left == 0:
            yield prefix
            return
        for op in alpha(nobj, maxobj, cls, nx):
            yield from rec(prefix + [op], nobj + (1 if op[0] in ("new", "copy") else 0), left - 1)
    yield from rec([["new", cls, [0, 1, 2]] + (["nx"] if nx else [])], 1, length)


WITNESSES = [  # Refuted.v: h_reuse+add, h_copy+add, h_two+add_s, h_snode, h_rmfrom (positions instead of names), then variants
    [["new", 0, [0, 1, 2]], ["addf", 0, [0]], ["addf", 0, [1]], ["rm", 0, 0, 0], ["addf", 0, [2]]],
    [["new", 0, [0, 1, 2]], ["addf", 0, [0]], ["copy", 0], ["addf", 1, [1]]],
    [["new", 0, [0, 1, 2]], ["new", 1, [0, 1, 2]], ["adds", 0, 1, 2, [0]]],
    [["new", 0, [0, 1, 2]], ["adds", 0, 1, 2, [0]], ["rm", 0, 1, 0]],
    [["new", 0, [0, 1, 2]], ["addf", 0, [0]], ["rmfrom", 0, [[0, 0]]]],
    [["new", 1, [0, 1, 2]], ["addf", 0, [0]], ["addf", 0, [1]], ["rm", 0, 0, 0], ["addf", 0, [2]]],
    [["new", 1, [0, 1, 2]], ["adds", 0, 1, 2, [0]], ["copy", 0], ["rm", 1, 1, 0]],
    [["new", 1, [0, 1, 2]], ["adds", 0, 1, 2, [0]], ["adds", 0, 2, 3, [1]], ["rm", 0, 1, 0], ["adds", 0, 3, 4, [2]]],
    [["new", 1, [0, 1, 2]], ["addf", 0, [0]], ["rmfrom", 0, [[0, 0]]]],
    # argument kinds of remove_nodes_from: one-shot iterables and the registry's own key view
    [["new", 0, [0, 1, 2]], ["addf", 0, [0]], ["adds", 0, 1, 2, [1]], ["rmfrom", 0, [[0, 0], [1, 0]], "gen"]],
    [["new", 1, [0, 1, 2]], ["addf", 0, [0]], ["addf", 0, [1]], ["rmfrom", 0, [], "keysF"]],
    [["new", 0, [0, 1, 2]], ["adds", 0, 1, 2, [0]], ["adds", 0, 2, 3, [1]], ["rmfrom", 0, [], "keysS"]],
    [["new", 1, [0, 1, 2]], ["addf", 0, [0]], ["addf", 0, [1]], ["rmfrom", 0, [[0, 1]], "filter"], ["addf", 0, [1]]],
    [["new", 0, [0, 1, 2]], ["addf", 0, [0]], ["copy", 0], ["rmfrom", 1, [[0, 0]], "map"], ["addf", 1, [0]]],
]
WITNESSES += [
    # two graphs built from the same networkx objects must not share a layer
    [["new", 0, [0, 1, 2], "nx"], ["new", 0, [0, 1, 2], "nx"], ["addf", 0, [0]], ["addf", 1, [2]]],
    [["new", 1, [0, 1, 2], "nx"], ["new", 0, [0, 1, 2], "nx"], ["adds", 1, 1, 2, [1]], ["addf", 0, [1]]],
    # augmented nodes as intervention targets are registered as given
    [["new", 0, [0, 1, 2]], ["addf", 0, [0]], ["adds", 0, 1, 2, [1]], ["addfa", 0, [1], [[0, 0], [1, 0]]], ["addfall", 0]],
    [["new", 1, [0, 1, 2]], ["addf", 0, [0]], ["addfall", 0], ["copy", 0], ["addfa", 1, [], [[0, 1]]]],
]
RM_KINDS = ["list", "set", "tuple", "frozenset", "gen", "filter", "map", "keysF", "keysS"]
ADD_KINDS = ["list", "set", "frozenset", "tuple", "keys"]


def random_history(rng, length):
    nxmode = rng.random() < 0.3
    nobj = 0
    ops = []
    nreg = []  # rough count of registered nodes per object (to aim removals at existing positions)
    while len(ops) < length:
        if nobj == 0 or (nobj < 3 and rng.random() < 0.08):
            if nobj and rng.random() < 0.6:
                o = rng.randrange(nobj)
                ops.append(["copy", o])
                nreg.append(list(nreg[o]))
            else:
                ops.append(["new", rng.randint(0, 1), [0, 1, 2]] + (["nx"] if nxmode else []))
                nreg.append([0, 0])
            nobj += 1
            continue
        o = rng.randrange(nobj)
        r = rng.random()
        nodes = list(range(5))
        if r < 0.05:
            if rng.random() < 0.2:
                ops.append(["addfall", o])
            else:
                ats = [[k, rng.randrange(nreg[o][k] + 1)] for k in (0, 1) if rng.random() < 0.6]
                ops.append(["addfa", o, rng.sample(nodes[:3], rng.choice([0, 1, 2])), ats])
            nreg[o][0] += 1
        elif r < 0.30:
            ts = rng.sample(nodes[:4], rng.choice([0, 1, 1, 1, 2, 2, 3]))
            if rng.random() < 0.04 and ts:
                ts = ts + [ts[0]]
            ops.append(["addf", o, ts] + ([rng.choice(ADD_KINDS)] if len(set(ts)) == len(ts) else []))
            nreg[o][0] += 1
        elif r < 0.36:
            tss = [rng.sample(nodes[:4], rng.choice([1, 2])) for _ in range(rng.choice([1, 2, 3]))]
            ops.append(["addfs", o, tss])
            nreg[o][0] += len(tss)
        elif r < 0.52:
            d1 = rng.randint(1, 4)
            ops.append(["adds", o, d1, d1 + rng.randint(1, 2), rng.sample(nodes, rng.choice([0, 1, 1, 2])), rng.choice(ADD_KINDS)])
            nreg[o][1] += 1
        elif r < 0.78:
            k = 0 if rng.random() < 0.6 else 1
            pos = rng.randrange(nreg[o][k] + 1) if rng.random() < 0.9 else rng.randrange(6)
            ops.append(["rm", o, k, min(pos, 7)])
            nreg[o][k] = max(0, nreg[o][k] - 1)
        elif r < 0.86:
            items = []
            for _ in range(rng.choice([1, 1, 2, 3])):
                k = rng.randint(0, 1)
                items.append([k, rng.randrange(nreg[o][k] + 1)])
            items = [list(x) for x in sorted(set(map(tuple, items)))]
            ak = rng.choice(RM_KINDS)
            if ak in ("keysF", "keysS"):
                if rng.random() < 0.5:          # whole-registry removal is drastic: keep it at half its share
                    ak = "gen"
                else:
                    items = []
                    nreg[o][0 if ak == "keysF" else 1] = 0
            ops.append(["rmfrom", o, items, ak])
            for k, _ in items:
                nreg[o][k] = max(0, nreg[o][k] - 1)
        elif r < 0.865:
            if rng.random() < 0.5:
                which = rng.choice(sorted(BAD))
                ops.append(["bad", o, which, rng.randrange(BAD[which])])
            else:
                n = rng.choice(sorted(TWINS))
                ops.append(["twin", o, n, rng.sample([0, 1, 2], rng.choice([0, 0, 1]))])
        elif r < 0.885:
            key = rng.choice(LIB_KEYS + ["domain_ids", "domain_ids", 5, ["a", 1]])
            val = rng.choice([[1, 2], [3, 4], None, 7, []])
            q = rng.random()
            if q < 0.3 and isinstance(key, str):
                ops.append(["nodeattr", o, rng.randrange(5), key, val])
            elif q < 0.85:
                tgt = [2, rng.randrange(5)] if rng.random() < 0.4 else [rng.randint(0, 1), rng.randrange(3)]
                ops.append(["setattr", o, tgt, rng.choice(["set", "set", "del", "nxset"]), key, val])
            else:
                ops.append(["gattr", o, rng.choice(["domain_ids", "domains", "n_domains", "S-node", 3, ["F", 0]]), val])
        elif r < 0.92:
            ops.append(["node", o, rng.randrange(5)])
        else:
            u, v = sorted(rng.sample(nodes, 2))
            ops.append(["edge", o, u, v])
    return ops


def gen_cases(tier, rng):
    for h in WITNESSES:
        yield {"kind": "refuted-witness", "ops": h}
    for cls in (0, 1):
        for n in range(0, 4):
            for h in histories(n, cls):
                yield {"kind": "exh%d" % n, "ops": h}
                if n >= 2:
                    yield {"kind": "exh%d-last" % n, "ops": h, "obs": "last"}
    for cls in (0, 1):
        for n in range(1, 4):
            for h in histories(n, cls, nx=True):
                if sum(1 for op in h if op[0] == "new") > 1:      # sharing needs two graphs from the same objects
                    yield {"kind": "exh%d-nx" % n, "ops": h}
        for n in range(1, 4 if tier == "quick" else 5):
            for h in histories(n, cls, maxobj=2, alpha=alphabet_aug):
                if any(op[0] in ("addfa", "addfall") for op in h):
                    yield {"kind": "exh%d-augtargets" % n, "ops": h}
        for n in range(2, 4 if tier == "quick" else 5):
            for h in histories(n, cls, maxobj=3, alpha=alphabet_attr):
                if any(op[0] in ("nodeattr", "setattr", "gattr") for op in h) and any(op[0] == "copy" for op in h):
                    yield {"kind": "exh%d-attrs" % n, "ops": h}
        for n in range(2, 4 if tier == "quick" else 5):
            for h in histories(n, cls, maxobj=2, alpha=alphabet_twin):
                if any(op[0] == "twin" for op in h) and any(op[0] in ("addf", "adds") for op in h):
                    yield {"kind": "exh%d-twins" % n, "ops": h}
        for h in bad_histories(cls):
            yield {"kind": "malformed", "ops": h}
    if tier != "quick":
        for cls in (0, 1):
            for h in histories(4, cls, maxobj=2):
                yield {"kind": "exh4", "ops": h}
    nr, ln = (400, 20) if tier == "quick" else (2500, 120)
    for i in range(nr):
        h = random_history(rng, ln)
        if i % 4 == 3:
            yield {"kind": "rand-last", "ops": h, "obs": "last"}
        else:
            yield {"kind": "rand", "ops": h}


# ------------------------------------------------------------------ wire format
def _argkind(op):
    return op[-1] if isinstance(op[-1], str) else "list"


def enc_op(op, nops):
    t = OPN[op[0]]
    if op[0] == "nodeattr" or (op[0] == "setattr" and op[2][0] == 2):
        return [7, op[1], op[2] if op[0] == "nodeattr" else op[2][1]]      # model: plain add_node (no-op when present)
    if op[0] == "twin":
        tw = TWINS[op[2]]
        return [10, op[1], op[2], tw[0], tw[1], op[3]] if tw else [3 + 5, op[1], op[2], op[3][0]] if op[3] else [7, op[1], op[2]]
    if op[0] in ("setattr", "gattr", "bad"):
        return [6, op[1], []]                                              # model: no-op (remove_nodes_from([]))
    body = list(op[1:-1]) if isinstance(op[-1], str) else list(op[1:])
    if op[0] == "rmfrom" and _argkind(op) in ("keysF", "keysS"):   # every position the registry can have
        k = 0 if _argkind(op) == "keysF" else 1
        body[1] = [[k, i] for i in range(3 * nops + 3)]
    return [t] + body


def encode(case):
    n = len(case["ops"])
    return [case.get("mode", MODE), [enc_op(op, n) for op in case["ops"]]]


def _derived(obj):
    """cls, nodes, F, S, stray, edges, domains  ->  + intervention_sets, domain_ids, [nF, nS]"""
    F, S = obj[2], obj[3]
    isets = sorted({(tuple(e[1]), tuple(tuple(p) for p in e[4])) for e in F})
    dids = sorted({d for e in S for d in (e[1], e[2])})
    return list(obj) + [[[list(t[0]), [list(p) for p in t[1]]] for t in isets], dids, [len(F), len(S), 1, 1]]


def decode(case, v):
    out = [[step[0], [_derived(o) for o in step[1]], 0] for step in v]
    for i, op in enumerate(case["ops"]):
        if op[0] == "bad" and i < len(out) and out[i][0] == 0:
            out[i][0] = 1            # expected: raised, nothing changed
    return out


# ------------------------------------------------------------------ implementation side
def _render(G, inv):
    def is_ord(n):
        try:
            inv(n)
            return True
        except (KeyError, TypeError):
            return False
    nodes = list(G.nodes)
    ordn = sorted(inv(n) for n in nodes if is_ord(n))
    augn = [n for n in nodes if not is_ord(n)]
    freg, sreg = G.graph["F-nodes"], G.graph["S-nodes"]

    fkeys, skeys = list(freg), list(sreg)

    def raug(a):     # name-free: (kind, position in the registry), (2, 0) when not registered
        if a in freg:
            return (0, fkeys.index(a))
        if a in sreg:
            return (1, skeys.index(a))
        return (2, 0)

    def split(ns):
        ns = list(ns)
        return (sorted(inv(c) for c in ns if is_ord(c)), [list(p) for p in sorted({raug(c) for c in ns if not is_ord(c)})])

    def kids(a):
        return split(G.children(a)) if a in G.nodes else ([], [])
    F = [[int(f in G.nodes), split(e["targets"])[0], sorted(e["domain"]), kids(f)[0], split(e["targets"])[1], kids(f)[1]]
         for f, e in list(freg.items())]
    S = [[int(s in G.nodes), d[0], d[1], kids(s)[0]] for s, d in list(sreg.items())]
    stray = [sum(1 for n in augn if n[0] == "F" and n not in freg), sum(1 for n in augn if n[0] != "F" and n not in sreg)]
    edges = sorted([inv(u), inv(v)] for u, v in G.edges()[G.directed_edge_name] if is_ord(u) and is_ord(v))
    isets = sorted({(tuple(split(s)[0]), tuple(tuple(p) for p in split(s)[1])) for s in G.intervention_sets})
    return [0 if type(G).__name__ == "AugmentedGraph" else 1, ordn, F, S, stray, edges, sorted(G.domains),
            [[list(t[0]), [list(p) for p in t[1]]] for t in isets], sorted(G.domain_ids),
            [len(G.f_nodes) if G.f_nodes == list(freg) else -1, len(G.s_nodes) if G.s_nodes == list(sreg) else -1,
             int(set(G.non_augmented_nodes) == {n for n in nodes if is_ord(n)}),
             int(list(G.augmented_nodes) == list(freg) + list(sreg))]]


def run_impl(case):
    import networkx as nx
    from pywhy_graphs.classes import augmented as am
    for c in (am.AugmentedNodeMixin, am.AugmentedGraph, am.AugmentedPAG):   # class-level state survives between cases
        d = c.__dict__.get("domains")
        if isinstance(d, set):
            d.clear()
    lab0, _ = gr.labeler(case)
    table = {}

    def lab(v):
        x = lab0(v)
        table[x] = v
        return x

    def inv(x):      # KeyError for anything that is not an ordinary label (identity labels included)
        return table[x]
    objs, trace = [], []
    twins = []       # per object: twin label -> ordinary id (equal labels are per-object: another object may have the real ('F', 0))

    def inv_for(i):
        tw = twins[i]

        def inv_i(x):
            try:
                if x in tw:
                    return tw[x]
            except TypeError:
                pass
            return table[x]
        return inv_i

    def aug_count(G):
        inv_i = inv_for(objs.index(G))
        return len(G.nodes) - sum(1 for n in G.nodes if _is_ord(inv_i, n))

    def as_kind(items, kind, G=None):
        items = list(items)
        if kind == "set":
            return set(items)
        if kind == "frozenset":
            return frozenset(items)
        if kind == "tuple":
            return tuple(items)
        if kind == "keys":
            return dict.fromkeys(items).keys()
        if kind == "gen":
            return (x for x in items)
        if kind == "filter":
            return filter(lambda x: True, items)
        if kind == "map":
            return map(lambda x: x, items)
        if kind == "keysF":
            return G.graph["F-nodes"].keys()
        if kind == "keysS":
            return G.graph["S-nodes"].keys()
        return items

    sources = {}

    def nx_sources(vs):
        k = tuple(vs)
        if k not in sources:
            gs = []
            for c in (nx.DiGraph, nx.Graph, nx.Graph, nx.DiGraph):
                g0 = c()
                g0.add_nodes_from([lab(v) for v in vs])
                gs.append(g0)
            sources[k] = (gs, [(sorted(map(repr, g0.nodes)), sorted(map(repr, g0.edges))) for g0 in gs])
        return sources[k][0]

    def sources_touched():
        return any([(sorted(map(repr, g0.nodes)), sorted(map(repr, g0.edges))) for g0 in gs] != snap
                   for gs, snap in sources.values())

    last_only = case.get("obs") == "last"
    nops = len(case["ops"])
    for step_i, op in enumerate(case["ops"]):
        st, reused = 0, 0
        t = op[0]
        ak = _argkind(op)
        quiet = last_only and step_i < nops - 1
        try:
            if t == "new":
                if ak == "nx":
                    d, b, u, c = nx_sources(op[2])
                    kw = dict(incoming_directed_edges=d, incoming_bidirected_edges=b, incoming_undirected_edges=u)
                    if op[1] == 1:
                        kw["incoming_circle_edges"] = c
                    G = (am.AugmentedGraph, am.AugmentedPAG)[op[1]](**kw)
                else:
                    G = (am.AugmentedGraph, am.AugmentedPAG)[op[1]]()
                    G.add_nodes_from([lab(v) for v in op[2]])
                objs.append(G)
                twins.append({})
            elif op[1] >= len(objs):
                st = 3
            else:
                G = objs[op[1]]
                if t == "copy":
                    objs.append(G.copy())
                    twins.append(dict(twins[op[1]]))
                elif t == "twin":
                    x = _twin_label(op[2])
                    if TWINS[op[2]] is None:
                        table[x] = op[2]
                    if TWINS[op[2]] is None or x not in G.nodes:       # equal labels: a node of that name exists -> skipped
                        if TWINS[op[2]] is not None:
                            twins[op[1]][x] = op[2]
                        G.add_node(x)
                        for c in op[3]:
                            G.add_edge(x, lab(c), G.directed_edge_name)
                elif t == "bad":
                    try:
                        _call_bad(G, op[2], op[3], lab)
                    except (RuntimeError, TypeError, ValueError, nx.NetworkXError):
                        st = 1
                elif t in ("addf", "addfs", "adds", "addfa", "addfall"):
                    before = 0 if last_only else aug_count(G)
                    want = 1
                    if t == "addf":
                        G.add_f_node(as_kind([lab(v) for v in op[2]], ak))
                    elif t == "addfa":
                        names = []
                        for k, pos in op[3]:
                            keys = list(G.graph["F-nodes" if k == 0 else "S-nodes"])
                            if pos < len(keys):
                                names.append(keys[pos])
                        G.add_f_node([lab(v) for v in op[2]] + names)
                    elif t == "addfall":
                        G.add_f_node(set(G.nodes))
                    elif t == "addfs":
                        want = len(op[2])
                        G.add_f_nodes_from([[lab(v) for v in ts] for ts in op[2]])
                    else:
                        G.add_s_node((op[2], op[3]), as_kind([lab(v) for v in op[4]], ak))
                    if not last_only and aug_count(G) - before != want:
                        reused = 1
                elif t == "rm":
                    keys = list(G.graph["F-nodes" if op[2] == 0 else "S-nodes"])
                    if op[3] < len(keys):
                        G.remove_node(keys[op[3]])
                    else:
                        st = 3
                elif t == "rmfrom":
                    names = []
                    for k, pos in op[2]:
                        keys = list(G.graph["F-nodes" if k == 0 else "S-nodes"])
                        if pos < len(keys):
                            names.append(keys[pos])
                    G.remove_nodes_from(as_kind(names, ak, G))
                elif t == "node":
                    G.add_node(lab(op[2]))
                elif t == "nodeattr":
                    G.add_node(lab(op[2]), **{op[3]: _val(op[4])})
                elif t == "gattr":
                    G.graph[_val(op[2])] = _val(op[3])
                elif t == "setattr":
                    if op[2][0] == 2:
                        x = lab(op[2][1])
                        if x not in G.nodes:
                            G.add_node(x)
                    else:
                        keys = list(G.graph["F-nodes" if op[2][0] == 0 else "S-nodes"])
                        x = keys[op[2][1]] if op[2][1] < len(keys) and keys[op[2][1]] in G.nodes else None
                    if x is not None:
                        key, val = _val(op[4]), _val(op[5])
                        if op[3] == "set":
                            G.nodes[x][key] = val
                        elif op[3] == "del":
                            G.nodes[x].pop(key, None)
                        else:
                            nx.set_node_attributes(G, {x: val}, key)
                elif t == "edge":
                    G.add_edge(lab(op[2]), lab(op[3]), G.directed_edge_name)
        except RuntimeError:
            st = 1
        except nx.NetworkXError:
            st = 2
        if sources and sources_touched():
            reused = 2
        trace.append([st, None if quiet else [_render(G, inv_for(i)) for i, G in enumerate(objs)], reused])
    return trace


def _twin_label(n):
    import numpy as np
    return {100: ("F", 0.0), 101: ("F", True), 102: ("S", 1.0), 103: ("F", np.int64(0)), 107: ("S", 0.0),
            104: ("F", "0"), 105: ("F", 0, 0), 106: "F0"}[n]


def _call_bad(G, which, i, lab):
    from pywhy_graphs.algorithms.multidomain import add_all_snode_combinations
    a, b = lab(0), lab(1)
    if which == "adds_dom":
        G.add_s_node([3, None, ([1], 2), (5, [1])][i], [a])
    elif which == "adds_ch":
        G.add_s_node((5, 6), [None, 0, [[0]], [a, [1]], "ab", [None], [a, None]][i])
    elif which == "addf":
        G.add_f_node([None, 1, [[1]], [a, [2]], [lab(99)], [None], "ab"][i])
    elif which == "addfs":
        G.add_f_nodes_from([[None, [b]], None, [[lab(99)], [b]]][i])
    elif which == "rm":
        G.remove_node([None, [1], lab(99)][i])
    elif which == "rmfrom":
        keys = list(G.graph["F-nodes"]) + list(G.graph["S-nodes"])
        G.remove_nodes_from([None, [[1]], keys[:1] + [[1]]][i])
    elif which == "allsn":
        add_all_snode_combinations(G, [None, "2", 2.5][i])


def _val(v):
    return tuple(_val(x) for x in v) if isinstance(v, list) else v


def _is_ord(inv, n):
    try:
        inv(n)
        return True
    except (KeyError, TypeError):
        return False


# ------------------------------------------------------------------ comparison
def compare(case, impl, model):
    """first differing step -> name of the observable class:
       fresh-name                an add op succeeded without creating the expected number of new nodes
       independence:domains      `domains` of an object that was not operated on (or of a newly constructed one) differs
       independence:registries   any other observable of an object that was not operated on differs
       copy-faithful:<field>     the new copy differs from what the original was
       registry:<field>@<op>     the object operated on differs
       final-state:<field>       obs=last histories (only the final state is observed)"""
    if isinstance(impl, dict):
        return "exception:" + impl.get("exc", "?")
    ops = case["ops"]
    asis = case.get("mode", MODE)
    for i, (a, b) in enumerate(zip(impl, model)):
        name = ops[i][0]
        if any([2, 0] in e[4] for o in b[1] for e in o[2]):
            return None       # a registered target node has been removed: outside the claim from here on
        if a[2] == 2:
            return "constructor-argument-mutated"
        if a[2] and not asis:
            return "fresh-name"
        if a[0] != b[0]:
            return "status@" + name
        if a[1] is None or a[1] == b[1]:
            continue
        if len(a[1]) != len(b[1]):
            return "objects@" + name
        tgt = None if name in ("new", "copy") else ops[i][1]
        for o, (x, y) in enumerate(zip(a[1], b[1])):
            if x == y:
                continue
            field = next((f for f, (p, q) in zip(FIELDS, zip(x, y)) if p != q), "?")
            if case.get("obs") == "last":
                return "final-state:" + field
            if o == tgt:
                return "registry:%s@%s" % (field, name)
            if name == "copy" and o == len(a[1]) - 1:
                return "copy-faithful:" + field
            return "independence:domains" if field == "domains" else "independence:registries"
    return None


def classify(case, impl, model):
    # no recorded known findings: the key is the observable class, so that shrinking keeps the same kind of failure
    return compare(case, impl, model)


def nontrivial(case, model):
    if isinstance(model, dict) or not model:
        return False
    created = any(o[2] or o[3] for step in model for o in step[1])
    return created and (any(op[0] in ("rm", "rmfrom", "copy") for op in case["ops"])
                        or sum(1 for op in case["ops"] if op[0] == "new") > 1)


def key(case):
    import json
    return json.dumps([case["ops"], case.get("obs", "all")])


def _drop(ops, i):
    """remove op i; if it created an object, remove every op on it (and on its copies) and renumber"""
    op = ops[i]
    if op[0] not in ("new", "copy"):
        return ops[:i] + ops[i + 1:]
    dead = set()
    out = []
    nid = 0
    ren = {}
    for j, q in enumerate(ops):
        if q[0] in ("new", "copy"):
            me = nid
            nid += 1
            if j == i or (q[0] == "copy" and q[1] in dead):
                dead.add(me)
                continue
            ren[me] = len(ren)
            out.append(q if q[0] == "new" else ["copy", ren[q[1]]])
        elif q[1] in dead:
            continue
        elif q[1] in ren:
            out.append([q[0], ren[q[1]]] + list(q[2:]))
        else:
            out.append(q)
    return out


def shrink(case):
    ops = case["ops"]
    n = len(ops)
    for i in range(n - 1, -1, -1):     # cut the tail, then single ops
        if i < n - 1:
            yield dict(case, ops=ops[:i + 1])
    for i in range(n - 1, -1, -1):
        cand = _drop(ops, i)
        if cand and cand[0][0] == "new":
            yield dict(case, ops=cand)
    for i, op in enumerate(ops):
        if op[0] == "addf" and len(op[2]) > 1:
            yield dict(case, ops=ops[:i] + [["addf", op[1], op[2][:1]] + op[3:]] + ops[i + 1:])
        if op[0] == "addfa" and op[3]:
            yield dict(case, ops=ops[:i] + [["addfa", op[1], op[2], op[3][:-1]]] + ops[i + 1:])
        if op[0] == "addfa" and not op[3]:
            yield dict(case, ops=ops[:i] + [["addf", op[1], op[2]]] + ops[i + 1:])
        if op[0] == "addfa" and op[2]:
            yield dict(case, ops=ops[:i] + [["addfa", op[1], op[2][:-1], op[3]]] + ops[i + 1:])
        if op[0] == "addfs" and len(op[2]) > 1:
            yield dict(case, ops=ops[:i] + [["addfs", op[1], op[2][:-1]]] + ops[i + 1:])
        if op[0] == "addfs" and len(op[2]) == 1:
            yield dict(case, ops=ops[:i] + [["addf", op[1], op[2][0]]] + ops[i + 1:])
        if op[0] == "adds" and op[4]:
            yield dict(case, ops=ops[:i] + [["adds", op[1], op[2], op[3], op[4][:-1]] + op[5:]] + ops[i + 1:])
        if op[0] == "rmfrom" and len(op[2]) > 1:
            yield dict(case, ops=ops[:i] + [["rmfrom", op[1], op[2][:-1]] + op[3:]] + ops[i + 1:])
        if isinstance(op[-1], str) and op[-1] not in ("list", "keysF", "keysS"):
            yield dict(case, ops=ops[:i] + [op[:-1] + ["list"]] + ops[i + 1:])
        if case.get("obs") == "last":
            yield dict(case, obs="all")
        if op[0] == "new" and op[1] == 1:
            yield dict(case, ops=ops[:i] + [["new", 0] + op[2:]] + ops[i + 1:])
