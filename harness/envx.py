"""environment instrumentation shared by all property modules (used by framework._impl_worker and graphs.labeler):
 * source-literal labels ("lits" family): every short string constant of the library's source is a candidate node label; constants
   that are NOT in the committed baseline (harness/lits_baseline.json, harvested from the tree the checks were developed on) come
   first, so a sentinel string that a change introduces ("__source__", "U0", ...) is used as a real node label on the next run;
 * result retention + poisoning ("alias" dimension): every module-level function of pywhy_graphs is wrapped; the objects returned
   by TOP-LEVEL calls during run_impl(case) are kept, then edited the way a caller may edit what it was given (add an element to
   a returned set / list / dict, a node and an edge to a returned graph) and run_impl(case) is run a second time in the same
   process: a result object that is shared between calls (module-level default, `create_using=nx.DiGraph()`, a cached constant)
   now carries the edit into the second run, whose output is what is compared with the model;
 * warnings as errors ("werr" dimension): UserWarning / RuntimeWarning / FutureWarning raised by the call become exceptions, as under
   `python -W error` or pytest's `filterwarnings = error`.
Nothing here touches /repo: the wrapping is done in the worker process on the imported modules."""
import ast
import functools
import json
import os
import sys
import types

_HERE = os.path.dirname(os.path.abspath(__file__))
POISON = "__poison__"
POISON2 = "__poison2__"
_depth = [0]
_retained = None
_earlier = []      # mutable results of the first run (alias dimension): a later call must not hand out the same object again
shared = []        # names of functions caught doing so
_installed = set()


def harvest_literals(repo):
    out = set()
    root = os.path.join(repo, "pywhy_graphs")
    for dp, dn, fn in os.walk(root):
        if "tests" in dp.split(os.sep):
            continue
        for f in fn:
            if not f.endswith(".py"):
                continue
            try:
                tree = ast.parse(open(os.path.join(dp, f), encoding="utf-8").read())
            except Exception:
                continue
            doc = set()
            for node in ast.walk(tree):
                if isinstance(node, ast.Expr) and isinstance(node.value, ast.Constant) and isinstance(node.value.value, str):
                    doc.add(id(node.value))
            for node in ast.walk(tree):
                if isinstance(node, ast.Constant) and isinstance(node.value, str) and id(node) not in doc:
                    s = node.value
                    if 1 <= len(s) <= 24 and "\n" not in s:
                        out.add(s)
    return sorted(out)


_LITS = None


def literal_labels():
    """(new, pool): literals absent from the committed baseline first, then the whole (sorted) pool"""
    global _LITS
    if _LITS is None:
        repo = os.environ.get("VERIF_REPO", "/repo")
        cur = harvest_literals(repo)
        try:
            base = set(json.load(open(os.path.join(_HERE, "lits_baseline.json"))))
        except Exception:
            base = set(cur)
        new = [s for s in cur if s not in base]
        _LITS = (new, [s for s in cur if s in base] or ["a", "b", "c", "d", "e", "f", "g", "h"])
    return _LITS


def install():
    """wrap every module-level function of the imported pywhy_graphs modules (idempotent; newly imported modules are picked up)"""
    for name, mod in list(sys.modules.items()):
        if mod is None or not name.startswith("pywhy_graphs") or ".tests" in name:
            continue
        for attr, f in list(vars(mod).items()):
            if not isinstance(f, types.FunctionType) or not (f.__module__ or "").startswith("pywhy_graphs"):
                continue
            if getattr(f, "_envx_wrapped", False):
                continue
            key = (f.__module__, f.__qualname__)
            w = _WRAPPERS.get(key)
            if w is None:
                w = _wrap(f)
                _WRAPPERS[key] = w
            try:
                setattr(mod, attr, w)
            except Exception:
                pass


_WRAPPERS = {}


def _wrap(f):
    @functools.wraps(f)
    def w(*a, **k):
        _depth[0] += 1
        try:
            r = f(*a, **k)
        finally:
            _depth[0] -= 1
        if _depth[0] == 0 and _retained is not None:
            if _earlier and _mutable(r) and any(r is o for o in _earlier) and not any(r is x for x in a) \
                    and not any(r is x for x in k.values()):
                shared.append(f.__module__ + "." + f.__qualname__)
            _retained.append(r)
        return r
    w._envx_wrapped = True
    return w


def _mutable(r):
    return isinstance(r, (set, list, dict)) or (hasattr(r, "add_node") and hasattr(r, "nodes"))


def start(second=False):
    """second=True: the results retained so far become the 'earlier' objects that no later call may return again"""
    global _retained
    del _earlier[:]
    del shared[:]
    if second:
        _earlier.extend(r for r in (_retained or []) if _mutable(r))
    _retained = []
    _depth[0] = 0


def stop():
    global _retained
    _retained = None
    del _earlier[:]


def _poison_one(r, seen):
    if id(r) in seen:
        return
    seen.add(id(r))
    try:
        if isinstance(r, set):
            r.add(POISON)
        elif isinstance(r, list):
            for x in list(r):
                _poison_one(x, seen)
            r.append(POISON)
        elif isinstance(r, dict):
            for x in list(r.values()):
                _poison_one(x, seen)
            r[POISON] = POISON
        elif isinstance(r, tuple):
            for x in r:
                _poison_one(x, seen)
        elif hasattr(r, "add_node") and hasattr(r, "nodes"):
            r.add_node(POISON)
            r.add_node(POISON2)
            if hasattr(r, "edge_types"):
                for t in list(r.edge_types):
                    try:
                        r.add_edge(POISON, POISON2, t)
                    except Exception:
                        pass
            else:
                r.add_edge(POISON, POISON2)
    except Exception:
        pass


def poison_all():
    seen = set()
    for r in (_retained or []):
        _poison_one(r, seen)
