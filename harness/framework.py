"""Shared machinery of every check: build the Coq side, run model and implementation on the same
cases, compare, classify against KNOWN_FINDINGS.json, shrink, write replays and evidence.

A property module (harness/cXX.py) provides:
  PROP                      "C12"
  gen_cases(tier, rng)      iterable of JSON-able case dicts (first all exhaustive streams, then random)
  encode(case)              nested int lists = the sx fed to the extracted model's run_case
  decode(case, sxval)       expected observable (JSON-able, canonical)
  run_impl(case)            observable of the real code (run in forked workers; exceptions are caught
                            by the framework and become {"exc": "<ClassName>"})
optional:
  compare(case, impl, model) -> None | str      (default: inequality, observable name "result")
  classify(case, impl, model) -> str | None     key of a known-finding class (default None)
  nontrivial(case, model) -> bool ; key(case) -> hashable ; shrink(case) -> iterable of smaller cases
  pre_build(ctx) -> list of problems (translator etc.) ; extra(ctx) -> list of extra violations
  RULE, TRUSTED, ASSUMPTIONS, EXHAUSTIVE (dict tier->str), SPOT_N, IMPL_TIMEOUT
"""
import fcntl
import hashlib
import json
import multiprocessing
import os
import random
import re
import signal
import subprocess
import sys
import time

VERIF = "/verif"
REPO = os.environ.get("VERIF_REPO", "/repo")
COQ = os.path.join(VERIF, "coq")
BIN = os.path.join(VERIF, "bin")
ENV = dict(os.environ, OCAMLRUNPARAM="s=4M")
NPROC = int(os.environ.get("VERIF_JOBS", "16"))

if REPO not in sys.path:
    sys.path.insert(0, REPO)
sys.path.insert(0, os.path.join(VERIF, "harness"))

import sx as sxmod  # noqa: E402

ALLOWED_AXIOMS = {
    "functional_extensionality_dep", "FunctionalExtensionality.functional_extensionality_dep",
    "proof_irrelevance", "classic", "JMeq_eq", "Eqdep.Eq_rect_eq.eq_rect_eq", "eq_rect_eq",
    "propositional_extensionality",
}
FORBIDDEN = re.compile(
    r"\b(Admitted|admit|Axiom|Axioms|Parameter|Parameters|Conjecture|Conjectures|Admit Obligations)\b"
    r"|Unset Guard|bypass_check|type-in-type|impredicative-set|Unset Positivity|Unset Universe")


# ------------------------------------------------------------------ Coq side
def strip_comments(text):
    out, depth, i = [], 0, 0
    while i < len(text):
        if text.startswith("(*", i):
            depth += 1
            i += 2
        elif text.startswith("*)", i) and depth:
            depth -= 1
            i += 2
        else:
            if not depth:
                out.append(text[i])
            i += 1
    return "".join(out)


def all_v_files():
    res = []
    for root, _, files in os.walk(os.path.join(COQ, "theories")):
        for f in files:
            if f.endswith(".v"):
                res.append(os.path.relpath(os.path.join(root, f), COQ))
    return sorted(res)


def hygiene():
    """no axioms / admits / kernel switches anywhere in the development; Variable/Hypothesis only in sections"""
    problems = []
    for rel in all_v_files():
        text = strip_comments(open(os.path.join(COQ, rel)).read())
        for m in FORBIDDEN.finditer(text):
            problems.append("%s: forbidden token %r" % (rel, m.group(0)))
        depth = 0
        for line in text.split("\n"):
            s = line.strip()
            if re.match(r"Section\s+\w+\s*\.", s):
                depth += 1
            elif re.match(r"End\s+\w+\s*\.", s) and depth:
                depth -= 1
            elif re.match(r"(Variable|Variables|Hypothesis|Hypotheses|Context)\b", s) and depth == 0:
                problems.append("%s: %s outside a section" % (rel, s[:40]))
    return problems


def ensure_makefile():
    files = all_v_files()
    proj = "-Q theories PG\n-arg -w -arg -all\n" + "\n".join(files) + "\n"
    pp = os.path.join(COQ, "_CoqProject")
    old = open(pp).read() if os.path.exists(pp) else ""
    if old != proj or not os.path.exists(os.path.join(COQ, "Makefile")):
        open(pp, "w").write(proj)
        subprocess.run(["coq_makefile", "-f", "_CoqProject", "-o", "Makefile"], cwd=COQ, env=ENV,
                       check=True, stdout=subprocess.DEVNULL, stderr=subprocess.DEVNULL)


class Lock:
    def __enter__(self):
        self.f = open(os.path.join(COQ, ".lock"), "w")
        fcntl.flock(self.f, fcntl.LOCK_EX)

    def __exit__(self, *a):
        fcntl.flock(self.f, fcntl.LOCK_UN)
        self.f.close()


def build_proofs(prop, timeout=3000):
    """(re)check Props/<prop>.v and everything it depends on; returns dict"""
    res = {"ok": False, "theorems": [], "assumptions": {}, "log": "", "problems": []}
    props_v = "theories/Props/%s.v" % prop
    if not os.path.exists(os.path.join(COQ, props_v)):
        res["problems"].append("missing " + props_v)
        return res
    with Lock():
        ensure_makefile()
        vo = os.path.join(COQ, props_v + "o")
        if os.path.exists(vo):
            os.remove(vo)
        t0 = time.time()
        p = subprocess.run(["make", "-j%d" % NPROC, props_v + "o"], cwd=COQ, env=ENV, timeout=timeout,
                           stdout=subprocess.PIPE, stderr=subprocess.STDOUT, text=True)
        res["log"] = p.stdout[-6000:]
        res["make_s"] = round(time.time() - t0, 1)
        if p.returncode != 0:
            m = re.search(r'File "\./([^"]+)", line (\d+)', p.stdout)
            res["problems"].append("coq build failed" + (" at %s:%s" % m.groups() if m else ""))
            return res
        if subprocess.run([os.path.join(VERIF, "build_models.sh"), prop], env=ENV, stdout=subprocess.PIPE,
                          stderr=subprocess.STDOUT, text=True, timeout=timeout).returncode != 0:
            res["problems"].append("extraction / driver build failed")
            return res
    text = strip_comments(open(os.path.join(COQ, props_v)).read())
    res["theorems"] = re.findall(r"\b(?:Theorem|Corollary|Example)\s+(\w+)", text)
    printed = re.findall(r"Print Assumptions\s+(\w+)", text)
    # parse the Print Assumptions blocks in order
    blocks = re.split(r"(?m)^(?=Closed under the global context|Axioms:)", p.stdout)
    blocks = [b for b in blocks if b.startswith("Closed under") or b.startswith("Axioms:")]
    if len(blocks) != len(printed):
        res["problems"].append("Print Assumptions blocks %d != printed %d" % (len(blocks), len(printed)))
    for name, b in zip(printed, blocks):
        if b.startswith("Closed under"):
            res["assumptions"][name] = []
        else:
            axs = re.findall(r"(?m)^([A-Za-z_][\w.']*)\s*:", b[len("Axioms:"):].split("\nmake")[0])
            res["assumptions"][name] = axs
            for a in axs:
                if a not in ALLOWED_AXIOMS and a.split(".")[-1] not in ALLOWED_AXIOMS:
                    res["problems"].append("theorem %s depends on non-allow-listed axiom %s" % (name, a))
    missing = [t for t in res["theorems"] if t not in printed]
    if missing:
        res["problems"].append("no Print Assumptions for: " + ", ".join(missing))
    hp = hygiene()
    res["problems"].extend(hp)
    res["ok"] = not res["problems"]
    return res


# ------------------------------------------------------------------ model side
def _run_shard(args):
    binpath, lines = args
    p = subprocess.run([binpath], input="\n".join(lines) + "\n", stdout=subprocess.PIPE, stderr=subprocess.PIPE,
                       text=True, env=dict(ENV, OCAMLRUNPARAM="s=4M,l=8G"))
    out = p.stdout.split("\n")
    if out and out[-1] == "":
        out.pop()
    if len(out) != len(lines):
        out = out + ["!error driver produced %d of %d lines: %s" % (len(out), len(lines), p.stderr[-200:])] * (len(lines) - len(out))
    return out


def run_model(prop, sx_cases, pool):
    binpath = os.path.join(BIN, prop.lower())
    lines = [sxmod.dumps(c) for c in sx_cases]
    if not lines:
        return []
    nsh = max(1, min(NPROC * 4, len(lines) // 50 + 1))
    shards = [lines[i::nsh] for i in range(nsh)]
    outs = pool.map(_run_shard, [(binpath, s) for s in shards])
    res = [None] * len(lines)
    for k, o in enumerate(outs):
        for j, line in enumerate(o):
            res[k + j * nsh] = line
    return res


def spot_check(prop, sx_cases, model_lines, rng, n, modfile):
    """re-evaluate a sample inside Coq (vm_compute) and require equality with the extracted code"""
    idx = [i for i in range(len(sx_cases)) if not model_lines[i].startswith("!")]
    if not idx or n <= 0:
        return {"n": 0, "ok": True}
    idx = rng.sample(idx, min(n, len(idx)))
    d = os.path.join(COQ, "build", "spot")
    os.makedirs(d, exist_ok=True)
    name = "Spot_%s" % prop
    cases = ";\n ".join(sxmod.to_coq(sx_cases[i]) for i in idx)
    exp = ";\n ".join(sxmod.to_coq(sxmod.loads(model_lines[i])) for i in idx)
    src = ("From Coq Require Import List.\nImport ListNotations.\nFrom PG Require Import Base.Sx %s.%s.\n"
           "Goal map run_case [\n %s] = [\n %s].\nProof. vm_compute. reflexivity. Qed.\n" % (prop, modfile, cases, exp))
    open(os.path.join(d, name + ".v"), "w").write(src)
    p = subprocess.run(["coqc", "-Q", "../../theories", "PG", name + ".v"], cwd=d, env=ENV, stdout=subprocess.PIPE,
                       stderr=subprocess.STDOUT, text=True, timeout=1200)
    return {"n": len(idx), "ok": p.returncode == 0, "log": p.stdout[-500:] if p.returncode else ""}


# ------------------------------------------------------------------ implementation side
class _Timeout(BaseException):   # not an Exception: a module's `except Exception` must not swallow the per-case alarm
    pass


def _alarm(signum, frame):
    signal.alarm(5)   # re-arm: if the alarm is swallowed somewhere, it fires again
    raise _Timeout()


_MOD = None


def _run_impl_env(case):
    """run_impl under the environment dimensions that live in the worker process (envx.py): warnings as errors, and the
    retention / poisoning double run (the SECOND run's output is what is compared with the model)"""
    if not isinstance(case, dict) or not (case.get("_werr") or case.get("_alias")):
        return _MOD.run_impl(case)
    import warnings
    import envx
    with warnings.catch_warnings():
        if case.get("_werr"):
            for cat in (UserWarning, RuntimeWarning, FutureWarning):
                warnings.simplefilter("error", cat)
        if not case.get("_alias"):
            return _MOD.run_impl(case)
        import pywhy_graphs  # noqa: F401
        import pywhy_graphs.algorithms  # noqa: F401
        import pywhy_graphs.networkx  # noqa: F401
        envx.install()
        envx.start()
        try:
            _MOD.run_impl(case)
            envx.install()      # modules imported lazily by run_impl
            envx.poison_all()
            envx.start(second=True)
            out = _MOD.run_impl(case)
            if envx.shared:
                # a mutable object returned by an earlier call is returned again: whoever holds the first result sees it change
                return {"exc": "SharedResultObject", "msg": ", ".join(sorted(set(envx.shared)))[:160]}
            return out
        finally:
            envx.stop()


def _impl_worker(args):
    case, tmo = args
    signal.signal(signal.SIGALRM, _alarm)
    signal.alarm(tmo)
    old_limit = None
    try:
        try:
            rl = case.get("_reclimit") if isinstance(case, dict) else None
            if rl:
                # "deep" cases: leave only `rl` frames of head-room, so that a search that recurses once per node / edge
                # fails on a chain of a few hundred nodes instead of needing ~1000 (iterative code is unaffected)
                depth, f = 0, sys._getframe()
                while f is not None:
                    depth, f = depth + 1, f.f_back
                old_limit = sys.getrecursionlimit()
                sys.setrecursionlimit(depth + int(rl))
            out = _run_impl_env(case)
        finally:
            signal.alarm(0)
            if old_limit is not None:
                sys.setrecursionlimit(old_limit)
        return json.loads(json.dumps(out))
    except _Timeout:
        return {"exc": "TIMEOUT"}
    except RecursionError:
        return {"exc": "RecursionError"}
    except BaseException as e:  # noqa
        return {"exc": type(e).__name__, "msg": str(e)[:160]}


def run_impl_all(mod, cases, pool):
    tmo = getattr(mod, "IMPL_TIMEOUT", 20)
    return pool.map(_impl_worker, [(c, tmo) for c in cases], chunksize=max(1, min(200, len(cases) // (NPROC * 8) + 1)))


# ------------------------------------------------------------------ known findings
def load_known(prop):
    p = os.path.join(VERIF, "KNOWN_FINDINGS.json")
    if not os.path.exists(p):
        return []
    return json.load(open(p)).get(prop, [])


# ------------------------------------------------------------------ main driver
def _default_compare(case, impl, model):
    return None if impl == model else "result"


def evaluate(mod, cases, pool):
    if hasattr(mod, "custom_evaluate"):
        return mod.custom_evaluate(cases, pool)
    sxs = [mod.encode(c) for c in cases]
    lines = run_model(mod.PROP, sxs, pool)
    impl = run_impl_all(mod, cases, pool)
    model = []
    for c, line in zip(cases, lines):
        if line.startswith("!error"):
            model.append({"model_error": line})
        else:
            model.append(json.loads(json.dumps(mod.decode(c, sxmod.loads(line)))))
    return sxs, lines, impl, model


def still_fails(mod, case, want_key, pool):
    _, _, impl, model = evaluate(mod, [case], pool)
    cmpf = getattr(mod, "compare", _default_compare)
    r = cmpf(case, impl[0], model[0])
    if r is None:
        return False
    clf = getattr(mod, "classify", lambda *a: None)
    return clf(case, impl[0], model[0]) == want_key


def shrink_case(mod, case, key, pool, budget=120):
    shr = getattr(mod, "shrink", None)
    if shr is None:
        return case
    cur = case
    progress = True
    while progress and budget > 0:
        progress = False
        for cand in shr(cur):
            budget -= 1
            if budget <= 0:
                break
            try:
                if still_fails(mod, cand, key, pool):
                    cur = cand
                    progress = True
                    break
            except Exception:
                continue
    return cur


def write_replay(prop, payload):
    d = os.path.join(os.environ.get("VERIF_REPLAYS_DIR", os.path.join(VERIF, "replays")), prop)
    os.makedirs(d, exist_ok=True)
    h = hashlib.sha1(json.dumps(payload, sort_keys=True).encode()).hexdigest()[:12]
    path = os.path.join(d, h + ".json")
    json.dump(payload, open(path, "w"), indent=1, sort_keys=True)
    return os.path.relpath(path, VERIF)


ENV_DIMS = {"neg": {"_lab": "neg"}, "lag": {"_lab": "lag"}, "attrs": {"_attrs": 1}, "layers": {"_layers": "rot"},
            "negmix": {"_lab": "negmix"}, "twin": {"_lab": "twin"}, "lits": {"_lab": "lits"},
            "werr": {"_werr": 1}, "alias": {"_alias": 1}}
ENV_MODULES = {"C01", "C04", "C05", "C06", "C07", "C08", "C09", "C11", "C12", "C16", "C17", "C18", "C19"}
_ENV_OWN_KEYS = ("_lab", "_attrs", "_layers", "_werr", "_alias", "falsy", "labels", "mixed", "lab", "label", "fam")


def env_variants(mod, cases, tier, rng):
    """environment-variant stream (shared by every module that builds its graphs through graphs.to_*): a sample of the module's own
    cases, stratified by `kind`, is re-run with hash-tied labels ("neg": -1,-2,..; "lag": ("x",-1),("x",-2),..), with attribute
    dicts on nodes/edges/graph whose keys are str, int and tuple, and with the edge-type layers in another insertion order.  The
    abstract graph is unchanged, so the expected answer is the model's answer for the original case.  A module opts out of a
    dimension with ENV_SKIP = {...} (and of the stream with ENV_STREAM = False)."""
    on = getattr(mod, "ENV_STREAM", mod.PROP in ENV_MODULES)
    if not on:
        return []
    dims = [d for d in ENV_DIMS if d not in set(getattr(mod, "ENV_SKIP", ()))]
    if not dims:
        return []
    by_kind = {}
    for c in cases:
        if "_corpus" in c or any(k in c and c[k] is not None and c[k] is not False for k in _ENV_OWN_KEYS):
            continue
        by_kind.setdefault(c.get("kind", "?"), []).append(c)
    budget = {"quick": 540, "thorough": 6000}.get(tier, 540)
    r = random.Random(rng.randrange(1 << 30))
    for k in by_kind:
        r.shuffle(by_kind[k])
    out, j = [], 0
    while len(out) < budget and any(by_kind.values()):
        for k in sorted(by_kind):
            if by_kind[k] and len(out) < budget:
                c = by_kind[k].pop()
                d = dims[j % len(dims)]
                j += 1
                out.append(dict(c, _env=d, **ENV_DIMS[d]))   # `kind` stays as it is: modules dispatch on it
    return out


def main(mod, argv=None):
    global _MOD
    _MOD = mod
    import argparse
    ap = argparse.ArgumentParser()
    ap.add_argument("--tier", default=os.environ.get("VERIF_TIER", "quick"))
    ap.add_argument("--replay")
    ap.add_argument("--no-build", action="store_true")
    args = ap.parse_args(argv)
    tier = args.tier if args.tier in ("quick", "thorough") else "quick"
    seed = int(os.environ.get("VERIF_SEED", "20260930"))
    rng = random.Random(seed)
    prop = mod.PROP
    t0 = time.time()
    modfile = "Run" if os.path.exists(os.path.join(COQ, "theories", prop, "Run.v")) else "Model"
    cmpf = getattr(mod, "compare", _default_compare)
    clf = getattr(mod, "classify", lambda *a: None)
    ctx = {"tier": tier, "seed": seed, "rng": rng, "repo": REPO}

    violations = []   # dicts: reason, replay, found_input(bool)
    pre_problems = []
    if hasattr(mod, "pre_build"):
        pre_problems = list(mod.pre_build(ctx) or [])
    if args.no_build:
        proofs = {"ok": True, "theorems": [], "assumptions": {}, "problems": [], "log": "", "skipped": True}
    else:
        proofs = build_proofs(prop)

    mp = multiprocessing.get_context("fork")
    pool = mp.Pool(NPROC)
    try:
        if args.replay:
            payload = json.load(open(args.replay if os.path.isabs(args.replay) else os.path.join(VERIF, args.replay)))
            case = payload["case"]
            _, _, impl, model = evaluate(mod, [case], pool)
            r = cmpf(case, impl[0], model[0])
            print(json.dumps({"case": case, "impl": impl[0], "model": model[0], "differs_on": r}, indent=1))
            if r is not None:
                print("VIOLATION property=%s replay=%s" % (prop, args.replay))
                return 1
            return 0

        known = mod.known(ctx) if hasattr(mod, "known") else load_known(prop)
        corpus = [dict(k["witness"], _corpus=k.get("key", "")) for k in known if k.get("witness") is not None]
        cdir = os.path.join(VERIF, "corpus", prop)
        if os.path.isdir(cdir):
            for f in sorted(os.listdir(cdir)):
                if f.endswith(".json"):
                    corpus.append(dict(json.load(open(os.path.join(cdir, f)))["case"], _corpus=f))
        cases = corpus + list(mod.gen_cases(tier, rng))
        cases += env_variants(mod, cases, tier, rng)
        sxs, lines, impl, model = ([], [], [], [])
        if proofs.get("skipped") or hasattr(mod, "custom_evaluate") or os.path.exists(os.path.join(BIN, prop.lower())):
            sxs, lines, impl, model = evaluate(mod, cases, pool)
        else:
            cases = []

        # compare
        keyf = getattr(mod, "key", lambda c: json.dumps({k: v for k, v in c.items() if not k.startswith("_")}, sort_keys=True))
        ntf = getattr(mod, "nontrivial", lambda c, m: True)
        distinct = set()
        kinds = {}
        exc_kinds = {}
        disagreements = []
        model_errors = 0
        for i, c in enumerate(cases):
            kd = str(c.get("kind", "?")) + ("+env:" + c["_env"] if "_env" in c else "")
            kinds[kd] = kinds.get(kd, 0) + 1
            if isinstance(impl[i], dict) and "exc" in impl[i]:
                exc_kinds[impl[i]["exc"]] = exc_kinds.get(impl[i]["exc"], 0) + 1
            if isinstance(model[i], dict) and "model_error" in model[i]:
                model_errors += 1
                disagreements.append((i, "model_error"))
                continue
            if ntf(c, model[i]):
                distinct.add(keyf(c))
            r = cmpf(c, impl[i], model[i])
            if r is not None:
                disagreements.append((i, r))

        known_by_key = {k["key"]: k for k in known if k.get("status") == "known"}
        known_hits = {}
        new = {}
        for i, r in disagreements:
            k = clf(cases[i], impl[i], model[i]) if r != "model_error" else None
            if k is not None and k in known_by_key:
                known_hits.setdefault(k, []).append(i)
            else:
                new.setdefault((r, k), []).append(i)
        for k, ent in known_by_key.items():
            if k in known_hits:
                print("KNOWN-FINDING: property=%s %s [%d cases this run]" % (prop, ent["what"], len(known_hits[k])))
            else:
                print("note: known finding %s of %s did not reproduce on this run" % (k, prop))

        for (r, k), idxs in sorted(new.items(), key=lambda kv: str(kv[0]))[:6]:
            i = min(idxs, key=lambda j: len(json.dumps(cases[j])))
            case = {kk: vv for kk, vv in cases[i].items()}
            small = shrink_case(mod, case, k, pool) if r != "model_error" else case
            _, _, im2, mo2 = evaluate(mod, [small], pool)
            payload = {"property": prop, "correspondence": "K:%s:%s" % (prop, r), "class": k, "case": small,
                       "impl": im2[0], "model": mo2[0], "original_case": case, "n_cases_failing": len(idxs),
                       "tier": tier, "seed": seed,
                       "how_to_replay": "cd /verif && ./check %s --replay <this file>" % prop}
            path = write_replay(prop, payload)
            violations.append({"reason": "impl differs from proved model on %s (%d cases)" % (r, len(idxs)),
                               "replay": path, "found_input": True})

        extra = []
        if hasattr(mod, "extra"):
            extra = list(mod.extra(ctx, pool) or [])
            for e in extra:
                path = write_replay(prop, dict(e, property=prop))
                violations.append({"reason": e.get("reason", "extra check failed"), "replay": path,
                                   "found_input": e.get("found_input", True)})

        spot = {"n": 0, "ok": True}
        if cases and proofs["ok"] and not proofs.get("skipped"):
            spot = spot_check(prop, sxs, lines, rng, getattr(mod, "SPOT_N", 25), modfile)
            if not spot["ok"]:
                path = write_replay(prop, {"property": prop, "broken": "vm_compute spot check disagrees with extracted model",
                                           "log": spot.get("log", "")})
                violations.append({"reason": "extraction spot check failed", "replay": path, "found_input": False})

        if (not proofs["ok"]) or pre_problems:
            found = any(v["found_input"] for v in violations)
            if not found:
                path = write_replay(prop, {"property": prop, "broken": proofs["problems"] + pre_problems,
                                           "log": proofs.get("log", "")[-3000:],
                                           "note": "proof obligation or translator no longer checks; no failing input found "
                                                   "among %d cases" % len(cases)})
                violations.append({"reason": "; ".join(proofs["problems"] + pre_problems), "replay": path,
                                   "found_input": False})

        # evidence
        n_thm = len(proofs["theorems"])
        samples = []
        step = max(1, len(cases) // 5)
        for i in list(range(0, len(cases), step))[:5]:
            samples.append({"case": cases[i], "impl": impl[i], "model": model[i]})
        cov = {
            "obligations": max(1, n_thm),
            "discharged": n_thm if proofs["ok"] else 0,
            "checker_cmd": "make -C /verif/coq theories/Props/%s.vo  (coqc 8.16.1, full .vo build of the dependency cone, "
                           "Print Assumptions under every theorem)" % prop,
            "trusted_base": ["Coq 8.16.1 kernel incl. vm_compute (no native_compute)",
                             "Print Assumptions: " + json.dumps(proofs["assumptions"]),
                             "extraction with ExtrOcamlBasic only + coq/extract/driver.ml (nat stays Peano)",
                             "harness/framework.py + harness/%s.py (differential correspondence, tie K)" % prop.lower()]
                            + list(getattr(mod, "TRUSTED", [])),
            "theorems": proofs["theorems"],
            "evaluations": len(cases),
            "distinct_nontrivial": len(distinct),
            "rule": getattr(mod, "RULE", ""),
            "samples": samples,
            "exhaustive": bool(getattr(mod, "EXHAUSTIVE", {}).get(tier)),
            "exhaustive_bound": getattr(mod, "EXHAUSTIVE", {}).get(tier, ""),
            "case_kinds": kinds,
            "impl_exception_kinds": exc_kinds,
            "disagreements": len(disagreements),
            "known_finding_hits": {k: len(v) for k, v in known_hits.items()},
            "vm_compute_spotchecks": spot["n"],
            "model_errors": model_errors,
            "coq_make_s": proofs.get("make_s"),
            "repo": REPO,
        }
        if hasattr(mod, "coverage_extra"):
            cov.update(mod.coverage_extra(ctx) or {})
        ev = {"property_id": prop, "tier": tier, "seed": seed, "level": "proof", "coverage": cov,
              "assumptions": list(getattr(mod, "ASSUMPTIONS", [])), "wall_s": round(time.time() - t0, 1),
              "violations": len(violations)}
        evdir = os.environ.get("VERIF_EVIDENCE_DIR", os.path.join(VERIF, "evidence"))
        os.makedirs(evdir, exist_ok=True)
        json.dump(ev, open(os.path.join(evdir, prop + ".json"), "w"), indent=1, sort_keys=True)
        print("%s tier=%s cases=%d distinct_nontrivial=%d disagreements=%d known=%d theorems=%d proofs_ok=%s spot=%d wall=%.0fs"
              % (prop, tier, len(cases), len(distinct), len(disagreements), sum(len(v) for v in known_hits.values()),
                 n_thm, proofs["ok"], spot["n"], time.time() - t0))
        for v in violations:
            print("  reason: " + v["reason"][:300])
            print("VIOLATION property=%s replay=%s%s" % (prop, v["replay"], "" if v["found_input"] else " no-failing-input-found"))
        return 1 if violations else 0
    finally:
        pool.terminate()
