"""Abstract mixed graphs {V,D,B,U,C} over int nodes: enumerators by class, random generators,
conversion to the pywhy-graphs classes and back.  Everything derives from the rng passed in."""
import itertools


def G(V, D=(), B=(), U=(), C=()):
    return {"V": list(V), "D": [list(e) for e in D], "B": [list(e) for e in B],
            "U": [list(e) for e in U], "C": [list(e) for e in C]}


def enc(g):
    """sx encoding matching MGraph.sx_graph"""
    return [g["V"], g["D"], g["B"], g["U"], g["C"]]


def canon(g):
    return (tuple(sorted(g["V"])), tuple(sorted(map(tuple, g["D"]))),
            tuple(sorted(tuple(sorted(e)) for e in g["B"])),
            tuple(sorted(tuple(sorted(e)) for e in g["U"])),
            tuple(sorted(map(tuple, g["C"]))))


def pairs(n):
    return [(a, b) for a in range(n) for b in range(a + 1, n)]


def is_acyclic(n_or_nodes, D):
    nodes = list(range(n_or_nodes)) if isinstance(n_or_nodes, int) else list(n_or_nodes)
    ch = {v: [] for v in nodes}
    indeg = {v: 0 for v in nodes}
    for a, b in D:
        ch[a].append(b)
        indeg[b] += 1
    st = [v for v in nodes if indeg[v] == 0]
    seen = 0
    while st:
        v = st.pop()
        seen += 1
        for w in ch[v]:
            indeg[w] -= 1
            if indeg[w] == 0:
                st.append(w)
    return seen == len(nodes)


# per-pair kinds: each maps (a,b) with a<b to layer contributions
PAIR_KINDS = {
    "none": {},
    "->": {"D": [(0, 1)]},
    "<-": {"D": [(1, 0)]},
    "<->": {"B": [(0, 1)]},
    "--": {"U": [(0, 1)]},
    "->&<->": {"D": [(0, 1)], "B": [(0, 1)]},
    "<-&<->": {"D": [(1, 0)], "B": [(0, 1)]},
    "o-o": {"C": [(0, 1), (1, 0)]},
    "o->": {"D": [(0, 1)], "C": [(1, 0)]},
    "<-o": {"D": [(1, 0)], "C": [(0, 1)]},
    "-o": {"C": [(0, 1)]},   # a -o b : circle at b only
    "o-": {"C": [(1, 0)]},
    "<->&--": {"B": [(0, 1)], "U": [(0, 1)]},
}

ADMG_KINDS = ["none", "->", "<-", "<->", "->&<->", "<-&<->"]
ANC_KINDS = ["none", "->", "<-", "<->", "--"]
DAG_KINDS = ["none", "->", "<-"]
PDAG_KINDS = ["none", "->", "<-", "--"]
MARK_KINDS = ["none", "->", "<-", "<->", "--", "o-o", "o->", "<-o"]
MARK_KINDS_EXT = MARK_KINDS + ["-o", "o-"]


def from_kinds(n, kinds):
    """kinds: list of kind names aligned with pairs(n)"""
    g = {"V": list(range(n)), "D": [], "B": [], "U": [], "C": []}
    for (a, b), k in zip(pairs(n), kinds):
        for layer, es in PAIR_KINDS[k].items():
            for (i, j) in es:
                g[layer].append([(a, b)[i], (a, b)[j]])
    return g


def ancestral_und_ok(g):
    """no arrowhead at an endpoint of an undirected edge"""
    und = set()
    for a, b in g["U"]:
        und.add(a)
        und.add(b)
    for a, b in g["D"]:
        if b in und:
            return False
    for a, b in g["B"]:
        if a in und or b in und:
            return False
    return True


def enum_class(n, kinds, acyclic=True, pred=None):
    for ks in itertools.product(kinds, repeat=len(pairs(n))):
        g = from_kinds(n, ks)
        if acyclic and not is_acyclic(n, g["D"]):
            continue
        if pred is not None and not pred(g):
            continue
        yield g


def enum_admg(n):
    return enum_class(n, ADMG_KINDS)


def enum_anc(n):
    return enum_class(n, ANC_KINDS, pred=ancestral_und_ok)


def enum_dag(n):
    return enum_class(n, DAG_KINDS)


def enum_pdag(n, acyclic=True):
    return enum_class(n, PDAG_KINDS, acyclic=acyclic)


def enum_marks(n, ext=False):
    return enum_class(n, MARK_KINDS_EXT if ext else MARK_KINDS, acyclic=False)


def random_kinds_graph(rng, n, kinds, p_edge=0.4, acyclic=True, pred=None, tries=200):
    """random member of a class; for acyclic classes orientation follows a random order so no rejection is needed"""
    order = list(range(n))
    rng.shuffle(order)
    pos = {v: i for i, v in enumerate(order)}
    nonnone = [k for k in kinds if k != "none"]
    for _ in range(tries):
        ks = []
        for (a, b) in pairs(n):
            if rng.random() >= p_edge:
                ks.append("none")
                continue
            k = rng.choice(nonnone)
            if acyclic:
                fwd = pos[a] < pos[b]
                swap = {"->": "<-", "<-": "->", "->&<->": "<-&<->", "<-&<->": "->&<->",
                        "o->": "<-o", "<-o": "o->"}
                if k in ("->", "->&<->", "o->") and not fwd and swap[k] in kinds:
                    k = swap[k]
                elif k in ("<-", "<-&<->", "<-o") and fwd and swap[k] in kinds:
                    k = swap[k]
            ks.append(k)
        g = from_kinds(n, ks)
        if acyclic and not is_acyclic(n, g["D"]):
            continue
        if pred is None or pred(g):
            return g
    return from_kinds(n, ["none"] * len(pairs(n)))


def subsets(xs, maxsize=None):
    xs = list(xs)
    for r in range(len(xs) + 1):
        if maxsize is not None and r > maxsize:
            break
        for c in itertools.combinations(xs, r):
            yield list(c)


def relabel(g, f):
    return {"V": [f(v) for v in g["V"]], **{k: [[f(a), f(b)] for a, b in g[k]] for k in "DBUC"}}


def shrink_graph(g):
    """candidate smaller graphs: drop one edge, drop one node (with its edges)"""
    for k in "DBUC":
        for i in range(len(g[k])):
            h = {kk: list(v) for kk, v in g.items()}
            h[k] = g[k][:i] + g[k][i + 1:]
            yield h
    for v in g["V"]:
        h = {"V": [w for w in g["V"] if w != v]}
        for k in "DBUC":
            h[k] = [e for e in g[k] if v not in e]
        yield h


# ---- label families and insertion orders (C15 re-runs every property's cases through these) ----
LABEL_FAMILIES = ["int", "bigint", "int257", "tuple", "frozenset", "str", "char", "mixed", "obj", "neg", "lag", "negmix", "twin", "lits"]


class NodeObj:
    """a label with Python's default identity-based __eq__/__hash__ (e.g. a user 'Variable' object): two labels are the
    same node only if they are the same object, so deep-copying a label turns it into a different node"""
    __slots__ = ("v",)

    def __init__(self, v):
        self.v = v

    def __repr__(self):
        return "NodeObj(%r)" % (self.v,)


def labeler(case=None):
    """(label, inv): case["_lab"] picks the family; default identity ints"""
    fam = (case or {}).get("_lab", "int")
    if fam == "int":
        return (lambda v: v), (lambda x: x)
    if fam == "bigint":
        f = lambda v: (1 << 61) + 7919 * v  # noqa: E731
    elif fam == "int257":
        f = lambda v: 257 + 13 * v  # noqa: E731   (outside CPython's small-int cache)
    elif fam == "tuple":
        f = lambda v: ("n", v)  # noqa: E731
    elif fam == "frozenset":
        f = lambda v: frozenset({v, "f%d" % v})  # noqa: E731
    elif fam == "str":
        f = lambda v: "".join(["X", str(v), "q"])  # noqa: E731   (built at run time: not interned)
    elif fam == "char":
        f = lambda v: chr(ord("a") + v)  # noqa: E731
    elif fam == "obj":     # identity-hashed objects: the same v must always map to the same object
        _objs = {}
        f = lambda v: _objs.setdefault(v, NodeObj(v))  # noqa: E731
    elif fam == "neg":     # negative ints: CPython has hash(-1) == hash(-2) == -2, so two distinct labels tie on their hash
        f = lambda v: -(v + 1)  # noqa: E731
    elif fam == "lag":     # (variable, -lag) tuples as the time-series classes use them: ("x", -1) and ("x", -2) hash equal as well
        f = lambda v: ("x", -(v + 1))  # noqa: E731
    elif fam == "negmix":  # -1,-2,2,3,...,n-1: a negative int label k used as a list index aliases position n+k, which is a label too
        f = lambda v: -(v + 1) if v < 2 else v  # noqa: E731
    elif fam == "twin":    # 0,"0",1,"1",...: distinct labels with the same str()
        f = lambda v: v // 2 if v % 2 == 0 else str(v // 2)  # noqa: E731
    elif fam == "lits":    # string constants of the library's own source as node labels (envx.literal_labels): constants that are
        import envx         # not in the committed baseline come first, so a sentinel a change introduces becomes a real label
        import zlib
        new, pool = envx.literal_labels()
        pool = [x for x in pool if " " not in x and len(x) <= 16] or pool
        off = zlib.crc32(repr(sorted((case or {}).get("g", {}).items()) if isinstance((case or {}).get("g"), dict) else "").encode()) % len(pool)
        L = len(pool)    # injective for every v: beyond one turn of the pool a "#k" suffix is appended
        f = lambda v: new[v] if v < len(new) else pool[(off + v) % L] + ("#%d" % ((off + v) // L) if (off + v) // L else "")  # noqa: E731
    elif fam == "mixed":   # unorderable mix of types; includes the falsy labels 0, "" and ()
        f = lambda v: [0, "", (), "s3", 4, ("t", 5), frozenset({6}), "s7"][v] if v < 8 else (("m", v) if v % 2 else "".join(["m", str(v)]))  # noqa: E731
    else:
        raise ValueError(fam)
    table = {}

    def lab(v):
        x = f(v)
        table[x] = v
        return x

    def inv(x):
        return table[x]
    return lab, inv


def ordered(case, items, salt=""):
    """insertion order: case["_order"] (an int seed) shuffles deterministically; default as given"""
    items = list(items)
    seed = (case or {}).get("_order")
    if seed is not None:
        import random as _r
        _r.Random("%s:%s" % (seed, salt)).shuffle(items)
    return items


# ---- building pywhy-graphs objects (import lazily: sys.path is set by the framework) ----
# every builder takes case= so that label family and insertion order can be varied (C15)
def _decorate(Gobj, case):
    """environment variants (framework.env_variants): case["_attrs"] decorates nodes, edges and the graph with attributes whose
    keys are str, int and tuple (networkx allows any hashable key; `**d` expansion of such a dict raises TypeError), with mutable
    values; case["_layers"] == "rot" removes the first edge-type layer and adds it back through the public API, so that
    `edge_types` (a list in insertion order) comes in another order.  Neither changes the abstract graph."""
    case = case or {}
    if case.get("_layers") == "rot" and hasattr(Gobj, "remove_edge_type") and len(Gobj.edge_types) > 1:
        t = list(Gobj.edge_types)[0]
        Gt = Gobj.get_graphs(t)
        Gobj.remove_edge_type(t)
        Gobj.add_edge_type(Gt, t)
    if case.get("_attrs"):
        for i, n in enumerate(list(Gobj.nodes)):
            d = Gobj.nodes[n]
            d["role"] = "r%d" % (i % 3)
            d[0] = i
            d[("env", 1)] = [i]
        Gobj.graph["title"] = "t"
        Gobj.graph[7] = "g"
        Gobj.graph[("k", 2)] = [1]
        layers = Gobj.get_graphs().items() if hasattr(Gobj, "get_graphs") else [("directed", Gobj)]
        for t, Gt in layers:
            for j, (u, v, d) in enumerate(Gt.edges(data=True)):
                d["w"] = j
                d[3] = [j]
                d[("e", t)] = 2


def _fill(Gobj, g, case, names):
    lab, inv = labeler(case)
    for v in ordered(case, g["V"], "V"):
        Gobj.add_node(lab(v))
    es = [(k, a, b) for k in "DBUC" if k in names for a, b in g[k]]
    for k, a, b in ordered(case, es, "E"):
        Gobj.add_edge(lab(a), lab(b), names[k])
    _decorate(Gobj, case)
    return lab, inv


def to_mixed(g, case=None, layers=("directed", "bidirected", "undirected")):
    """MixedEdgeGraph with exactly the given layers present; returns (M, lab, inv)"""
    import networkx as nx
    import pywhy_graphs.networkx as pywhy_nx
    mk = {"directed": nx.DiGraph, "bidirected": nx.Graph, "undirected": nx.Graph, "circle": nx.DiGraph}
    key = {"directed": "D", "bidirected": "B", "undirected": "U", "circle": "C"}
    M = pywhy_nx.MixedEdgeGraph(graphs=[mk[n]() for n in layers], edge_types=list(layers))
    lab, inv = _fill(M, g, case, {key[n]: n for n in layers})
    return M, lab, inv


def to_admg(g, case=None):
    from pywhy_graphs import ADMG
    A = ADMG()
    lab, inv = _fill(A, g, case, {"D": "directed", "B": "bidirected", "U": "undirected"})
    return A, lab, inv


def to_pag(g, case=None):
    from pywhy_graphs import PAG
    P = PAG()
    lab, inv = _fill(P, g, case, {"D": "directed", "B": "bidirected", "U": "undirected", "C": "circle"})
    return P, lab, inv


def to_cpdag(g, case=None):
    from pywhy_graphs import CPDAG
    P = CPDAG()
    lab, inv = _fill(P, g, case, {"D": "directed", "U": "undirected"})
    return P, lab, inv


def to_digraph(g, case=None):
    import networkx as nx
    lab, inv = labeler(case)
    Dg = nx.DiGraph()
    for v in ordered(case, g["V"], "V"):
        Dg.add_node(lab(v))
    for a, b in ordered(case, g["D"], "E"):
        Dg.add_edge(lab(a), lab(b))
    _decorate(Dg, case)
    return Dg, lab, inv


def from_mixed(M, inv=lambda v: v):
    """canonical abstract graph of any MixedEdgeGraph-like object (layers by their default names)"""
    out = {"V": sorted(inv(v) for v in M.nodes), "D": [], "B": [], "U": [], "C": []}
    key = {"directed": "D", "bidirected": "B", "undirected": "U", "circle": "C"}
    for name, lg in M.get_graphs().items():
        k = key.get(name)
        if k is None:
            out.setdefault("X", []).append(name)
            continue
        for a, b in lg.edges():
            a, b = inv(a), inv(b)
            if k in "BU":
                a, b = min(a, b), max(a, b)
            out[k].append([a, b])
    for k in "DBUC":
        out[k] = sorted(out[k])
    return out


def snapshot(M):
    """full observable state of a mixed graph for argument-integrity checks (compare before/after a call)"""
    s = {"nodes": sorted((repr(n), repr(sorted(d.items(), key=repr))) for n, d in M.nodes(data=True)),
         "graph": repr(sorted(M.graph.items(), key=repr))}
    if hasattr(M, "get_graphs"):
        for name, lg in M.get_graphs().items():
            es = []
            for a, b, d in lg.edges(data=True):
                if not lg.is_directed():
                    a, b = sorted((a, b), key=repr)
                es.append((repr(a), repr(b), repr(sorted(d.items(), key=repr))))
            s[name] = sorted(es)
            s[name + "_nodes"] = sorted(repr(n) for n in lg.nodes)
    else:
        s["edges"] = sorted((repr(a), repr(b), repr(sorted(d.items(), key=repr))) for a, b, d in M.edges(data=True))
    return s


# ---- in-place edits (stale-state streams): turn an already built object for g_from into g_to without rebuilding ----
LAYER_NAMES = {"D": "directed", "B": "bidirected", "U": "undirected", "C": "circle"}


def perturb(g, rng, keep_counts=True, acyclic=True):
    """a neighbour of g with the same nodes: one directed edge reversed / one edge moved (same node and edge counts when
    keep_counts), falling back to removing one edge; returns None when no neighbour is found"""
    import copy as _c
    cands = []
    for k in "DBUC":
        for i, e in enumerate(g[k]):
            cands.append((k, i))
    if not cands:
        return None
    for _ in range(20):
        k, i = rng.choice(cands)
        h = _c.deepcopy(g)
        a, b = h[k][i]
        mode = rng.choice(["reverse", "move"]) if k in "DC" else "move"
        if mode == "reverse":
            if [b, a] in h[k]:
                continue
            h[k][i] = [b, a]
        else:
            c = rng.choice(h["V"])
            if c in (a, b) or [a, c] in h[k] or [c, a] in h[k]:
                continue
            h[k][i] = [a, c]
        if acyclic and not is_acyclic(h["V"], h["D"]):
            continue
        if canon(h) != canon(g):
            return h
    if keep_counts:
        return None
    k, i = rng.choice(cands)
    h = _c.deepcopy(g)
    del h[k][i]
    return h


def morph(obj, g_from, g_to, lab, names=None):
    """edit obj (built for g_from with label function lab) in place so that it represents g_to:
    remove the edges of g_from that g_to lacks, then add the missing ones, layer by layer"""
    names = names or LAYER_NAMES
    for k in "DBUC":
        if k not in names:
            continue
        und = k in "BU"
        norm = (lambda e: tuple(sorted(e))) if und else (lambda e: tuple(e))
        old = {norm(e) for e in g_from[k]}
        new = {norm(e) for e in g_to[k]}
        for a, b in sorted(old - new):
            obj.remove_edge(lab(a), lab(b), names[k])
        for a, b in sorted(new - old):
            obj.add_edge(lab(a), lab(b), names[k])
    for v in g_to["V"]:
        if v not in g_from["V"]:
            obj.add_node(lab(v))
    for v in g_from["V"]:
        if v not in g_to["V"]:
            obj.remove_node(lab(v))
    return obj
