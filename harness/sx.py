"""S-expression wire format shared with coq/theories/Base/Sx.v (nested lists of non-negative ints)."""


def dumps(v):
    if isinstance(v, bool):
        return "1" if v else "0"
    if isinstance(v, int):
        if v < 0:
            raise ValueError("negative int in sx")
        return str(v)
    return "(" + " ".join(dumps(x) for x in v) + ")"


def loads(s):
    pos = 0
    n = len(s)

    def value():
        nonlocal pos
        while pos < n and s[pos] in " \t\r\n":
            pos += 1
        if s[pos] == "(":
            pos += 1
            out = []
            while True:
                while pos < n and s[pos] in " \t\r\n":
                    pos += 1
                if s[pos] == ")":
                    pos += 1
                    return out
                out.append(value())
        st = pos
        while pos < n and s[pos].isdigit():
            pos += 1
        return int(s[st:pos])

    return value()


def to_coq(v):
    if isinstance(v, bool):
        return "I 1" if v else "I 0"
    if isinstance(v, int):
        return "I %d" % v
    return "L [" + "; ".join(to_coq(x) for x in v) + "]"
