"""Hook of translator/predicates.py (tie T for the local predicates of the graph searches) into the checks of C06, C16, C17, C18.

A property module ends with `import tie_preds; tie_preds.install(globals(), "C16")`.  That gives the module
  pre_build(ctx)   regenerate coq/theories/Gen/Gen_Preds.v from ctx["repo"]; a predicate the translator rejects is left out of
                   the file (the lemmas about it in Tie/Preds_Cxx.v then do not compile) and is reported as a problem
  extra(ctx, pool) every generated cell is compared with the REAL code on a 2- or 3-node graph built in that pair state:
                     (a) real == generated table   (the translator's reading of has_edge / neighbors / ... is right)
                     (b) real == model predicate   (python copy of semi_ok / collider3 / triple_ok / ncoll / pd_edge of the Coq
                                                    models, on the pair states of the domain of the Coq lemma: states a PAG can
                                                    hold [C16: without lone circle]; every state for C06)
                   the first bad cell of each kind becomes a replayable case {"kind": "pred-cell", ...}
  coverage_extra   number of cells compared
and makes `./check Cxx --replay f` work for those cases (encode / decode / run_impl / compare are wrapped for kind pred-cell).
Graphs are built through the layer objects (get_graphs(layer).add_edge), as harness/c03.py does, so that every one of the 64
mark combinations of a pair can be reached, also those the PAG guards refuse.
"""
import os
import sys

import framework as fw

BITS = [("directed", 0, 1), ("directed", 1, 0), ("circle", 0, 1), ("circle", 1, 0), ("bidirected", 0, 1), ("undirected", 0, 1)]
ALL = list(range(64))
# the pair kinds of MARKS plus the two lone circles: ->, <-, <->, --, o-o, o->, <-o, -o, o-
NINE = [1, 2, 16, 32, 12, 9, 6, 4, 8]
PLACEHOLDER = {"C16": [1], "C17": [1], "C18": [0, [[], [], [], [], []], []], "C06": [0, [[], [], [], [], []], [], [], []]}


def _translator():
    p = os.path.join(fw.VERIF, "translator")
    if p not in sys.path:
        sys.path.insert(0, p)
    import predicates
    return predicates


# ------------------------------------------------------------------ model predicates (python copies of the Coq definitions)
def _b(c):
    return [bool(c >> i & 1) for i in range(6)]     # dir_uv dir_vu cir_uv cir_vu bid und


def _flip(c):
    return (c >> 1 & 1) | (c & 1) << 1 | (c >> 3 & 1) << 2 | (c >> 2 & 1) << 3 | (c & 48)


def m_semi_ok(c):                  # C16/Model.semi_ok g u v on pst g u v
    duv, dvu, cuv, cvu, bi, un = _b(c)
    return (duv or bi or un or cuv) and not dvu and not bi


def m_no_lone(c):                  # Tie/PredsProofs.no_lone_circle_ps
    duv, dvu, cuv, cvu, bi, un = _b(c)
    return ((not cuv) or cvu or dvu) and ((not cvu) or cuv or duv)


def m_into(c):                     # C17 arrow_into / C06 into on pst g a b
    return bool(c & 1 or c & 16)


def m_mark(c):                     # C18/Model.mark g a b on pst g a b
    duv, dvu, cuv, cvu, bi, un = _b(c)
    return "A" if duv or bi else "C" if cuv else "T" if c else None


def m_pd_edge(c, fc):              # C18/Model.pd_edge g fc a b
    if fc:
        return m_mark(_flip(c)) == "C" and m_mark(c) == "C"
    return m_mark(_flip(c)) != "A" and m_mark(c) in ("A", "C")


def m_valid_pag(c):                # Tie/PredsProofs.valid_pag_ps (= C03/Model.valid_pag): the pair states a PAG can hold
    duv, dvu, cuv, cvu, bi, un = _b(c)
    return not (bi and (duv or dvu or cuv or cvu)) and not (duv and dvu) and not (duv and cuv) and not (dvu and cvu)


def m_dom16(c):                    # Tie/Preds_C16.dom16
    return m_valid_pag(c) and m_no_lone(c)


# ------------------------------------------------------------------ real graphs in a pair state
def _cls(name):
    import pywhy_graphs
    return getattr(pywhy_graphs, name)


def build(clsname, n, pairs):
    """pairs: list of ((a, b), code): the marks between a and b, seen from (a, b)"""
    G = _cls(clsname)()
    G.add_nodes_from(range(n))
    for (a, b), code in pairs:
        for i, (layer, x, y) in enumerate(BITS):
            if code >> i & 1:
                u, v = (a, b) if (x, y) == (0, 1) else (b, a)
                G.get_graphs(layer).add_edge(u, v)
    return G


def _trace_branch(func, args, funcname, test_line, body_first, body_last, names):
    """run func(*args); every time the frame of `funcname` reaches test_line, record the locals `names` and whether the
    next line executed in that frame lies inside the if-body"""
    hits = []
    pending = {}

    def tr(frame, event, arg):
        if event == "call":
            return tr if frame.f_code.co_name == funcname else None
        if event == "line":
            fid = id(frame)
            if fid in pending:
                loc = pending.pop(fid)
                hits.append((loc, body_first <= frame.f_lineno <= body_last))
            if frame.f_lineno == test_line:
                pending[fid] = tuple(frame.f_locals.get(n) for n in names)
        return tr
    sys.settrace(tr)
    try:
        func(*args)
    finally:
        sys.settrace(None)
    return hits


# each spec: pred (name in Gen_Preds), variant, class, domain() -> [(params, states)], observe(states, params, aux) -> bool,
#            gen(pred, states, params) -> expected from the generated table, model(states, params) -> bool | None (out of scope),
#            snippet(states, params) -> how the real code is called
class Spec:
    def __init__(self, pred, variant, cls, dom, observe, model, snippet, gen=None):
        self.pred, self.variant, self.cls, self.dom, self.observe, self.model, self.snippet = pred, variant, cls, dom, observe, model, snippet
        self.gen = gen or (lambda p, st, pv: p.eval(st, **pv))

    @property
    def key(self):
        return self.pred + ("/" + self.variant if self.variant else "")


def _dom1(flag=None, states=ALL):
    return lambda: [({flag: f} if flag else {}, [s]) for f in ((False, True) if flag else (None,)) for s in states]


def _dom2(states1, states2, flag=None, flagvals=(False, True)):
    return lambda: [({flag: f} if flag else {}, [a, b]) for f in (flagvals if flag else (None,)) for a in states1 for b in states2]


def _obs_possibly_directed(cls, st, pv, aux):
    from pywhy_graphs.algorithms.pag import _possibly_directed
    return _possibly_directed(build(cls, 2, [((0, 1), st[0])]), 0, 1, reverse=pv["reverse"])


def _obs_desc(cls, st, pv, aux):
    from pywhy_graphs.algorithms import possible_descendants
    return 1 in possible_descendants(build(cls, 2, [((0, 1), st[0])]), 0)


def _obs_anc(cls, st, pv, aux):
    from pywhy_graphs.algorithms import possible_ancestors
    return 1 in possible_ancestors(build(cls, 2, [((0, 1), st[0])]), 0)


def _obs_semi_edge(cls, st, pv, aux):
    from pywhy_graphs.algorithms import is_semi_directed_path
    return is_semi_directed_path(build(cls, 2, [((0, 1), st[0])]), [0, 1])


def _obs_semi_main(cls, st, pv, aux):
    from pywhy_graphs.algorithms import all_semi_directed_paths
    # three nodes, default cutoff 2: the neighbour 1 of the source is judged by the first test of the loop
    return [0, 1] in list(all_semi_directed_paths(build(cls, 3, [((0, 1), st[0])]), 0, 1))


def _obs_semi_cutoff(cls, st, pv, aux):
    from pywhy_graphs.algorithms import all_semi_directed_paths
    # 0 -> 1 is drawn first and fills the path up to cutoff 1; target 2 is then taken from the remaining neighbours
    G = build(cls, 3, [((0, 1), 1), ((0, 2), st[0])])
    return [0, 2] in list(all_semi_directed_paths(G, 0, 2, cutoff=1))


def _obs_defcoll(cls, st, pv, aux):
    from pywhy_graphs.algorithms.pag import is_definite_collider
    return is_definite_collider(build(cls, 3, [((0, 1), st[0]), ((2, 1), st[1])]), 0, 1, 2)


def _obs_pds(cls, st, pv, aux):
    from pywhy_graphs.algorithms.pag import pds
    G = build(cls, 3, [((0, 1), st[0]), ((2, 1), st[1]), ((0, 2), st[2])])
    hits = _trace_branch(pds, (G, 0), "pds", aux[0], aux[1], aux[2], ("prev_node", "this_node", "next_node"))
    got = [taken for loc, taken in hits if loc == (0, 1, 2)]
    if len(got) != 1:
        return "triple (0,1,2) tested %d times" % len(got)
    return got[0]


def _obs_is_collider(cls, st, pv, aux):
    from pywhy_graphs.algorithms.generic import _is_collider
    return _is_collider(build(cls, 3, [((0, 1), st[0]), ((2, 1), st[1])]), 0, 1, 2)


def _obs_dir_parent(cls, st, pv, aux):
    from pywhy_graphs.algorithms.generic import _directed_sub_graph_parents
    return 0 in _directed_sub_graph_parents(build(cls, 2, [((0, 1), st[0])]), 1)


def _obs_bidir_nbr(cls, st, pv, aux):
    from pywhy_graphs.algorithms.generic import _bidirected_sub_graph_neighbors
    return 0 in _bidirected_sub_graph_neighbors(build(cls, 2, [((0, 1), st[0])]), 1)


def _obs_pd_edge(cls, st, pv, aux):
    from pywhy_graphs.algorithms.pag import uncovered_pd_path
    # with second_node = c the function answers _pd_edge(u, second_node) and nothing else
    return uncovered_pd_path(build(cls, 2, [((0, 1), st[0])]), 0, 1, second_node=1, force_circle=pv["force_circle"])[1]


def _obs_pd_search(cls, st, pv, aux):
    from pywhy_graphs.algorithms.pag import uncovered_pd_path
    return uncovered_pd_path(build(cls, 2, [((0, 1), st[0])]), 0, 1, force_circle=pv["force_circle"])[1]


ADMG_STATES = [c for c in ALL if not c & 12]            # no circle layer
CPDAG_STATES = [c for c in ALL if not c & (12 | 16)]    # directed and undirected layers only

SPECS = {
    "C16": [
        Spec("possibly_directed", "", "PAG", _dom1("reverse"), _obs_possibly_directed,
             lambda st, pv: (m_semi_ok(_flip(st[0])) if pv["reverse"] else m_semi_ok(st[0])) if m_dom16(st[0]) else None,
             lambda st, pv: "_possibly_directed(G, 0, 1, reverse=%s)" % pv["reverse"]),
        Spec("poss_desc_step", "", "PAG", _dom1(), _obs_desc, lambda st, pv: m_semi_ok(st[0]) if m_dom16(st[0]) else None,
             lambda st, pv: "1 in possible_descendants(G, 0)"),
        Spec("poss_anc_step", "", "PAG", _dom1(), _obs_anc, lambda st, pv: m_semi_ok(_flip(st[0])) if m_dom16(st[0]) else None,
             lambda st, pv: "1 in possible_ancestors(G, 0)"),
        Spec("semi_edge_ok", "", "PAG", _dom1(), _obs_semi_edge, lambda st, pv: m_semi_ok(st[0]) if m_dom16(st[0]) else None,
             lambda st, pv: "is_semi_directed_path(G, [0, 1])"),
        Spec("semi_step_main", "", "PAG", _dom1(), _obs_semi_main, lambda st, pv: m_semi_ok(st[0]) if m_dom16(st[0]) else None,
             lambda st, pv: "[0, 1] in list(all_semi_directed_paths(G, 0, 1))   # G has a third, isolated node 2"),
        Spec("semi_step_cutoff", "", "PAG", _dom1(), _obs_semi_cutoff, lambda st, pv: m_semi_ok(st[0]) if m_dom16(st[0]) else None,
             lambda st, pv: "[0, 2] in list(all_semi_directed_paths(G, 0, 2, cutoff=1))   # G: 0 -> 1 and the pair (0, 2) in the state"),
    ],
    "C17": [
        Spec("is_definite_collider", "", "PAG", _dom2(ALL, ALL), _obs_defcoll,
             lambda st, pv: (m_into(st[0]) and m_into(st[1])) if all(m_valid_pag(c) for c in st) else None,
             lambda st, pv: "is_definite_collider(G, 0, 1, 2)"),
        Spec("pds_triple", "trace", "PAG", lambda: [({}, [a, b, c]) for a in NINE for b in NINE for c in ALL], _obs_pds,
             lambda st, pv: ((m_into(st[0]) and m_into(st[1])) or st[2] != 0) if all(m_valid_pag(c) for c in st) else None,
             lambda st, pv: "pds(G, 0)   # traced: is the if-body of the triple test entered for (prev, this, next) = (0, 1, 2)?"),
    ],
    "C06": [
        Spec("is_collider", "ADMG", "ADMG", _dom2(ADMG_STATES, ADMG_STATES, "is_cpdag", (False,)), _obs_is_collider,
             lambda st, pv: m_into(st[0]) and m_into(st[1]), lambda st, pv: "_is_collider(G, 0, 1, 2)"),
        Spec("is_collider", "PAG", "PAG", _dom2(ALL, ALL, "is_cpdag", (False,)), _obs_is_collider,
             lambda st, pv: m_into(st[0]) and m_into(st[1]), lambda st, pv: "_is_collider(G, 0, 1, 2)"),
        Spec("is_collider", "CPDAG", "CPDAG", _dom2(CPDAG_STATES, CPDAG_STATES, "is_cpdag", (True,)), _obs_is_collider,
             lambda st, pv: None, lambda st, pv: "_is_collider(G, 0, 1, 2)"),
        Spec("dir_parent", "ADMG", "ADMG", _dom1(None, ADMG_STATES), _obs_dir_parent, lambda st, pv: None,
             lambda st, pv: "0 in _directed_sub_graph_parents(G, 1)"),
        Spec("dir_parent", "PAG", "PAG", _dom1(), _obs_dir_parent, lambda st, pv: None, lambda st, pv: "0 in _directed_sub_graph_parents(G, 1)"),
        Spec("bidir_nbr", "ADMG", "ADMG", lambda: [({"is_cpdag": False}, [s]) for s in ADMG_STATES], _obs_bidir_nbr, lambda st, pv: None,
             lambda st, pv: "0 in _bidirected_sub_graph_neighbors(G, 1)"),
        Spec("bidir_nbr", "CPDAG", "CPDAG", lambda: [({"is_cpdag": True}, [s]) for s in CPDAG_STATES], _obs_bidir_nbr, lambda st, pv: None,
             lambda st, pv: "0 in _bidirected_sub_graph_neighbors(G, 1)"),
    ],
    "C18": [
        Spec("pd_edge", "", "PAG", _dom1("force_circle"), _obs_pd_edge,
             lambda st, pv: m_pd_edge(st[0], pv["force_circle"]) if m_valid_pag(st[0]) else None,
             lambda st, pv: "uncovered_pd_path(G, 0, 1, second_node=1, force_circle=%s)[1]" % pv["force_circle"]),
        Spec("pd_edge", "search", "PAG", _dom1("force_circle"), _obs_pd_search,
             lambda st, pv: m_pd_edge(st[0], pv["force_circle"]) if m_valid_pag(st[0]) else None,
             lambda st, pv: "uncovered_pd_path(G, 0, 1, force_circle=%s)[1]" % pv["force_circle"],
             gen=lambda p, st, pv: st[0] != 0 and p.eval(st, **pv)),
    ],
}
SPEC_BY_KEY = {(g, s.key): s for g, ss in SPECS.items() for s in ss}
PAIR_NODES = {1: [(0, 1)], 2: [(0, 1), (2, 1)], 3: [(0, 1), (2, 1), (0, 2)]}


def observe(group, key, states, params, aux):
    spec = SPEC_BY_KEY[(group, key)]
    try:
        r = spec.observe(spec.cls, states, params, aux)
        return r if isinstance(r, str) else bool(r)
    except Exception as e:  # noqa
        return "exc:" + type(e).__name__


def _worker(job):
    group, key, aux, cells = job
    bad = []
    for states, params, gen, ref in cells:
        got = observe(group, key, states, params, aux)
        if (gen is not None and got != gen) or (ref is not None and got != ref):
            bad.append((states, params, gen, ref, got))
    return key, len(cells), bad


def _result(ctx):
    res = ctx.get("preds_result")
    if res is None:
        res, changed = _translator().regenerate(ctx["repo"])
        ctx["preds_result"], ctx["gen_preds_changed"] = res, changed
    return res


def pre_build(ctx, group):
    """regenerate Gen_Preds.v from ctx["repo"] and check Tie/Preds_<group>.v against it, both under the build lock, so that the
    verdict of the tie does not depend on what a concurrent check (of another repo) writes into Gen/ afterwards"""
    import re
    import subprocess
    problems = []
    with fw.Lock():
        res, changed = _translator().regenerate(ctx["repo"])
        ctx["preds_result"], ctx["gen_preds_changed"] = res, changed
        fw.ensure_makefile()
        target = "theories/Tie/Preds_%s.vo" % group
        p = subprocess.run(["make", "-j4", target], cwd=fw.COQ, env=fw.ENV, timeout=3000, stdout=subprocess.PIPE,
                           stderr=subprocess.STDOUT, text=True)
        ctx["tie_proofs_ok"] = p.returncode == 0
        if p.returncode != 0:
            m = re.search(r'File "\./([^"]+)", line (\d+)[^\n]*\n((?:.*\n){0,3})', p.stdout)
            where = "%s:%s %s" % (m.group(1), m.group(2), " ".join(m.group(3).split())[:200]) if m else p.stdout[-300:]
            problems.append("the lemmas 'generated predicate = model predicate' no longer hold for the predicates translated from "
                            "%s: %s" % (ctx["repo"], where))
    problems += ["translator rejects the source (fail closed, T:file:line): " + p for p in res.problems.get(group, [])]
    return problems


def _aux(res, spec):
    return res.lines.get("pds_test") if spec.pred == "pds_triple" else None


def case_of(group, spec, states, params):
    return {"kind": "pred-cell", "group": group, "pred": spec.key, "cls": spec.cls, "states": list(states), "params": dict(params),
            "pairs": PAIR_NODES[len(states)], "call": spec.snippet(states, params),
            "state_bits": "bit0 a->b, bit1 b->a, bit2 circle at b, bit3 circle at a, bit4 a<->b, bit5 a--b for each pair (a, b) of `pairs`"}


def extra(ctx, pool, group):
    res = _result(ctx)
    jobs = []
    for spec in SPECS[group]:
        pred = res.preds.get(spec.pred)
        aux = _aux(res, spec)
        if spec.pred == "pds_triple" and aux is None:
            continue                                  # the translator could not locate the test: nothing to trace
        cells = []
        for params, states in spec.dom():
            gen = bool(spec.gen(pred, states, params)) if pred is not None else None
            ref = spec.model(states, params)
            cells.append((states, params, gen, None if ref is None else bool(ref)))
        step = max(1, len(cells) // 16 + 1)
        for i in range(0, len(cells), step):
            jobs.append((group, spec.key, aux, cells[i:i + step]))
    out = []
    counts = {}
    seen = set()
    for key, n, bad in pool.map(_worker, jobs):
        counts[key] = counts.get(key, 0) + n
        spec = SPEC_BY_KEY[(group, key)]
        for states, params, gen, ref, got in bad:
            kind = "translator-semantics" if (gen is not None and got != gen) else "model"
            if (key, kind) in seen:
                continue
            seen.add((key, kind))
            nbad = sum(1 for b in bad if (b[2] is not None and b[4] != b[2]) == (kind == "translator-semantics"))
            what = ("the real code answers %s but the table translated from its source says %s (the translator's reading of the "
                    "source is wrong)" % (got, gen)) if kind == "translator-semantics" else (
                "the real code answers %s, the model predicate of %s (and the property) demands %s" % (got, group, ref))
            out.append({"reason": "%s [%s] on a %s in pair state(s) %s %s: %s (>= %d cells of this kind)" % (
                            spec.key, spec.snippet(states, params), spec.cls, states, params or "", what, nbad),
                        "found_input": True, "case": case_of(group, spec, states, params), "impl": got,
                        "generated_table": gen, "model_predicate": ref, "cell_kind": kind,
                        "broken": "Tie/Preds_%s.v (generated predicate = model predicate) / cell comparison" % group,
                        "how_to_replay": "cd /verif && ./check %s --replay <this file>" % group})
    ctx["pred_cells"] = counts
    return out


def coverage_extra(ctx, group):
    res = ctx.get("preds_result")
    return {"predicate_cells_compared": ctx.get("pred_cells", {}),
            "generated_predicates": sorted(p.name for p in res.preds.values() if p.group == group) if res else [],
            "gen_preds_rewritten": bool(ctx.get("gen_preds_changed"))}


# ------------------------------------------------------------------ replay support
def is_cell(case):
    return isinstance(case, dict) and case.get("kind") == "pred-cell"


def cell_expected(case):
    P = _translator()
    res = P._CACHE.get(fw.REPO) or P.generate(fw.REPO)
    P._CACHE[fw.REPO] = res
    spec = SPEC_BY_KEY[(case["group"], case["pred"])]
    pred = res.preds.get(spec.pred)
    gen = bool(spec.gen(pred, case["states"], case["params"])) if pred is not None else None
    ref = spec.model(case["states"], case["params"])
    return {"generated_table": gen, "model_predicate": None if ref is None else bool(ref)}


def cell_impl(case):
    P = _translator()
    res = P._CACHE.get(fw.REPO) or P.generate(fw.REPO)
    P._CACHE[fw.REPO] = res
    spec = SPEC_BY_KEY[(case["group"], case["pred"])]
    return {"real": observe(case["group"], case["pred"], case["states"], case["params"], _aux(res, spec))}


def cell_compare(case, impl, model):
    if "exc" in impl:
        return "pred-cell-exception"
    for k in ("generated_table", "model_predicate"):
        if model.get(k) is not None and impl.get("real") != model[k]:
            return "pred-cell:" + k
    return None


def install(ns, group):
    old = {k: ns.get(k) for k in ("pre_build", "extra", "coverage_extra", "encode", "decode", "run_impl", "compare", "classify",
                                  "nontrivial", "key", "shrink")}

    def chain(name, default):
        return old[name] if old[name] is not None else default

    def _pre_build(ctx):
        return list(chain("pre_build", lambda c: [])(ctx) or []) + pre_build(ctx, group)

    def _extra(ctx, pool):
        return list(chain("extra", lambda c, p: [])(ctx, pool) or []) + extra(ctx, pool, group)

    def _coverage_extra(ctx):
        d = dict(chain("coverage_extra", lambda c: {})(ctx) or {})
        d.update(coverage_extra(ctx, group))
        return d

    def _encode(case):
        return PLACEHOLDER[group] if is_cell(case) else old["encode"](case)

    def _decode(case, v):
        return cell_expected(case) if is_cell(case) else old["decode"](case, v)

    def _run_impl(case):
        return cell_impl(case) if is_cell(case) else old["run_impl"](case)

    def _compare(case, impl, model):
        if is_cell(case):
            return cell_compare(case, impl, model)
        return chain("compare", fw._default_compare)(case, impl, model)

    ns.update(pre_build=_pre_build, extra=_extra, coverage_extra=_coverage_extra, encode=_encode, decode=_decode,
              run_impl=_run_impl, compare=_compare)
    for name, default in (("classify", None), ("nontrivial", False), ("shrink", ())):
        if old[name] is not None:
            ns[name] = (lambda f, d: (lambda case, *a: d if is_cell(case) else f(case, *a)))(old[name], default)
    if old["key"] is not None:
        ns["key"] = lambda case: ("pred-cell", case["pred"], tuple(case["states"])) if is_cell(case) else old["key"](case)
    ns["TRUSTED"] = list(ns.get("TRUSTED", [])) + [
        "/verif/translator/predicates.py (Python-ast -> Gallina for the local predicates; its own evaluation of every cell is proved "
        "equal to the printed Gallina (repo_pred_cells_%s) and re-compared with the real functions on every run)" % group]
