#!/usr/bin/env python3
"""lead tool: add a 'fixed' record to KNOWN_FINDINGS.json for every fixes/applied/<slug>.commit not yet recorded.
witness: corpus/<prop>/<slug>*.json or fixes/<slug>.witness.json if present (case dict), else none."""
import glob, json, os
V = os.path.dirname(os.path.abspath(__file__))
kf = json.load(open(os.path.join(V, "KNOWN_FINDINGS.json")))
for f in sorted(glob.glob(os.path.join(V, "fixes", "applied", "*.commit"))):
    slug = os.path.basename(f)[:-7]
    prop = slug.split("-")[0]
    commit = open(f).read().strip()
    ents = kf.setdefault(prop, [])
    if any(e.get("slug") == slug for e in ents):
        continue
    first = open(os.path.join(V, "fixes", slug + ".msg")).read().split("\n")[0]
    wit = None
    wf = os.path.join(V, "fixes", slug + ".witness.json")
    if os.path.exists(wf):
        wit = json.load(open(wf))
    ents.append({"key": "fixed:" + slug, "slug": slug, "status": "fixed", "commit": commit,
                 "record": "fixed: property=%s %s %s" % (prop, commit, first[len("fix: "):] if first.startswith("fix: ") else first),
                 "what": first, "witness": wit})
    print("recorded", slug, commit)
json.dump(kf, open(os.path.join(V, "KNOWN_FINDINGS.json"), "w"), indent=1)
