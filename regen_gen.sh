#!/bin/bash
# lead tool: put the generated Coq files back to what /repo says (a seeded run against a scratch tree rewrites coq/theories/Gen from that tree)
cd /verif && for t in translator/guards.py translator/codecs.py translator/predicates.py translator/sepstep.py; do
  /venv/bin/python $t /repo >/dev/null 2>&1
done
