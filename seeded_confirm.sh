#!/bin/bash
# lead tool: independently confirm a seeded mutation (demo passes on clean tree, fails with patch, baseline 405/405 with patch)
# usage: seeded_confirm.sh <dir with patch.diff demo.py> ; prints a JSON line
d="$1"
wt=/tmp/seedc_wt_$$
git -C /repo worktree add -q $wt HEAD || exit 2
cp -r /repo/pywhy_graphs.egg-info $wt/ 2>/dev/null
( cd /tmp && PYTHONPATH=$wt PYTHONHASHSEED=0 timeout 600 /venv/bin/python $d/demo.py > /tmp/seedc_clean_$$.log 2>&1 ); rc_clean=$?
git -C $wt apply -3 --whitespace=nowarn $d/patch.diff; rc_apply=$?
( cd /tmp && PYTHONPATH=$wt PYTHONHASHSEED=0 timeout 600 /venv/bin/python $d/demo.py > /tmp/seedc_mut_$$.log 2>&1 ); rc_mut=$?
base=$(/verif/baseline_check.sh $wt | head -1)
git -C /repo worktree remove --force $wt
rm -f /tmp/seedc_clean_$$.log /tmp/seedc_mut_$$.log
echo "{\"applies\": $rc_apply, \"demo_clean_exit\": $rc_clean, \"demo_mutated_exit\": $rc_mut, \"baseline_with_patch\": \"$base\", \"repo_head\": \"$(git -C /repo rev-parse --short HEAD)\"}"
