#!/bin/bash
# lead tool: ingest mutation agent output dir (<worktree>/out/<k>) as seeded/<PROP>-m<k>: confirm, copy, run the check, write meta.json
# usage: seeded_ingest.sh <PROP> <worktree>
prop="$1"; wt="$2"; pre="${3:-m}"
for k in 1 2 3; do
  src=$wt/out/$k; [ -f $src/patch.diff ] || continue
  sid=$prop-$pre$k; dst=/verif/seeded/$sid; mkdir -p $dst
  cp $src/patch.diff $src/demo.py $src/notes.md $dst/ 2>/dev/null
  conf=$(/verif/seeded_confirm.sh $dst 2>/dev/null | tail -1)
  out=$(/verif/seeded_test.sh $prop $dst/patch.diff quick 2>&1)
  rc=$(echo "$out" | grep -o 'seeded_test exit=[0-9]*' | cut -d= -f2)
  summary=$(echo "$out" | grep -E "^$prop tier=" | tail -1)
  /venv/bin/python - "$sid" "$prop" "$conf" "$rc" "$summary" <<'PY'
import json, sys, os
sid, prop, conf, rc, summary = sys.argv[1:6]
d = "/verif/seeded/" + sid
notes = open(os.path.join(d, "notes.md")).read()
meta = {"id": sid, "property": prop, "notes_excerpt": notes[:1200],
        "confirmed": json.loads(conf) if conf.startswith("{") else {"error": conf},
        "check_quick_exit": int(rc) if rc.isdigit() else None, "check_quick_summary": summary,
        "detected_by_quick": rc == "1",
        "ran": ["/verif/seeded_confirm.sh " + d, "/verif/seeded_test.sh %s %s/patch.diff quick" % (prop, d)]}
json.dump(meta, open(os.path.join(d, "meta.json"), "w"), indent=1)
print(sid, "confirmed:", conf, "| check exit:", rc, "|", summary)
PY
done
[ "${SEEDED_KEEP_WT:-0}" = 1 ] || git -C /repo worktree remove --force $wt
