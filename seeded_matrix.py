#!/venv/bin/python
"""lead tool: final pass over every seeded change: run the property's own quick check on a scratch worktree of /repo with the
patch applied (VERIF_REPO), and when that misses also the cross checks listed in CROSS / C15; write meta.json["final"] and
seeded/RESULTS.md.  usage: seeded_matrix.py [-j N] [ids...]"""
import concurrent.futures as cf
import json
import os
import re
import subprocess
import sys

V = "/verif"
CROSS = {  # extra checks worth trying when the own check misses (same code, other property)
    "C08": ["C09"], "C09": ["C08"], "C06": ["C07"], "C07": ["C06"], "C11": ["C12"], "C12": ["C11", "C02"], "C04": ["C05"], "C05": ["C04"],
    "C15": ["C01", "C10", "C04", "C17", "C18", "C09", "C06"], "C01": ["C11", "C19"], "C16": [], "C02": ["C20"],
}


def run_check(prop, patch, k):
    wt = "/tmp/seedm_wt_%d_%s" % (os.getpid(), k)
    subprocess.run(["git", "-C", "/repo", "worktree", "add", "-q", wt, "HEAD"], check=True)
    try:
        subprocess.run(["cp", "-r", "/repo/pywhy_graphs.egg-info", wt + "/"])
        if subprocess.run(["git", "-C", wt, "apply", "-3", "--whitespace=nowarn", patch], capture_output=True).returncode:
            return {"exit": None, "summary": "patch does not apply"}
        env = dict(os.environ, VERIF_REPO=wt, VERIF_JOBS="5", VERIF_EVIDENCE_DIR="/tmp/seed_evidence",
                   VERIF_REPLAYS_DIR="/tmp/seed_replays")
        p = subprocess.run([V + "/check", prop, "--tier", "quick"], cwd=V, env=env, capture_output=True, text=True, timeout=3000)
        lines = [l for l in p.stdout.split("\n") if l.startswith(prop + " tier=")]
        viol = [l for l in p.stdout.split("\n") if l.startswith("VIOLATION")]
        return {"exit": p.returncode, "summary": lines[-1] if lines else "", "violation_lines": viol[:3]}
    finally:
        subprocess.run(["git", "-C", "/repo", "worktree", "remove", "--force", wt])


def one(sid):
    d = os.path.join(V, "seeded", sid)
    mp0 = os.path.join(d, "meta.json")
    if os.path.exists(mp0) and json.load(open(mp0)).get("obsolete"):
        return sid, ["(superseded)"], "obsolete: " + json.load(open(mp0))["obsolete"][:80]
    prop = sid.split("-")[0]
    patch = os.path.join(d, "patch.diff")
    res = {"own": run_check(prop, patch, sid)}
    detected_by = [prop] if res["own"]["exit"] == 1 else []
    if not detected_by:
        for other in CROSS.get(prop, []) + ([] if prop == "C15" else ["C15"]):
            r = run_check(other, patch, sid + other)
            res[other] = r
            if r["exit"] == 1:
                detected_by.append(other)
                break
    meta_p = os.path.join(d, "meta.json")
    meta = json.load(open(meta_p)) if os.path.exists(meta_p) else {"id": sid, "property": prop}
    meta["id"] = sid
    meta["final"] = {"repo_head": subprocess.run(["git", "-C", "/repo", "rev-parse", "--short", "HEAD"], capture_output=True, text=True).stdout.strip(),
                     "verif_head": subprocess.run(["git", "-C", V, "rev-parse", "--short", "HEAD"], capture_output=True, text=True).stdout.strip(),
                     "detected_by": detected_by, "runs": res}
    json.dump(meta, open(meta_p, "w"), indent=1)
    return sid, detected_by, res["own"]["summary"]


def main():
    args = sys.argv[1:]
    j = 3
    if args and args[0] == "-j":
        j = int(args[1]); args = args[2:]
    ids = args or sorted(x for x in os.listdir(os.path.join(V, "seeded")) if os.path.isdir(os.path.join(V, "seeded", x)))
    out = []
    with cf.ThreadPoolExecutor(j) as ex:
        for sid, det, summ in ex.map(one, ids):
            print(sid, "DETECTED by " + ",".join(det) if det else "MISSED", "|", summ[:110], flush=True)
            out.append((sid, det))
    write_results()


def write_results():
    rows = []
    for sid in sorted(os.listdir(os.path.join(V, "seeded"))):
        mp = os.path.join(V, "seeded", sid, "meta.json")
        if not os.path.exists(mp):
            continue
        m = json.load(open(mp))
        f = m.get("final", {})
        notes = os.path.join(V, "seeded", sid, "notes.md")
        first = ""
        if os.path.exists(notes):
            txt = re.sub(r"\s+", " ", open(notes).read())
            first = txt[:160]
        rnd = {"m": "1", "r2m": "2", "r3m": "3", "r4m": "4", "r5m": "5", "r6m": "6", "r7m": "7"}.get(re.sub(r"[0-9]+$", "", sid.split("-", 1)[1]), "?")
        if m.get("obsolete"):
            res = "superseded: " + m["obsolete"]
        elif m.get("out_of_domain"):
            res = ("not detected, by decision: " + m["out_of_domain"]) if not f.get("detected_by") else ("**caught** by " + ", ".join(f.get("detected_by")))
        else:
            res = ("**caught** by " + ", ".join(f.get("detected_by"))) if f.get("detected_by") else ("MISSED" if f else "not run")
        rows.append("| %s | %s | %s | %s |" % (sid, rnd, res.replace("|", "/"), first.replace("|", "/")))
    with open(os.path.join(V, "seeded", "RESULTS.md"), "w") as fh:
        fh.write("# Seeded changes — final detection status (quick tier, scratch worktree of /repo with the patch applied)\n\n"
                 "Produced by /verif/seeded_matrix.py; each row's details are in seeded/<id>/meta.json (`final`).\n\n"
                 "| id | round | result | what (start of the author's notes) |\n|---|---|---|---|\n" + "\n".join(rows) + "\n")


if __name__ == "__main__":
    try:
        main()
    finally:
        subprocess.run([V + "/regen_gen.sh"])   # the scratch-tree runs rewrote coq/theories/Gen: put /repo's back
