#!/bin/bash
# lead tool: run a check against a scratch worktree of /repo with one seeded patch applied (keeps /repo untouched while builders work)
# usage: seeded_test.sh <PROP> <patch.diff> [tier]
prop="$1"; patch="$2"; tier="${3:-quick}"
wt=/tmp/seed_wt_$$
git -C /repo worktree add -q $wt HEAD || exit 2
cp -r /repo/pywhy_graphs.egg-info $wt/ 2>/dev/null
git -C $wt apply -3 --whitespace=nowarn "$patch" || { echo "patch does not apply"; git -C /repo worktree remove --force $wt; exit 2; }
cd /verif && VERIF_EVIDENCE_DIR=/tmp/seed_evidence VERIF_REPO=$wt VERIF_JOBS=${VERIF_JOBS:-8} ./check $prop --tier $tier 2>&1 | grep -v '^WARNING conda' | tail -6
rc=${PIPESTATUS[0]}
git -C /repo worktree remove --force $wt
/verif/regen_gen.sh
echo "seeded_test exit=$rc"
