#!/bin/bash
# MANIFEST.setup_cmd: regenerate the translator output from /repo, full .vo build of the Coq development
# (never -vos/-vok), extraction, driver build. Offline.
export OCAMLRUNPARAM=s=4M PYTHONDONTWRITEBYTECODE=1
cd "$(dirname "$0")"
repo="${VERIF_REPO:-/repo}"
for t in translator/guards.py translator/codecs.py translator/predicates.py translator/sepstep.py; do
  [ -f $t ] && { /venv/bin/python $t "$repo" || echo "setup: $t reported a translation problem (the checks will report it)"; }
done
/venv/bin/python -c "import sys; sys.path.insert(0,'harness'); import framework; framework.ensure_makefile()" || exit 1
# -k: a proof that depends on generated tables may legitimately fail when /repo is broken; everything else must still build
timeout 10000 make -k -C coq -j16 > coq/setup_make.log 2>&1; rc=$?
./build_models.sh || rc=1
if [ $rc -ne 0 ]; then grep -E "^File|Error" coq/setup_make.log | head -20; echo "setup: finished WITH ERRORS"; exit 1; fi
echo "setup ok"
