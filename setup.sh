#!/bin/bash
# MANIFEST.setup_cmd: full .vo build of the Coq development (never -vos/-vok), extraction, driver build. Offline.
set -e
export OCAMLRUNPARAM=s=4M PYTHONDONTWRITEBYTECODE=1
cd "$(dirname "$0")"
/venv/bin/python -c "import sys; sys.path.insert(0,'harness'); import framework; framework.ensure_makefile()"
timeout 10000 make -C coq -j16 > coq/setup_make.log 2>&1 || { tail -30 coq/setup_make.log; echo "setup: coq build failed"; exit 1; }
./build_models.sh
echo "setup ok"
